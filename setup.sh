#!/bin/sh
# Build the whole framework offline from files on disk: Lean models, proofs, compiled model driver.
set -e
cd "$(dirname "$0")/lean"
lake build Model Proofs Props Driver driver
