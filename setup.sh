#!/bin/sh
# Build the framework offline from files on disk: the compiled model driver and the proof modules of every
# claimed property (harness/enabled.txt).  Groups still under construction are not built here.
set -e
cd "$(dirname "$0")"
MODS=$(/venv/bin/python - <<'PY'
import sys
sys.path.insert(0, "harness")
from registry import REGISTRY
mods = []
for r in REGISTRY.values():
    m = r["module"]
    mods += [m] if isinstance(m, str) else list(m)
print(" ".join(sorted(set(mods))))
PY
)
/venv/bin/python tools/py2lean.py --repo "${VERIF_REPO:-/repo}" --out lean/Gen || true
cd lean
lake build driver $MODS
