"""
Target group `Gen.ExprOps` of py2lean: the operator semantics of the constant-expression evaluator,

    pydsdl/_expression/_any.py        (the default methods of `Any`, the exception classes)
    pydsdl/_expression/_primitive.py  (`Boolean`, `Rational`, `String`)
    pydsdl/_expression/_container.py  (`Set`)
    pydsdl/_expression/_operator.py   (the dispatchers with `_auto_swap`)

and, for the binding of operator tokens to these functions, the `visit_op…` members of `_parser.py` with the terminals of
grammar.parsimonious (`Gen.Ex.binaryOperator` / `Gen.Ex.unaryOperator`).

Output: lean/Gen/ExprOps.lean (imports PyLib.Expr only).

Unlike the other groups this one is *dynamically typed*: every Python value is a `Py.Obj`, every translated function is
`Py.Env → Py.Obj → … → Py.E Py.Obj`; what an operation means on the values it meets at run time is decided by PyLib/Expr.lean
(`Py.op_add`, `Py.eq`, `Py.isinstance`, `Py.frozenset`, …), not by the translator.  The translator is syntax directed:

  * every definition reachable from the public functions of `_operator.py`, the constructors of the four concrete classes and
    the `__eq__` / `__hash__` / `__bool__` / `__iter__` protocols is translated (demand driven, dependencies first);
  * a method call `x.m(a)` on an object whose class is not known statically becomes a call of the *dispatcher*
    `Gen.Ex.dispatch.m`: a `match` on the class of `x` that selects the implementation the MRO of that class yields (computed
    from the `class` statements), `AttributeError` otherwise; `self.m(a)` inside a class is bound statically when no subclass
    overrides `m`; `super().m(a)` is the next implementation in the MRO; `C(a)` runs `C.__init__` on a fresh instance;
  * decorators that are defined in the translated sources (`_auto_swap(…)`, `Set._Decorator.homotypic_binary_operator`) are
    applied at translation time: the wrapper closure is specialised for each decorated function; free variables of the closure
    that the decorator computes from its arguments (`alternative_method_name`) are evaluated statically, `getattr(x, <static>)`
    is a dispatcher call;
  * references to functions of *another* translated module (`_operator.add` inside `_container.py`) are late bound through
    `env.glob` (this is where the recursion `add → Set._add → add` goes); `Gen.Ex.env nfc n` ties the knot with a budget `n`;
  * exceptions: `raise C(...)` is `throw .C` (constructor arguments - messages - are not evaluated), `try / except C` is
    `Py.try_` with a handler that tests `C ∈ Gen.Ex.excMro e` (bases read from the `class` statements);
  * statements: assignment to locals and to `self.attr`, unpacking assignment `a, *b = x`, `lst.append(v)` on a local list that nothing else can refer to, `del`, `assert`, `return`, `raise`, `if / elif / else`, `try / except /
    else`, `for` over an iterable with loop-carried locals, `next(it)` on a local iterator, nested `def` (local function), docstrings; expressions: constants, names, attributes, calls, `and / or / not`,
    comparisons (`is` / `is not`: decided for singleton objects only), `any` / `all`, arithmetic and bitwise operators, conditional expressions, lambdas, generator expressions and list comprehensions (one `for`, no `if`), tuples of classes.

Everything else raises Untranslatable: the definition is emitted as an always-failing stub and reported.
"""
from __future__ import annotations

import ast
import hashlib
import typing
from pathlib import Path


class Untranslatable(Exception):
    pass


PKG = "pydsdl/_expression"
MODULES = ["_any", "_primitive", "_container", "_operator"]
USER_CLASSES = ["Any", "Primitive", "Boolean", "Rational", "String", "Container", "Set"]  # = the user part of Py.Cls
USER_EXC = ["InvalidOperandError", "UndefinedOperatorError", "UndefinedAttributeError"]  # classes of _any.py in Py.Exc
EXTERNAL_EXC = {"InvalidDefinitionError"}  # `_error.InvalidDefinitionError`: the root the model distinguishes
BUILTIN_EXC = ["ZeroDivisionError", "OverflowError", "ValueError", "TypeError", "AttributeError", "AssertionError", "IndexError",
               "NameError", "NotImplementedError"]
BUILTIN_CLS = {"object": "object", "type": "type", "bool": "bool", "int": "int", "float": "float", "complex": "complex", "str": "str",
               "list": "list", "frozenset": "frozenset"}
BUILTIN_MRO = {"object": ["object"], "type": ["type", "object"], "NoneType": ["NoneType", "object"],
               "NotImplementedType": ["NotImplementedType", "object"], "bool": ["bool", "int", "object"], "int": ["int", "object"],
               "float": ["float", "object"], "complex": ["complex", "object"], "str": ["str", "object"], "list": ["list", "object"],
               "frozenset": ["frozenset", "object"], "Fraction": ["Fraction", "object"]}
# the public functions of _operator.py with their arity (used for the stub when one of them is missing)
ROOT_FUNCS = {"logical_not": 1, "positive": 1, "negative": 1, "logical_or": 2, "logical_and": 2, "equal": 2, "not_equal": 2,
              "less_or_equal": 2, "greater_or_equal": 2, "less": 2, "greater": 2, "bitwise_or": 2, "bitwise_xor": 2, "bitwise_and": 2,
              "add": 2, "subtract": 2, "multiply": 2, "divide": 2, "modulo": 2, "power": 2, "attribute": 2}
CONCRETE = ["Boolean", "Rational", "String", "Set"]
PROTOCOLS = ["__eq__", "__hash__", "__bool__", "__iter__"]
OPERATOR_FUNCS = {"eq": "Py.eq", "ne": "Py.ne", "lt": "Py.op_lt", "le": "Py.op_le", "gt": "Py.op_gt", "ge": "Py.op_ge",
                  "add": "Py.op_add", "sub": "Py.op_sub", "mul": "Py.op_mul", "truediv": "Py.op_truediv", "mod": "Py.op_mod",
                  "pow": "Py.op_pow", "or_": "Py.op_or", "xor": "Py.op_xor", "and_": "Py.op_and"}
BINOPS = {ast.Add: "Py.op_add", ast.Sub: "Py.op_sub", ast.Mult: "Py.op_mul", ast.Div: "Py.op_truediv", ast.Mod: "Py.op_mod",
          ast.Pow: "Py.op_pow", ast.BitOr: "Py.op_or", ast.BitXor: "Py.op_xor", ast.BitAnd: "Py.op_and"}
CMPOPS = {ast.Eq: "Py.eq", ast.NotEq: "Py.ne", ast.Lt: "Py.op_lt", ast.LtE: "Py.op_le", ast.Gt: "Py.op_gt", ast.GtE: "Py.op_ge",
          ast.Is: "Py.is_", ast.IsNot: "Py.is_not"}
BUILTIN_FUNCS1 = {"len": "Py.len", "list": "Py.list_", "set": "Py.frozenset", "frozenset": "Py.frozenset", "iter": "Py.iter",
                  "hash": "Py.hash", "int": "Py.int_", "type": "Py.type_"}
NATIVE_METHODS = {"issubset": "Py.fs_issubset", "issuperset": "Py.fs_issuperset", "union": "Py.fs_union",
                  "intersection": "Py.fs_intersection", "symmetric_difference": "Py.fs_symmetric_difference"}
NATIVE_ATTRS = {"numerator": "Py.attr_numerator", "denominator": "Py.attr_denominator"}
LEAN_KEYWORDS = {"end", "at", "from", "by", "do", "then", "fun", "let", "in", "open", "show", "have", "match", "with", "where", "instance",
                 "class", "structure", "def", "theorem", "mut", "type", "if", "else", "for", "return", "env", "e", "pure", "throw"}
P = "Gen.Ex."


def lname(n: str) -> str:
    return n + "'" if n in LEAN_KEYWORDS or n.startswith("t_") or n.startswith("c_") or n.startswith("e_") else n


def lean_str(s: str) -> str:
    return '"' + s.replace("\\", "\\\\").replace('"', '\\"').replace("\n", " ") + '"'


def str_obj(s: str) -> str:
    return "(Py.Obj.str [%s] /- %s -/)" % (", ".join(str(ord(c)) for c in s), s.replace("-/", "- /").replace("/-", "/ -"))


class Mod:
    def __init__(self, name: str, src: str):
        self.name = name
        self.src = src
        self.lines = src.splitlines()
        self.tree = ast.parse(src)
        self.classes: typing.Dict[str, ast.ClassDef] = {n.name: n for n in self.tree.body if isinstance(n, ast.ClassDef)}
        self.funcs: typing.Dict[str, ast.FunctionDef] = {n.name: n for n in self.tree.body if isinstance(n, ast.FunctionDef)}
        self.alias: typing.Dict[str, typing.Tuple[str, ...]] = {}
        for n in ast.walk(self.tree):
            if isinstance(n, ast.Import):
                for a in n.names:
                    self.alias[a.asname or a.name] = ("stdlib", a.name)
            elif isinstance(n, ast.ImportFrom):
                for a in n.names:
                    local = a.asname or a.name
                    if n.level >= 1 and n.module is None:
                        self.alias[local] = ("module", a.name)       # from . import _any / from .. import _error
                    elif n.level >= 1:
                        self.alias[local] = ("from", n.module.split(".")[-1], a.name)  # from ._primitive import Boolean
                    else:
                        self.alias[local] = ("stdlib", (n.module or "") + "." + a.name)

    def span(self, fn: ast.AST) -> str:
        text = "\n".join(self.lines[fn.lineno - 1: fn.end_lineno])
        return "%s/%s.py sha256 %s" % (PKG, self.name, hashlib.sha256(text.encode()).hexdigest()[:16])


class ClassInfo:
    def __init__(self, name: str, mod: Mod, node: ast.ClassDef):
        self.name, self.mod, self.node = name, mod, node
        self.methods: typing.Dict[str, ast.FunctionDef] = {}
        self.props: typing.Set[str] = set()
        self.abstract: typing.Set[str] = set()
        self.static: typing.Set[str] = set()
        self.nested: typing.Dict[str, ast.ClassDef] = {}
        self.class_attrs: typing.Set[str] = set()
        for s in node.body:
            if isinstance(s, ast.FunctionDef):
                self.methods[s.name] = s
                for d in s.decorator_list:
                    dn = ast.unparse(d)
                    if dn == "property":
                        self.props.add(s.name)
                    elif dn in ("abc.abstractmethod", "abstractmethod"):
                        self.abstract.add(s.name)
                    elif dn == "staticmethod":
                        self.static.add(s.name)
            elif isinstance(s, ast.ClassDef):
                self.nested[s.name] = s
            elif isinstance(s, ast.Assign):
                self.class_attrs |= {t.id for t in s.targets if isinstance(t, ast.Name)}
        self.bases: typing.List[str] = []


def terminates(stmts: typing.List[ast.stmt]) -> bool:
    for s in reversed(stmts):
        if isinstance(s, (ast.Pass,)) or (isinstance(s, ast.Expr) and isinstance(s.value, ast.Constant)):
            continue
        if isinstance(s, (ast.Return, ast.Raise)):
            return True
        if isinstance(s, ast.If):
            return bool(s.orelse) and terminates(s.body) and terminates(s.orelse)
        return False
    return False


def assigned_names(stmts: typing.List[ast.stmt]) -> typing.List[str]:
    """local names (and `self` for attribute assignments) that the statements (re)bind, in first-assignment order; nested
    function bodies excluded"""
    out: typing.List[str] = []

    def add(n: str) -> None:
        if n not in out:
            out.append(n)

    def walk(ss: typing.List[ast.stmt]) -> None:
        for s in ss:
            if isinstance(s, ast.Assign):
                for t in s.targets:
                    tgt(t)
            elif isinstance(s, (ast.AnnAssign, ast.AugAssign)):
                tgt(s.target)
            elif (isinstance(s, ast.Expr) and isinstance(s.value, ast.Call) and isinstance(s.value.func, ast.Attribute)
                  and s.value.func.attr == "append" and isinstance(s.value.func.value, ast.Name)):
                add(s.value.func.value.id)
            elif isinstance(s, ast.For):
                walk(s.body)
            elif isinstance(s, ast.If):
                walk(s.body)
                walk(s.orelse)
            elif isinstance(s, ast.Try):
                walk(s.body)
                for h in s.handlers:
                    walk(h.body)
                walk(s.orelse)
                walk(s.finalbody)

    def tgt(t: ast.AST) -> None:
        if isinstance(t, ast.Name):
            add(t.id)
        elif isinstance(t, ast.Attribute) and isinstance(t.value, ast.Name):
            add(t.value.id)
        elif isinstance(t, (ast.Tuple, ast.List)):
            for e in t.elts:
                tgt(e.value if isinstance(e, ast.Starred) else e)
        else:
            raise Untranslatable("assignment target %s" % ast.unparse(t))

    walk(stmts)
    return out


class Gen:
    """the whole translation: source model, demand-driven emission"""

    def __init__(self, repo: Path):
        self.repo = repo
        self.problems: typing.List[str] = []
        self.mods: typing.Dict[str, Mod] = {}
        for m in MODULES:
            p = repo / PKG / (m + ".py")
            try:
                self.mods[m] = Mod(m, p.read_text())
            except (OSError, SyntaxError, ValueError) as ex:
                self.problems.append("%s/%s.py: cannot read / parse: %s" % (PKG, m, ex))
                self.mods[m] = Mod(m, "")
        self.classes: typing.Dict[str, ClassInfo] = {}
        for m in self.mods.values():
            for cn, node in m.classes.items():
                if cn in USER_CLASSES:
                    self.classes[cn] = ClassInfo(cn, m, node)
        self.exc_bases: typing.Dict[str, typing.List[str]] = {}
        self.read_hierarchy()
        self.emitted: typing.Dict[str, typing.List[str]] = {}   # key -> lines
        self.order: typing.List[str] = []
        self.in_progress: typing.List[str] = []
        self.sigs: typing.Dict[str, typing.List[typing.Tuple[str, typing.Optional[int]]]] = {}  # key -> [(param, fn arity or None)]
        self.globs: typing.Set[str] = set()
        self.wrappers: typing.Dict[str, typing.Optional[dict]] = {}

    # ------------------------------------------------------------------ class hierarchy
    def read_hierarchy(self) -> None:
        for cn in USER_CLASSES:
            ci = self.classes.get(cn)
            if ci is None:
                self.problems.append("class %s: not found" % cn)
                continue
            for b in ci.node.bases:
                r = self.resolve(ci.mod, b)
                if r[0] == "class":
                    ci.bases.append(r[1])
                elif ast.unparse(b) in ("abc.ABC", "ABC", "object"):
                    pass
                else:
                    self.problems.append("class %s: base %s is outside the translated fragment" % (cn, ast.unparse(b)))
            if len(ci.bases) > 1:
                self.problems.append("class %s: multiple inheritance" % cn)
        # no other class of the translated modules may derive from the classes of the value universe
        for m in self.mods.values():
            for cn, node in m.classes.items():
                if cn in USER_CLASSES or cn in USER_EXC:
                    continue
                for b in node.bases:
                    r = self.resolve(m, b)
                    if r[0] == "class":
                        self.problems.append("class %s(%s) in %s.py: not part of the value universe of PyLib.Expr" % (cn, r[1], m.name))
        anym = self.mods["_any"]
        for en in USER_EXC:
            node = anym.classes.get(en)
            if node is None:
                self.problems.append("exception class %s: not found in _any.py" % en)
                self.exc_bases[en] = []
                continue
            bs = []
            for b in node.bases:
                r = self.resolve(anym, b)
                if r[0] == "exc":
                    bs.append(r[1])
                else:
                    self.problems.append("exception class %s: unknown base %s" % (en, ast.unparse(b)))
            self.exc_bases[en] = bs

    def mro(self, cn: str) -> typing.List[str]:
        out = [cn]
        seen = {cn}
        cur = cn
        while cur in self.classes and self.classes[cur].bases:
            cur = self.classes[cur].bases[0]
            if cur in seen:
                break
            seen.add(cur)
            out.append(cur)
        return out

    def exc_mro(self, en: str) -> typing.List[str]:
        out, todo = [], [en]
        while todo:
            x = todo.pop(0)
            if x not in out:
                out.append(x)
                todo += self.exc_bases.get(x, [])
        return out

    def subclasses(self, cn: str) -> typing.List[str]:
        return [c for c in self.classes if c != cn and cn in self.mro(c)]

    def find_method(self, cn: str, m: str, after: typing.Optional[str] = None) -> typing.Optional[str]:
        """the class of the MRO of `cn` that defines `m` (searching behind `after` for super())"""
        chain = self.mro(cn)
        if after is not None:
            chain = chain[chain.index(after) + 1:]
        for c in chain:
            if c in self.classes and m in self.classes[c].methods:
                return c
        return None

    def is_abstract(self, cn: str) -> bool:
        ab: typing.Set[str] = set()
        for c in reversed(self.mro(cn)):
            ci = self.classes.get(c)
            if ci is None:
                continue
            ab -= set(ci.methods) - ci.abstract
            ab |= ci.abstract
        return bool(ab)

    # ------------------------------------------------------------------ name resolution
    def resolve(self, mod: Mod, n: ast.AST) -> typing.Tuple[str, ...]:
        """('class', C) | ('exc', X) | ('func', module, f) | ('builtin', name) | ('stdlib', dotted) | ('const', lean) | ('none',)"""
        if isinstance(n, ast.Name):
            i = n.id
            if i in mod.classes:
                if i in USER_CLASSES:
                    return ("class", i)
                if i in USER_EXC and mod.name == "_any":
                    return ("exc", i)
                return ("none",)
            if i in mod.funcs:
                return ("func", mod.name, i)
            al = mod.alias.get(i)
            if al and al[0] == "from":
                other = self.mods.get(al[1])
                if other is not None:
                    return self.resolve(other, ast.Name(id=al[2], ctx=ast.Load()))
            if al and al[0] == "stdlib":
                return ("stdlib", al[1])
            if al and al[0] == "module":
                return ("module", al[1])
            if i in BUILTIN_CLS:
                return ("class", BUILTIN_CLS[i])
            if i in BUILTIN_EXC:
                return ("exc", i)
            if i in BUILTIN_FUNCS1 or i in ("isinstance", "issubclass", "map", "getattr", "hasattr", "super", "next", "any", "all"):
                return ("builtin", i)
            if i == "NotImplemented":
                return ("const", "Py.Obj.notImplemented")
            return ("none",)
        if isinstance(n, ast.Attribute):
            base = self.resolve(mod, n.value) if isinstance(n.value, (ast.Name, ast.Attribute)) else ("none",)
            if base[0] == "module":
                other = self.mods.get(base[1])
                if other is not None:
                    return self.resolve(other, ast.Name(id=n.attr, ctx=ast.Load()))
                if base[1] == "_error" and n.attr in EXTERNAL_EXC:
                    return ("exc", n.attr)
                return ("none",)
            if base[0] == "stdlib":
                dotted = base[1] + "." + n.attr
                if dotted == "fractions.Fraction":
                    return ("class", "Fraction")
                return ("stdlib", dotted)
            if base[0] == "class" and base[1] in self.classes and n.attr in self.classes[base[1]].nested:
                return ("nested", base[1], n.attr)
            if base[0] == "nested":
                return ("nestedfn", base[1], base[2], n.attr)
            return ("none",)
        return ("none",)

    # ------------------------------------------------------------------ demand-driven emission
    def need(self, key: str) -> str:
        """make sure the definition `key` is emitted; returns its Lean name"""
        name = self.lean_name(key)
        if key in self.emitted:
            return name
        if key in self.in_progress:
            raise Untranslatable("definition cycle: %s" % " -> ".join(self.in_progress[self.in_progress.index(key):] + [key]))
        self.in_progress.append(key)
        try:
            try:
                lines = self.build(key)
            except Untranslatable as ex:
                self.problems.append("%s: %s" % (key, ex))
                lines = self.stub(key, str(ex))
        finally:
            self.in_progress.pop()
        self.emitted[key] = lines
        self.order.append(key)
        return name

    def lean_name(self, key: str) -> str:
        kind, _, rest = key.partition(":")
        if kind == "fn":
            return P + rest.split(".", 1)[1]
        if kind == "fnw":
            return P + rest.split(".", 1)[1] + ".__wrapped__"
        if kind == "meth":
            return P + rest
        if kind == "methw":
            return P + rest + ".__wrapped__"
        if kind == "disp":
            return P + "dispatch." + rest
        if kind == "new":
            return P + rest + ".__new__"
        raise AssertionError(key)

    def params_of(self, fn: ast.FunctionDef) -> typing.List[typing.Tuple[str, typing.Optional[int]]]:
        a = fn.args
        if a.vararg or a.kwarg or a.kwonlyargs or a.posonlyargs:
            raise Untranslatable("parameter kinds of %s" % fn.name)
        out = []
        for p in a.args:
            ar = None
            for n in ast.walk(fn):
                if isinstance(n, ast.Call) and isinstance(n.func, ast.Name) and n.func.id == p.arg:
                    ar = len(n.args)
            out.append((p.arg, ar))
        return out

    def sig_text(self, params: typing.List[typing.Tuple[str, typing.Optional[int]]]) -> str:
        parts = ["(env : Py.Env)"]
        for n, ar in params:
            if ar is None:
                parts.append("(%s : Py.Obj)" % lname(n))
            else:
                parts.append("(%s : %sPy.E Py.Obj)" % (lname(n), "Py.Obj → " * ar))
        return " ".join(parts)

    def fn_source(self, key: str) -> typing.Tuple[Mod, typing.Optional[str], ast.FunctionDef]:
        kind, _, rest = key.partition(":")
        if kind in ("fn", "fnw"):
            m, f = rest.split(".", 1)
            fn = self.mods[m].funcs.get(f)
            if fn is None:
                raise Untranslatable("function not found")
            return self.mods[m], None, fn
        c, f = rest.split(".", 1)
        ci = self.classes.get(c)
        if ci is None or f not in ci.methods:
            raise Untranslatable("method not found")
        return ci.mod, c, ci.methods[f]

    def user_decorators(self, mod: Mod, fn: ast.FunctionDef) -> typing.List[ast.expr]:
        out = []
        for d in fn.decorator_list:
            dn = ast.unparse(d)
            if dn in ("property", "abc.abstractmethod", "abstractmethod", "staticmethod"):
                continue
            out.append(d)
        return out

    def build(self, key: str) -> typing.List[str]:
        kind, _, rest = key.partition(":")
        if kind == "disp":
            return self.build_dispatcher(rest)
        if kind == "new":
            return self.build_new(rest)
        mod, cls, fn = self.fn_source(key)
        decs = self.user_decorators(mod, fn)
        if kind in ("fnw", "methw") or not decs:
            params = self.params_of(fn)
            self.sigs[key] = params
            tr = FnTr(self, mod, cls, fn)
            for n, ar in params:
                tr.vars[n] = ("obj", lname(n)) if ar is None else ("fn", lname(n), ar)
            fall = "pure %s" % lname(params[0][0]) if fn.name == "__init__" else "pure Py.Obj.none"
            body = tr.tail(fn.body, "  ", fall, True)
            head = "def %s %s : Py.E Py.Obj := do" % (self.lean_name(key), self.sig_text(params))
            return ["/- %s  %s -/" % (rest, mod.span(fn)), head] + body
        if len(decs) != 1:
            raise Untranslatable("several decorators")
        return self.build_decorated(key, mod, cls, fn, decs[0])

    def build_decorated(self, key: str, mod: Mod, cls: typing.Optional[str], fn: ast.FunctionDef, dec: ast.expr) -> typing.List[str]:
        """apply a decorator that is defined in the translated sources: specialise its wrapper closure for `fn`"""
        wkey = ("fnw:" if key.startswith("fn:") else "methw:") + key.split(":", 1)[1]
        wname = self.need(wkey)
        target_params = self.sigs.get(wkey)
        if target_params is None:
            raise Untranslatable("the decorated function could not be translated")
        static: typing.Dict[str, typing.Any] = {}
        dmod = mod
        if isinstance(dec, ast.Call):   # decorator factory: f(args) returns the decorator
            r = self.resolve(mod, dec.func)
            if r[0] != "func":
                raise Untranslatable("decorator %s" % ast.unparse(dec))
            dmod = self.mods[r[1]]
            factory = dmod.funcs[r[2]]
            fparams = factory.args.args
            defaults = [None] * (len(fparams) - len(factory.args.defaults)) + list(factory.args.defaults)
            if dec.keywords or len(dec.args) > len(fparams):
                raise Untranslatable("decorator arguments %s" % ast.unparse(dec))
            for i, p in enumerate(fparams):
                if i < len(dec.args):
                    v = dec.args[i]
                elif defaults[i] is not None:
                    v = defaults[i]
                else:
                    raise Untranslatable("decorator argument %s missing" % p.arg)
                if not isinstance(v, ast.Constant):
                    raise Untranslatable("non-constant decorator argument %s" % ast.unparse(v))
                static[p.arg] = v.value
            inner = [s for s in factory.body if not (isinstance(s, ast.Expr) and isinstance(s.value, ast.Constant))]
            if not (len(inner) == 2 and isinstance(inner[0], ast.FunctionDef) and isinstance(inner[1], ast.Return)
                    and isinstance(inner[1].value, ast.Name) and inner[1].value.id == inner[0].name):
                raise Untranslatable("shape of the decorator factory %s" % factory.name)
            decorator = inner[0]
            origin = "%s.%s" % (factory.name, decorator.name)
        else:
            r = self.resolve(mod, dec)
            if (cls is not None and isinstance(dec, ast.Attribute) and isinstance(dec.value, ast.Name)
                    and dec.value.id in self.classes[cls].nested):
                r = ("nestedfn", cls, dec.value.id, dec.attr)   # a name of the class body
            if r[0] == "nestedfn":
                nested = self.classes[r[1]].nested[r[2]]
                cand = [s for s in nested.body if isinstance(s, ast.FunctionDef) and s.name == r[3]]
                if not cand:
                    raise Untranslatable("decorator %s not found" % ast.unparse(dec))
                decorator = cand[0]
                dmod = self.classes[r[1]].mod
                origin = "%s.%s.%s" % (r[1], r[2], r[3])
            elif r[0] == "func":
                dmod = self.mods[r[1]]
                decorator = dmod.funcs[r[2]]
                origin = r[2]
            else:
                raise Untranslatable("decorator %s" % ast.unparse(dec))
        if len(decorator.args.args) != 1:
            raise Untranslatable("decorator %s must take the function only" % origin)
        fparam = decorator.args.args[0].arg
        body = [s for s in decorator.body if not (isinstance(s, ast.Expr) and isinstance(s.value, ast.Constant))]
        if not (len(body) >= 2 and isinstance(body[-1], ast.Return) and isinstance(body[-1].value, ast.Name)
                and isinstance(body[-2], ast.FunctionDef) and body[-2].name == body[-1].value.id):
            raise Untranslatable("shape of the decorator %s" % origin)
        wrapper: ast.FunctionDef = body[-2]
        # the wrapper closure, translated once: its free variables become parameters (the decorated function, and one
        # function per `getattr(x, <name the decorator computes>)`)
        gkey = "wrap:%s.%s.%s" % (dmod.name, origin, wrapper.name)
        gname = P + "%s.%s" % (origin, wrapper.name)
        if gkey not in self.emitted:
            self.build_wrapper(gkey, gname, dmod, cls if dmod is mod else None, wrapper, fparam, origin, decorator)
        ginfo = self.wrappers[gkey]
        if ginfo is None:
            raise Untranslatable("the wrapper of %s could not be translated" % origin)
        fnames = {fparam: fn.name}
        self.static_prelude(dmod, body[:-2], static, fnames)
        params = ginfo["params"]
        if len(params) != len(target_params) or len(target_params) != ginfo["farity"]:
            raise Untranslatable("wrapper and wrapped function differ in arity")
        self.sigs[key] = params
        extra = []
        for text, node, ar in ginfo["getattrs"]:
            name = self.static_eval(dmod, node, static, fnames)
            if not isinstance(name, str):
                raise Untranslatable("getattr name %s" % text)
            dk = "disp:" + name
            if name not in self.all_method_names():
                raise Untranslatable("no class has a method %s" % name)
            dn = self.need(dk)
            if len(self.sigs[dk]) != ar or any(p[1] is not None for p in self.sigs[dk]):
                raise Untranslatable("arity of %s" % name)
            extra.append("(%s env)" % dn)
        st = ", ".join("%s = %r" % kv for kv in sorted(static.items()))
        head = "def %s %s : Py.E Py.Obj :=" % (self.lean_name(key), self.sig_text(params))
        return ["/- %s = %s(%s)%s -/" % (key.split(":", 1)[1], origin, fn.name, (" with " + st) if st else ""), head,
                "  %s env (%s env) %s %s" % (gname, wname, " ".join(extra), " ".join(lname(p[0]) for p in params))]

    def build_wrapper(self, gkey: str, gname: str, dmod: Mod, cls: typing.Optional[str], wrapper: ast.FunctionDef, fparam: str, origin: str,
                      decorator: ast.FunctionDef) -> None:
        try:
            for d in wrapper.decorator_list:
                if not ast.unparse(d).startswith("functools.wraps("):
                    raise Untranslatable("decorator %s on the wrapper" % ast.unparse(d))
            params = self.params_of(wrapper)
            if any(p[1] is not None for p in params):
                raise Untranslatable("higher-order wrapper")
            farity = None
            for n in ast.walk(wrapper):
                if isinstance(n, ast.Call) and isinstance(n.func, ast.Name) and n.func.id == fparam:
                    farity = len(n.args)
            if farity is None:
                raise Untranslatable("the wrapper does not call the wrapped function")
            tr = FnTr(self, dmod, cls, wrapper)
            tr.getattrs = []
            tr.vars[fparam] = ("fn", lname(fparam), farity)
            for n, ar in params:
                tr.vars[n] = ("obj", lname(n))
            lines = tr.tail(wrapper.body, "  ", "pure Py.Obj.none", True)
            sig = [(fparam, farity)] + [("getattr_%d" % i, ar) for i, (_, _, ar) in enumerate(tr.getattrs)] + params
            head = "def %s %s : Py.E Py.Obj := do" % (gname, self.sig_text(sig))
            doc = "".join("; getattr_%d = getattr(·, %s)" % (i, t) for i, (t, _, _) in enumerate(tr.getattrs))
            self.emitted[gkey] = ["/- %s.%s: the closure, its free variables as parameters%s  %s -/" % (origin, wrapper.name, doc, dmod.span(decorator)), head] + lines
            self.wrappers[gkey] = {"params": params, "farity": farity, "getattrs": tr.getattrs}
        except Untranslatable as ex:
            self.problems.append("%s: %s" % (gkey, ex))
            self.emitted[gkey] = []
            self.wrappers[gkey] = None
        self.order.append(gkey)

    def static_prelude(self, mod: Mod, stmts: typing.List[ast.stmt], static: typing.Dict[str, typing.Any], fnames: typing.Dict[str, str]) -> None:
        """the statements of a decorator in front of its wrapper: evaluated at translation time"""
        for s in stmts:
            if isinstance(s, ast.Assign) and len(s.targets) == 1 and isinstance(s.targets[0], ast.Name):
                static[s.targets[0].id] = self.static_eval(mod, s.value, static, fnames)
            elif isinstance(s, ast.If):
                c = self.static_eval(mod, s.test, static, fnames)
                self.static_prelude(mod, s.body if c else s.orelse, static, fnames)
            elif isinstance(s, ast.Raise):
                raise Untranslatable("the decorator raises at decoration time: %s" % ast.unparse(s))
            elif isinstance(s, ast.Pass):
                pass
            else:
                raise Untranslatable("statement in a decorator: %s" % ast.unparse(s).splitlines()[0])

    def static_eval(self, mod: Mod, n: ast.AST, static: typing.Dict[str, typing.Any], fnames: typing.Dict[str, str]) -> typing.Any:
        if isinstance(n, ast.Constant) and isinstance(n.value, (str, bool, int, type(None))):
            return n.value
        if isinstance(n, ast.Name) and n.id in static:
            return static[n.id]
        if isinstance(n, ast.Attribute) and n.attr == "__name__" and isinstance(n.value, ast.Name) and n.value.id in fnames:
            return fnames[n.value.id]
        if isinstance(n, ast.BinOp) and isinstance(n.op, (ast.Add, ast.Mod)):
            a, b = self.static_eval(mod, n.left, static, fnames), self.static_eval(mod, n.right, static, fnames)
            if isinstance(a, str) and isinstance(b, (str, tuple)):
                return a + b if isinstance(n.op, ast.Add) else a % b
        if isinstance(n, ast.Tuple):
            return tuple(self.static_eval(mod, e, static, fnames) for e in n.elts)
        if isinstance(n, ast.UnaryOp) and isinstance(n.op, ast.Not):
            return not self.static_eval(mod, n.operand, static, fnames)
        if isinstance(n, ast.BoolOp):
            v = None
            for x in n.values:
                v = self.static_eval(mod, x, static, fnames)
                if bool(v) == isinstance(n.op, ast.Or):
                    return v
            return v
        if isinstance(n, ast.IfExp):
            c = self.static_eval(mod, n.test, static, fnames)
            return self.static_eval(mod, n.body if c else n.orelse, static, fnames)
        if isinstance(n, ast.Call) and isinstance(n.func, ast.Name) and n.func.id == "hasattr" and len(n.args) == 2:
            r = self.resolve(mod, n.args[0])
            name = self.static_eval(mod, n.args[1], static, fnames)
            if r[0] == "class" and r[1] in self.classes and isinstance(name, str):
                return any(name in self.classes[c].methods or name in self.classes[c].class_attrs
                           for c in self.mro(r[1]) if c in self.classes)
        raise Untranslatable("not a translation-time constant: %s" % ast.unparse(n))

    def all_method_names(self) -> typing.Set[str]:
        out: typing.Set[str] = set()
        for ci in self.classes.values():
            out |= set(ci.methods)
        return out

    def build_dispatcher(self, m: str) -> typing.List[str]:
        impls: typing.Dict[str, str] = {}
        params = None
        is_prop = None
        for cn in USER_CLASSES:
            if cn not in self.classes or self.is_abstract(cn):
                continue
            owner = self.find_method(cn, m)
            if owner is None:
                continue
            if m in self.classes[owner].static:
                raise Untranslatable("static method %s.%s" % (owner, m))
            key = "meth:%s.%s" % (owner, m)
            impls[cn] = self.need(key)
            p = self.sigs.get(key)
            if p is None:
                p = self.params_of(self.classes[owner].methods[m])
                self.sigs[key] = p
            prop = m in self.classes[owner].props
            if params is None:
                params, is_prop = p, prop
            elif [x[1] for x in p] != [x[1] for x in params] or prop != is_prop:
                raise Untranslatable("implementations of %s differ in signature" % m)
        if params is None:
            if m == "__bool__":
                params = [("self", None)]
            else:
                raise Untranslatable("no class implements %s" % m)
        self.sigs["disp:" + m] = params
        args = " ".join(lname(p[0]) for p in params)
        lines = ["/- `x.%s%s`: the implementation the class of `x` inherits -/" % (m, "" if is_prop else "(…)"),
                 "def %s %s : Py.E Py.Obj :=" % (self.lean_name("disp:" + m), self.sig_text(params)),
                 "  match Py.classOf %s with" % lname(params[0][0])]
        for cn in USER_CLASSES:
            if cn in impls:
                lines.append("  | .%s => %s env %s" % (cn, impls[cn], args))
            elif cn in self.classes and not self.is_abstract(cn) and m == "__bool__":
                for c in self.mro(cn):
                    if c in self.classes and "__len__" in self.classes[c].methods:
                        raise Untranslatable("__len__ of %s decides its truth value" % c)
                lines.append("  | .%s => pure (Py.Obj.bool true)" % cn)
        lines.append("  | _ => throw %s" % (".TypeError" if m.startswith("__") else ".AttributeError"))
        return lines

    def build_new(self, cn: str) -> typing.List[str]:
        if cn not in self.classes:
            raise Untranslatable("class not found")
        if self.is_abstract(cn):
            raise Untranslatable("abstract class")
        for c in self.mro(cn):
            if c in self.classes and "__new__" in self.classes[c].methods:
                raise Untranslatable("%s.__new__" % c)
        owner = self.find_method(cn, "__init__")
        if owner is None:
            self.sigs["new:" + cn] = []
            return ["def %s (env : Py.Env) : Py.E Py.Obj :=" % self.lean_name("new:" + cn), "  pure (Py.Obj.inst .%s [])" % cn]
        key = "meth:%s.__init__" % owner
        init = self.need(key)
        params = self.sigs.get(key) or self.params_of(self.classes[owner].methods["__init__"])
        rest = params[1:]
        self.sigs["new:" + cn] = rest
        return ["/- `%s(…)`: `%s.__init__` on a fresh instance -/" % (cn, owner),
                "def %s %s : Py.E Py.Obj :=" % (self.lean_name("new:" + cn), self.sig_text(rest)),
                "  %s env (Py.Obj.inst .%s []) %s" % (init, cn, " ".join(lname(p[0]) for p in rest))]

    def stub(self, key: str, why: str) -> typing.List[str]:
        params = self.sigs.get(key)
        if params is None:
            kind, _, rest = key.partition(":")
            if kind in ("fn", "fnw", "meth", "methw"):
                try:
                    _, _, fn = self.fn_source(key)
                    params = self.params_of(fn)
                except Untranslatable:
                    params = None
            if params is None:
                if kind in ("fn", "fnw"):
                    k = ROOT_FUNCS.get(rest.split(".", 1)[-1], 2)
                elif kind == "new":
                    k = 1
                elif kind == "disp":
                    k = {"__eq__": 2, "__hash__": 1, "__bool__": 1, "__iter__": 1}.get(rest, 2)
                else:
                    k = 2
                params = [("a%d" % i, None) for i in range(k)]
            self.sigs[key] = params
        sig = self.sig_text([("_" + p[0], p[1]) for p in params]).replace("(env : Py.Env)", "(_env : Py.Env)")
        return ["def %s %s : Py.E Py.Obj :=" % (self.lean_name(key), sig),
                "  throw (.unmodelled %s)" % lean_str("untranslatable: " + why)]

    # ------------------------------------------------------------------ the parser's operator table
    def operator_table(self, repo: Path) -> typing.List[str]:
        """`visit_<rule>` of `_ParseTreeProcessor` (_parser.py) binds a function of `_expression` to the grammar rule
        `<rule> = "<token>"` (grammar.parsimonious); `_expression/__init__.py` re-exports it from `_operator.py`"""
        import re
        lines = ["/-- the function of `_operator.py` that `_parser.py` binds to the token of a binary (`op2_…`) / unary (`op1_form_…`)",
                 "    operator rule of grammar.parsimonious -/"]
        binary: typing.List[typing.Tuple[str, str]] = []
        unary: typing.List[typing.Tuple[str, str]] = []
        try:
            ptree = ast.parse((repo / "pydsdl" / "_parser.py").read_text())
            grammar = (repo / "pydsdl" / "grammar.parsimonious").read_text()
            init = ast.parse((repo / PKG / "__init__.py").read_text())
        except (OSError, SyntaxError, ValueError) as ex:
            self.problems.append("operator table: cannot read _parser.py / grammar.parsimonious / _expression/__init__.py: %s" % ex)
            ptree, grammar, init = ast.Module(body=[], type_ignores=[]), "", ast.Module(body=[], type_ignores=[])
        exported: typing.Dict[str, str] = {}
        for n in init.body:
            if isinstance(n, ast.ImportFrom) and n.level == 1 and n.module == "_operator":
                for a in n.names:
                    exported[a.asname or a.name] = a.name
        factories: typing.Dict[str, str] = {}
        for n in ptree.body:
            if isinstance(n, ast.FunctionDef) and len(n.args.args) == 1:
                p0 = n.args.args[0].arg
                body = [x for x in n.body if not (isinstance(x, ast.Expr) and isinstance(x.value, ast.Constant))]
                if (len(body) == 1 and isinstance(body[0], ast.Return) and isinstance(body[0].value, ast.Lambda)
                        and isinstance(body[0].value.body, ast.Name) and body[0].value.body.id == p0):
                    factories[n.name] = "binary"     # the visitor yields the operator itself, the chain visitor applies it
                elif (len(body) == 2 and isinstance(body[0], ast.FunctionDef) and isinstance(body[1], ast.Return)
                        and isinstance(body[1].value, ast.Name) and body[1].value.id == body[0].name):
                    rets = [x for x in ast.walk(body[0]) if isinstance(x, ast.Return)]
                    if (len(rets) == 1 and isinstance(rets[0].value, ast.Call) and isinstance(rets[0].value.func, ast.Name)
                            and rets[0].value.func.id == p0 and len(rets[0].value.args) == 1):
                        factories[n.name] = "unary"  # the visitor applies the operator to the operand

        def expr_fn(e: ast.AST) -> typing.Optional[str]:
            if isinstance(e, ast.Attribute) and isinstance(e.value, ast.Name) and e.value.id == "_expression":
                return exported.get(e.attr)
            return None

        def token(rule: str) -> typing.Optional[str]:
            m = re.search(r'^%s\s*=\s*"([^"]+)"' % re.escape(rule), grammar, flags=re.M)
            return m.group(1) if m else None

        for cls in [n for n in ptree.body if isinstance(n, ast.ClassDef)]:
            for st in cls.body:
                rule, kind, fn = None, None, None
                if (isinstance(st, ast.Assign) and len(st.targets) == 1 and isinstance(st.targets[0], ast.Name)
                        and st.targets[0].id.startswith("visit_op") and isinstance(st.value, ast.Call)
                        and isinstance(st.value.func, ast.Name) and st.value.func.id in factories and len(st.value.args) == 1):
                    rule, kind, fn = st.targets[0].id[6:], factories[st.value.func.id], expr_fn(st.value.args[0])
                elif isinstance(st, ast.FunctionDef) and st.name.startswith("visit_op1_form_"):
                    rets = [x for x in ast.walk(st) if isinstance(x, ast.Return)]
                    if len(rets) == 1 and isinstance(rets[0].value, ast.Call) and len(rets[0].value.args) == 1:
                        rule, kind, fn = st.name[6:], "unary", expr_fn(rets[0].value.func)
                if rule is None:
                    continue
                tok = token(rule)
                if fn is None or tok is None:
                    self.problems.append("operator table: rule %s: function or token not recognised" % rule)
                    continue
                (binary if kind == "binary" else unary).append((tok, fn))
        for kind, table, ar in (("binary", binary, 2), ("unary", unary, 1)):
            if len({t for t, _ in table}) != len(table):
                self.problems.append("operator table: a %s token is bound twice" % kind)
            lines.append("def %s%sOperator (env : Py.Env) (token : String) : Option (%sPy.E Py.Obj) :=" % (P, kind, "Py.Obj → " * ar))
            first = True
            for tok, fn in table:
                key = "fn:_operator." + fn
                if key not in self.emitted or len(self.sigs.get(key, [])) != ar:
                    self.problems.append("operator table: %s is not a translated function of %d values" % (fn, ar))
                    continue
                lines.append("  %s token = %s then some (%s env)" % ("if" if first else "else if", lean_str(tok), self.lean_name(key)))
                first = False
            lines.append("  %snone" % ("" if first else "else "))
            lines.append("")
        return lines

    # ------------------------------------------------------------------ the module
    def run(self) -> str:
        op = self.mods["_operator"]
        for f in ROOT_FUNCS:
            self.need("fn:_operator." + f)
        for f in op.funcs:   # further module-level functions of _operator.py that take two values
            if f not in ROOT_FUNCS and not f.startswith("_"):
                self.need("fn:_operator." + f)
        for c in CONCRETE:
            self.need("new:" + c)
        for p in PROTOCOLS:
            self.need("disp:" + p)
        for g in sorted(self.globs):
            m, f = g.split(".", 1)
            self.need("fn:%s.%s" % (m, f))
        out = ["import PyLib.Expr",
               "/-! GENERATED by tools/py2lean_expr.py from %s/{%s}.py -- do not edit. -/" % (PKG, ",".join(MODULES)),
               "set_option linter.unusedVariables false", "set_option maxRecDepth 4000", ""]
        out += ["/-- the linearised bases of a class, itself included (user classes: read from the `class` statements) -/",
                "def %smro : Py.Cls → List Py.Cls" % P]
        for cn in USER_CLASSES:
            out.append("  | .%s => [%s]" % (cn, ", ".join("." + c for c in self.mro(cn) + ["object"])))
        for cn, chain in BUILTIN_MRO.items():
            out.append("  | .%s => [%s]" % (cn, ", ".join("." + c for c in chain)))
        out += ["", "/-- the classes an exception is an instance of -/", "def %sexcMro : Py.Exc → List Py.Exc" % P]
        for en in USER_EXC:
            out.append("  | .%s => [%s]" % (en, ", ".join("." + c for c in self.exc_mro(en))))
        out += ["  | e => [e]", "",
                "/-- `except (C1, C2, …)` -/",
                "def %sexcMatch (e : Py.Exc) (cs : List Py.Exc) : Bool := cs.any fun c => (%sexcMro e).contains c" % (P, P), ""]
        for key in self.order:
            out += self.emitted[key] + [""]
        binfuncs = []
        for key in self.order:
            if key.startswith("fn:"):
                ps = self.sigs.get(key) or []
                if len(ps) == 2 and all(p[1] is None for p in ps):
                    binfuncs.append(key[3:])
        for g in sorted(self.globs):
            if g not in binfuncs:
                self.problems.append("late-bound global %s: not a translated function of two values" % g)
        out += ["/-- the late-bound environment: user protocols and the functions that other modules reach through the module object;",
                "    `n` bounds the depth of the calls that go through it (`RecursionError` beyond) -/",
                "def %senv (nfc : List Nat → List Nat) : Nat → Py.Env" % P,
                "  | 0 => { nfc := nfc, ueq := fun _ _ => throw .RecursionError, uhash := fun _ => throw .RecursionError,",
                "           ubool := fun _ => throw .RecursionError, uiter := fun _ => throw .RecursionError,",
                "           glob := fun _ _ _ => throw .RecursionError }",
                "  | n + 1 =>",
                "    { nfc := nfc,",
                "      ueq := %s (%senv nfc n)," % (self.lean_name("disp:__eq__"), P),
                "      uhash := %s (%senv nfc n)," % (self.lean_name("disp:__hash__"), P),
                "      ubool := %s (%senv nfc n)," % (self.lean_name("disp:__bool__"), P),
                "      uiter := %s (%senv nfc n)," % (self.lean_name("disp:__iter__"), P),
                "      glob := fun name =>"]
        for i, g in enumerate(binfuncs):
            out.append("        %s name = %s then %s (%senv nfc n)" % ("if" if i == 0 else "else if", lean_str(g), self.lean_name("fn:" + g), P))
        out.append("        %sfun _ _ => throw .NameError }" % ("else " if binfuncs else ""))
        out.append("")
        out += self.operator_table(self.repo)
        return "\n".join(out) + "\n"


class FnTr:
    """one function body"""

    def __init__(self, gen: Gen, mod: Mod, cls: typing.Optional[str], fn: ast.FunctionDef):
        self.g, self.mod, self.cls, self.fn = gen, mod, cls, fn
        self.vars: typing.Dict[str, typing.Tuple] = {}
        self.static: typing.Dict[str, typing.Any] = {}
        self.counter = [0]
        self.exc_var: typing.Optional[str] = None
        self.getattrs: typing.Optional[typing.List[typing.Tuple[str, ast.AST, int]]] = None
        self.no_next = False   # inside a block whose rebinding of an iterator variable would be lost
        # locals bound to a list object created in this function that has not been read since (so nothing else refers to it):
        # `name.append(v)` on such a list is the rebinding `name = name + [v]`
        self.fresh_lists: typing.Set[str] = set()

    def fork(self, inner: bool = False) -> "FnTr":
        t = FnTr(self.g, self.mod, self.cls, self.fn)
        t.vars = dict(self.vars)
        t.static = self.static
        t.counter = self.counter
        t.exc_var = self.exc_var
        t.getattrs = self.getattrs
        t.no_next = self.no_next or inner
        t.fresh_lists = self.fresh_lists
        return t

    def fresh(self, p: str = "t") -> str:
        self.counter[0] += 1
        return "%s_%d" % (p, self.counter[0])

    def let(self, out: typing.List[str], ind: str, rhs: str, p: str = "t") -> str:
        v = self.fresh(p)
        out.append("%slet %s ← %s" % (ind, v, rhs))
        return v

    # ------------------------------------------------------------------ statements
    def tail(self, stmts: typing.List[ast.stmt], ind: str, fall: str, allow_return: bool) -> typing.List[str]:
        """the statements in tail position; `fall`: what happens when control falls off the end"""
        out: typing.List[str] = []
        for i, s in enumerate(stmts):
            rest = stmts[i + 1:]
            if isinstance(s, ast.Expr) and isinstance(s.value, ast.Constant):
                continue
            if isinstance(s, (ast.Pass, ast.Delete)):
                continue
            if isinstance(s, ast.Return):
                if not allow_return:
                    raise Untranslatable("return inside a block that continues")
                if s.value is None:
                    out.append(ind + "pure Py.Obj.none")
                    return out
                if isinstance(s.value, ast.IfExp):
                    v = s.value
                    return out + self.tail([ast.If(test=v.test, body=[ast.Return(value=v.body)], orelse=[ast.Return(value=v.orelse)])],
                                           ind, fall, allow_return)
                a = self.expr(s.value, out, ind)
                out.append("%spure %s" % (ind, a))
                return out
            if isinstance(s, ast.Raise):
                out.append(ind + self.raise_(s))
                return out
            if isinstance(s, ast.If):
                c = self.cond(s.test, out, ind)
                bt, et = terminates(s.body), terminates(s.orelse)
                if bt or et:
                    out.append("%sif %s then" % (ind, c))
                    out += self.fork().tail(s.body + ([] if bt else rest), ind + "  ", fall, allow_return)
                    out.append("%selse" % ind)
                    out += self.fork().tail(s.orelse + ([] if et else rest), ind + "  ", fall, allow_return)
                    return out
                names = assigned_names(s.body + s.orelse)
                for nm in names:
                    if nm not in self.vars and not (nm in assigned_names(s.body) and nm in assigned_names(s.orelse)):
                        raise Untranslatable("%s may be unbound after the if" % nm)
                tup = self.tuple_of(names)
                out.append("%slet %s ← (if %s then (do" % (ind, tup, c))
                out += self.fork(True).tail(s.body, ind + "    ", "pure " + tup, False)
                out[-1] += ")"
                out.append("%s  else (do" % ind)
                out += self.fork(True).tail(s.orelse, ind + "    ", "pure " + tup, False)
                out[-1] += "))"
                for n in names:
                    self.vars[n] = ("obj", lname(n))
                continue
            if isinstance(s, ast.Try):
                self.try_(s, out, ind)
                if s.orelse:
                    return out + self.tail(s.orelse + rest, ind, fall, allow_return)
                continue
            if isinstance(s, ast.FunctionDef):
                self.local_def(s, out, ind)
                continue
            if isinstance(s, ast.For):
                self.for_(s, out, ind)
                continue
            self.simple(s, out, ind)
        out.append(ind + fall)
        return out

    def for_(self, s: ast.For, out: typing.List[str], ind: str) -> None:
        """`for x in it: body`: the names the body rebinds are the loop-carried state"""
        if s.orelse or not isinstance(s.target, ast.Name):
            raise Untranslatable("for loop shape")
        for n in ast.walk(ast.Module(body=s.body, type_ignores=[])):
            if isinstance(n, (ast.Return, ast.Break, ast.Continue)):
                raise Untranslatable("return / break / continue inside a for loop")
        it = self.expr(s.iter, out, ind)
        names = [n for n in assigned_names(s.body) if n in self.vars and n != s.target.id]
        for n in assigned_names(s.body):
            if n not in self.vars and n != s.target.id:
                pass   # local to one iteration
        state = "()" if not names else self.tuple_of(names)
        sub = self.fork(True)
        sub.vars[s.target.id] = ("obj", lname(s.target.id))
        body = sub.tail(s.body, ind + "    ", "pure " + state, False)
        out.append("%slet %s ← Py.forIn env %s %s (fun %s %s => do" % (ind, state, it, state, state, lname(s.target.id)))
        out += body
        out[-1] += ")"

    def tuple_of(self, names: typing.List[str]) -> str:
        if not names:
            raise Untranslatable("an `if` without effect on local names")
        for n in names:
            pass
        return lname(names[0]) if len(names) == 1 else "(" + ", ".join(lname(n) for n in names) + ")"

    def simple(self, s: ast.stmt, out: typing.List[str], ind: str) -> None:
        if isinstance(s, (ast.Assign, ast.AnnAssign)):
            targets = s.targets if isinstance(s, ast.Assign) else [s.target]
            if s.value is None:
                return
            if len(targets) != 1:
                raise Untranslatable("multiple assignment")
            t = targets[0]
            a = self.expr(s.value, out, ind)
            if isinstance(t, ast.Name):
                out.append("%slet %s := %s" % (ind, lname(t.id), a))
                self.vars[t.id] = ("obj", lname(t.id))
                if isinstance(s.value, (ast.List, ast.ListComp)) or (
                        isinstance(s.value, ast.Call) and isinstance(s.value.func, ast.Name) and s.value.func.id == "list"
                        and s.value.func.id not in self.vars):
                    self.fresh_lists.add(t.id)
                else:
                    self.fresh_lists.discard(t.id)
                return
            if isinstance(t, (ast.Tuple, ast.List)):
                # `a, b, *c, d = x`
                stars = [i for i, e in enumerate(t.elts) if isinstance(e, ast.Starred)]
                names = [e.value if isinstance(e, ast.Starred) else e for e in t.elts]
                if len(stars) > 1 or not all(isinstance(e, ast.Name) for e in names) or len({e.id for e in names}) != len(names):
                    raise Untranslatable("assignment target %s" % ast.unparse(t))
                before = stars[0] if stars else len(names)
                after = len(names) - before - 1 if stars else 0
                u = self.let(out, ind, "Py.unpack env %s %d %s %d" % (a, before, "true" if stars else "false", after))
                for i, e in enumerate(names):
                    out.append("%slet %s := Py.nth %s %d" % (ind, lname(e.id), u, i))
                    self.vars[e.id] = ("obj", lname(e.id))
                return
            if isinstance(t, ast.Attribute) and isinstance(t.value, ast.Name) and self.vars.get(t.value.id, ("",))[0] == "obj":
                o = lname(t.value.id)
                out.append("%slet %s ← Py.setattr env %s %s %s" % (ind, o, o, lean_str(t.attr), a))
                return
            raise Untranslatable("assignment target %s" % ast.unparse(t))
        if isinstance(s, ast.Assert):
            c = self.cond(s.test, out, ind)
            out.append("%sPy.assert_ %s" % (ind, c))
            return
        if (isinstance(s, ast.Expr) and isinstance(s.value, ast.Call) and isinstance(s.value.func, ast.Attribute)
                and s.value.func.attr == "append" and isinstance(s.value.func.value, ast.Name)
                and self.vars.get(s.value.func.value.id, ("",))[0] == "obj" and "append" not in self.g.all_method_names()):
            name = s.value.func.value.id
            if name not in self.fresh_lists:
                raise Untranslatable("%s.append(…) on a list that may be shared" % name)
            if s.value.keywords or len(s.value.args) != 1:
                raise Untranslatable("arguments of .append")
            a = self.expr(s.value.args[0], out, ind)
            if name not in self.fresh_lists:
                raise Untranslatable("%s.append(…) with an argument that reads the list" % name)
            v = lname(name)
            out.append("%slet %s ← Py.list_append env %s %s" % (ind, v, v, a))
            return
        if isinstance(s, ast.Expr):
            self.expr(s.value, out, ind)
            return
        raise Untranslatable("statement %s" % type(s).__name__)

    def local_def(self, s: ast.FunctionDef, out: typing.List[str], ind: str) -> None:
        if s.decorator_list:
            raise Untranslatable("decorated local function")
        params = self.g.params_of(s)
        if any(p[1] is not None for p in params):
            raise Untranslatable("higher-order local function")
        sub = self.fork(True)
        for p, _ in params:
            sub.vars[p] = ("obj", lname(p))
        body = sub.tail(s.body, ind + "    ", "pure Py.Obj.none", True)
        out.append("%slet %s : %sPy.E Py.Obj := fun %s => (do" % (ind, lname(s.name), "Py.Obj → " * len(params), " ".join(lname(p[0]) for p in params)))
        out += body
        out[-1] += ")"
        self.vars[s.name] = ("fn", lname(s.name), len(params))

    def exc_of(self, n: ast.AST) -> str:
        target = n.func if isinstance(n, ast.Call) else n   # constructor arguments (the message) are not evaluated
        r = self.g.resolve(self.mod, target)
        if r[0] != "exc":
            raise Untranslatable("exception %s" % ast.unparse(target))
        return r[1]

    def raise_(self, s: ast.Raise) -> str:
        if s.exc is None:
            if self.exc_var is None:
                raise Untranslatable("bare raise outside a handler")
            return "throw %s" % self.exc_var
        if s.cause is not None and not (isinstance(s.cause, ast.Constant) and s.cause.value is None):
            raise Untranslatable("raise … from %s" % ast.unparse(s.cause))
        return "throw .%s" % self.exc_of(s.exc)

    def try_(self, s: ast.Try, out: typing.List[str], ind: str) -> None:
        if s.finalbody:
            raise Untranslatable("try / finally")
        for n in ast.walk(ast.Module(body=s.body, type_ignores=[])):
            if isinstance(n, (ast.Return, ast.Raise)):
                raise Untranslatable("return / raise inside a try body")
        live = [h for h in s.handlers if not terminates(h.body)]
        if live and s.orelse:
            raise Untranslatable("try / except / else with a handler that continues")
        names = assigned_names(s.body + [x for h in live for x in h.body])
        tup = self.tuple_of(names) if names else "()"
        out.append("%slet %s ← Py.try_ (do" % (ind, tup))
        out += self.fork(True).tail(s.body, ind + "    ", "pure " + tup, False)
        out[-1] += ")"
        ev = self.fresh("e")
        out.append("%s  (fun %s => do" % (ind, ev))
        ind2 = ind + "    "
        for h in s.handlers:
            if h.type is None:
                raise Untranslatable("bare except")
            if h.name is not None:
                raise Untranslatable("except … as %s" % h.name)
            tys = h.type.elts if isinstance(h.type, ast.Tuple) else [h.type]
            cs = ", ".join("." + self.exc_of(t) for t in tys)
            out.append("%sif %sexcMatch %s [%s] then" % (ind2, P, ev, cs))
            sub = self.fork(True)
            sub.exc_var = ev
            out += sub.tail(h.body, ind2 + "  ", "pure " + tup, False)
            out.append("%selse" % ind2)
            ind2 += "  "
        out.append("%sthrow %s)" % (ind2, ev))
        for n in names:
            self.vars[n] = ("obj", lname(n))

    # ------------------------------------------------------------------ expressions
    def cond(self, n: ast.AST, out: typing.List[str], ind: str) -> str:
        a = self.expr(n, out, ind)
        return self.let(out, ind, "Py.truthy env %s" % a, "c")

    def sub_do(self, n: ast.AST, out: typing.List[str], ind: str) -> None:
        """`(do … pure v)` for an expression evaluated conditionally; appended to the last line of `out`"""
        body: typing.List[str] = []
        sub = self.fork(True)
        a = sub.expr(n, body, ind + "    ")
        if not body:
            out[-1] += "pure %s" % a
        else:
            out[-1] += "(do"
            out += body
            out.append("%s    pure %s)" % (ind, a))

    def expr(self, n: ast.AST, out: typing.List[str], ind: str) -> str:
        """emits the evaluation of `n` and returns an atom (a variable or a constructor term) for its value"""
        if isinstance(n, ast.Constant):
            v = n.value
            if isinstance(v, bool):
                return "(Py.Obj.bool %s)" % ("true" if v else "false")
            if isinstance(v, int):
                return "(Py.Obj.int (%d))" % v
            if isinstance(v, str):
                return str_obj(v)
            if v is None:
                return "Py.Obj.none"
            raise Untranslatable("constant %r" % (v,))
        if isinstance(n, ast.Name):
            if n.id in self.vars:
                k = self.vars[n.id]
                self.fresh_lists.discard(n.id)   # the list may be referred to from elsewhere from now on
                if k[0] == "obj":
                    return k[1]
                raise Untranslatable("function %s used as a value" % n.id)
            if n.id in self.static:
                v = self.static[n.id]
                if isinstance(v, str):
                    return str_obj(v)
                raise Untranslatable("static %s used as a value" % n.id)
            r = self.g.resolve(self.mod, n)
            if r[0] == "class":
                return "(Py.Obj.cls .%s)" % r[1]
            if r[0] == "const":
                return r[1]
            raise Untranslatable("name %s" % n.id)
        if isinstance(n, ast.Attribute):
            return self.attribute(n, out, ind)
        if isinstance(n, (ast.Tuple, ast.List)):
            if any(isinstance(e, ast.Starred) for e in n.elts):
                raise Untranslatable("starred element")
            elts = [self.expr(e, out, ind) for e in n.elts]
            return "(Py.Obj.list [%s])" % ", ".join(elts)
        if isinstance(n, ast.UnaryOp):
            a = self.expr(n.operand, out, ind)
            f = {ast.Not: "Py.not_", ast.USub: "Py.op_neg", ast.UAdd: "Py.op_pos"}.get(type(n.op))
            if f is None:
                raise Untranslatable("operator %s" % type(n.op).__name__)
            return self.let(out, ind, "%s env %s" % (f, a))
        if isinstance(n, ast.BinOp):
            if isinstance(n.left, ast.Constant) and isinstance(n.left.value, str) and isinstance(n.op, ast.Mod):
                raise Untranslatable("string formatting as a value")
            f = BINOPS.get(type(n.op))
            if f is None:
                raise Untranslatable("operator %s" % type(n.op).__name__)
            a = self.expr(n.left, out, ind)
            b = self.expr(n.right, out, ind)
            return self.let(out, ind, "%s env %s %s" % (f, a, b))
        if isinstance(n, ast.Compare):
            if len(n.ops) != 1:
                raise Untranslatable("comparison chain")
            f = CMPOPS.get(type(n.ops[0]))
            if f is None:
                raise Untranslatable("comparison %s" % type(n.ops[0]).__name__)
            a = self.expr(n.left, out, ind)
            b = self.expr(n.comparators[0], out, ind)
            return self.let(out, ind, "%s env %s %s" % (f, a, b))
        if isinstance(n, ast.BoolOp):
            cur = self.expr(n.values[0], out, ind)
            for v in n.values[1:]:
                c = self.let(out, ind, "Py.truthy env %s" % cur, "c")
                nxt = self.fresh()
                if isinstance(n.op, ast.And):
                    out.append("%slet %s ← (if %s then " % (ind, nxt, c))
                    self.sub_do(v, out, ind)
                    out.append("%s  else pure %s)" % (ind, cur))
                else:
                    out.append("%slet %s ← (if %s then pure %s" % (ind, nxt, c, cur))
                    out.append("%s  else " % ind)
                    self.sub_do(v, out, ind)
                    out[-1] += ")"
                cur = nxt
            return cur
        if isinstance(n, ast.IfExp):
            c = self.cond(n.test, out, ind)
            t = self.fresh()
            out.append("%slet %s ← (if %s then " % (ind, t, c))
            self.sub_do(n.body, out, ind)
            out.append("%s  else " % ind)
            self.sub_do(n.orelse, out, ind)
            out[-1] += ")"
            return t
        if isinstance(n, (ast.GeneratorExp, ast.ListComp)):
            if len(n.generators) != 1 or n.generators[0].ifs or n.generators[0].is_async or not isinstance(n.generators[0].target, ast.Name):
                raise Untranslatable("generator expression shape")
            g = n.generators[0]
            it = self.expr(g.iter, out, ind)
            f = self.lambda_([g.target.id], n.elt, ind)
            return self.let(out, ind, "Py.%s env %s %s" % ("genexp" if isinstance(n, ast.GeneratorExp) else "listcomp", f, it))
        if isinstance(n, ast.Call):
            return self.call(n, out, ind)
        if isinstance(n, ast.Subscript) and not isinstance(n.slice, (ast.Slice, ast.Tuple)):
            o = self.expr(n.value, out, ind)
            i = self.expr(n.slice, out, ind)
            return self.let(out, ind, "Py.getitem env %s %s" % (o, i))
        raise Untranslatable("expression %s" % type(n).__name__)

    def lambda_(self, params: typing.List[str], body: ast.AST, ind: str) -> str:
        sub = self.fork(True)
        for p in params:
            sub.vars[p] = ("obj", lname(p))
        lines = sub.tail([ast.Return(value=body)], ind + "      ", "pure Py.Obj.none", True)
        return "(fun %s => do\n%s)" % (" ".join(lname(p) for p in params), "\n".join(lines))

    def attribute(self, n: ast.Attribute, out: typing.List[str], ind: str) -> str:
        r = self.g.resolve(self.mod, n)
        if r[0] == "class":
            return "(Py.Obj.cls .%s)" % r[1]
        if r[0] == "const":
            return r[1]
        if r[0] != "none":
            raise Untranslatable("%s used as a value" % ast.unparse(n))
        if n.attr.startswith("__") and n.attr != "__class__":
            raise Untranslatable("attribute %s" % n.attr)
        # a property of the translated classes / a native attribute / an instance attribute
        owners = [c for c, ci in self.g.classes.items() if n.attr in ci.methods]
        if owners:
            if not all(n.attr in self.g.classes[c].props for c in owners):
                raise Untranslatable("bound method %s as a value" % n.attr)
            if isinstance(n.value, ast.Name) and n.value.id == "self" and self.cls and self.is_self(n.value):
                owner = self.g.find_method(self.cls, n.attr)
                if owner is not None and not any(n.attr in self.g.classes[c].methods for c in self.g.subclasses(self.cls)):
                    f = self.g.need("meth:%s.%s" % (owner, n.attr))
                    return self.let(out, ind, "%s env %s" % (f, self.expr(n.value, out, ind)))
            o = self.expr(n.value, out, ind)
            f = self.g.need("disp:" + n.attr)
            return self.let(out, ind, "%s env %s" % (f, o))
        o = self.expr(n.value, out, ind)
        if n.attr in NATIVE_ATTRS:
            return self.let(out, ind, "%s env %s" % (NATIVE_ATTRS[n.attr], o))
        if any(n.attr in ci.class_attrs for ci in self.g.classes.values()):
            raise Untranslatable("class attribute %s" % n.attr)
        return self.let(out, ind, "Py.getattr env %s %s" % (o, lean_str(n.attr)))

    def is_self(self, n: ast.AST) -> bool:
        """is `n` the first parameter of the method being translated (and the method is not a nested wrapper)"""
        return (isinstance(n, ast.Name) and self.cls is not None and self.fn.args.args and self.fn.args.args[0].arg == n.id
                and self.fn.name in self.g.classes[self.cls].methods and self.g.classes[self.cls].methods[self.fn.name] is self.fn)

    def fexpr(self, n: ast.AST, arity: int, ind: str) -> str:
        """an expression in a position where a function of `arity` values is expected"""
        if isinstance(n, ast.Lambda):
            if len(n.args.args) != arity or n.args.defaults or n.args.vararg or n.args.kwarg:
                raise Untranslatable("lambda arity")
            return self.lambda_([a.arg for a in n.args.args], n.body, ind)
        if isinstance(n, ast.Name) and n.id in self.vars:
            k = self.vars[n.id]
            if k[0] == "fn" and k[2] == arity:
                return k[1]
            raise Untranslatable("%s is not a function of %d values" % (n.id, arity))
        r = self.g.resolve(self.mod, n)
        if isinstance(n, ast.Name) and r[0] == "class" and n.id in BUILTIN_FUNCS1 and n.id in BUILTIN_CLS:
            r = ("builtin", n.id)
        if r[0] == "func":
            return self.func_ref(r[1], r[2], arity)
        if r[0] == "stdlib" and r[1].startswith("operator.") and r[1][9:] in OPERATOR_FUNCS and arity == 2:
            return "(%s env)" % OPERATOR_FUNCS[r[1][9:]]
        if r[0] == "builtin" and r[1] in BUILTIN_FUNCS1 and arity == 1:
            return "(%s env)" % BUILTIN_FUNCS1[r[1]]
        raise Untranslatable("function value %s" % ast.unparse(n))

    def func_ref(self, m: str, f: str, arity: int) -> str:
        fn = self.g.mods[m].funcs.get(f)
        if fn is None or len(fn.args.args) != arity:
            raise Untranslatable("function %s.%s of %d values" % (m, f, arity))
        if m != self.mod.name:
            if arity != 2:
                raise Untranslatable("late-bound function %s.%s is not binary" % (m, f))
            self.g.globs.add("%s.%s" % (m, f))
            return "(env.glob %s)" % lean_str("%s.%s" % (m, f))
        return "(%s env)" % self.g.need("fn:%s.%s" % (m, f))

    def args_for(self, params: typing.List[typing.Tuple[str, typing.Optional[int]]], fn: typing.Optional[ast.FunctionDef], call: ast.Call,
                 out: typing.List[str], ind: str, skip_first: bool) -> typing.List[str]:
        """the arguments of a call of a statically known function: positional, keyword, defaults"""
        ps = params[1:] if skip_first else params
        defaults: typing.Dict[str, ast.expr] = {}
        if fn is not None:
            a = fn.args.args
            for p, d in zip(a[len(a) - len(fn.args.defaults):], fn.args.defaults):
                defaults[p.arg] = d
        if any(isinstance(a, ast.Starred) for a in call.args) or any(k.arg is None for k in call.keywords):
            raise Untranslatable("* / ** arguments")
        if len(call.args) > len(ps):
            raise Untranslatable("too many arguments in %s" % ast.unparse(call))
        given: typing.Dict[str, ast.expr] = {p[0]: a for p, a in zip(ps, call.args)}
        for k in call.keywords:
            if k.arg in given or k.arg not in [p[0] for p in ps]:
                raise Untranslatable("keyword argument %s" % k.arg)
            given[k.arg] = k.value
        res = []
        for name, ar in ps:
            node = given.get(name, defaults.get(name))
            if node is None:
                raise Untranslatable("argument %s missing in %s" % (name, ast.unparse(call)))
            res.append(self.fexpr(node, ar, ind) if ar is not None else self.expr(node, out, ind))
        return res

    def call(self, n: ast.Call, out: typing.List[str], ind: str) -> str:
        f = n.func
        # calls of local functions / function parameters
        if isinstance(f, ast.Name) and f.id in self.vars:
            k = self.vars[f.id]
            if k[0] != "fn" or n.keywords or len(n.args) != k[2]:
                raise Untranslatable("call of %s" % f.id)
            args = [self.expr(a, out, ind) for a in n.args]
            return self.let(out, ind, "%s %s" % (k[1], " ".join(args)))
        # getattr(x, <static name>)(args)
        if (isinstance(f, ast.Call) and isinstance(f.func, ast.Name) and f.func.id == "getattr" and len(f.args) == 2 and not f.keywords
                and f.func.id not in self.vars):
            if self.getattrs is None:
                raise Untranslatable("getattr outside a decorator's wrapper")
            if n.keywords:
                raise Untranslatable("keyword arguments")
            text = ast.unparse(f.args[1])
            idx = [i for i, g in enumerate(self.getattrs) if g[0] == text]
            if idx:
                i = idx[0]
                if self.getattrs[i][2] != len(n.args) + 1:
                    raise Untranslatable("getattr(·, %s) with different arities" % text)
            else:
                i = len(self.getattrs)
                self.getattrs.append((text, f.args[1], len(n.args) + 1))
            o = self.expr(f.args[0], out, ind)
            args = [self.expr(a, out, ind) for a in n.args]
            return self.let(out, ind, "getattr_%d %s %s" % (i, o, " ".join(args)))
        # super().m(args)
        if (isinstance(f, ast.Attribute) and isinstance(f.value, ast.Call) and isinstance(f.value.func, ast.Name) and f.value.func.id == "super"
                and not f.value.args):
            if self.cls is None:
                raise Untranslatable("super() outside a class")
            owner = self.g.find_method(self.cls, f.attr, after=self.cls)
            if owner is None:
                raise Untranslatable("super().%s not found" % f.attr)
            key = "meth:%s.%s" % (owner, f.attr)
            name = self.g.need(key)
            me = lname(self.fn.args.args[0].arg)
            args = self.args_for(self.g.sigs[key], self.g.classes[owner].methods[f.attr], n, out, ind, True)
            return self.let(out, ind, "%s env %s %s" % (name, me, " ".join(args)))
        r = self.g.resolve(self.mod, f) if isinstance(f, (ast.Name, ast.Attribute)) else ("none",)
        if isinstance(f, ast.Name) and r[0] == "class" and f.id in BUILTIN_FUNCS1 and f.id in BUILTIN_CLS:
            r = ("builtin", f.id)   # `int(x)`, `list(x)`, `type(x)`, …: conversions, not instantiations of user classes
        if r[0] == "builtin":
            b = r[1]
            if n.keywords:
                raise Untranslatable("keyword arguments of %s" % b)
            if b in ("isinstance", "issubclass") and len(n.args) == 2:
                a, c = self.expr(n.args[0], out, ind), self.expr(n.args[1], out, ind)
                return self.let(out, ind, "Py.%s %smro env %s %s" % (b, P, a, c))
            if b in BUILTIN_FUNCS1 and len(n.args) == 1:
                return self.let(out, ind, "%s env %s" % (BUILTIN_FUNCS1[b], self.expr(n.args[0], out, ind)))
            if b == "next" and len(n.args) == 1 and isinstance(n.args[0], ast.Name) and self.vars.get(n.args[0].id, ("",))[0] == "obj":
                if self.no_next:
                    raise Untranslatable("next() inside a conditional / nested block")
                v = lname(n.args[0].id)
                t = self.let(out, ind, "Py.next env %s" % v)
                out.append("%slet %s := %s.2" % (ind, v, t))
                return "%s.1" % t
            if b in ("any", "all") and len(n.args) == 1:
                arg = n.args[0]
                if (isinstance(arg, ast.GeneratorExp) and len(arg.generators) == 1 and not arg.generators[0].ifs
                        and not arg.generators[0].is_async and isinstance(arg.generators[0].target, ast.Name)):
                    it = self.expr(arg.generators[0].iter, out, ind)   # lazily: the elements behind the deciding one are not evaluated
                    f = self.lambda_([arg.generators[0].target.id], arg.elt, ind)
                else:
                    it = self.expr(arg, out, ind)
                    f = "(fun x => pure x)"
                return self.let(out, ind, "Py.%sM env %s %s" % (b, f, it))
            if b == "map" and len(n.args) == 2:
                it = self.expr(n.args[1], out, ind)
                return self.let(out, ind, "Py.map_ env %s %s" % (self.fexpr(n.args[0], 1, ind), it))
            raise Untranslatable("call of %s" % b)
        if r[0] == "stdlib":
            if n.keywords:
                raise Untranslatable("keyword arguments of %s" % r[1])
            if r[1] == "functools.reduce" and len(n.args) == 2:
                it = self.expr(n.args[1], out, ind)
                return self.let(out, ind, "Py.reduce env %s %s" % (self.fexpr(n.args[0], 2, ind), it))
            if r[1] == "unicodedata.normalize" and len(n.args) == 2:
                a, b = self.expr(n.args[0], out, ind), self.expr(n.args[1], out, ind)
                return self.let(out, ind, "Py.normalize env %s %s" % (a, b))
            if r[1].startswith("operator.") and r[1][9:] in OPERATOR_FUNCS and len(n.args) == 2:
                a, b = self.expr(n.args[0], out, ind), self.expr(n.args[1], out, ind)
                return self.let(out, ind, "%s env %s %s" % (OPERATOR_FUNCS[r[1][9:]], a, b))
            raise Untranslatable("call of %s" % r[1])
        if r[0] == "class":
            if r[1] == "Fraction" and len(n.args) == 1 and not n.keywords:
                return self.let(out, ind, "Py.Fraction env %s" % self.expr(n.args[0], out, ind))
            if r[1] in self.g.classes:
                name = self.g.need("new:" + r[1])
                owner = self.g.find_method(r[1], "__init__")
                fn = self.g.classes[owner].methods["__init__"] if owner else None
                ps = self.g.sigs["new:" + r[1]]
                args = self.args_for([("self", None)] + list(ps), fn, n, out, ind, True)
                return self.let(out, ind, ("%s env %s" % (name, " ".join(args))).rstrip())
            raise Untranslatable("call of class %s" % r[1])
        if r[0] == "func":
            m, fname = r[1], r[2]
            fn = self.g.mods[m].funcs[fname]
            if m != self.mod.name:
                if n.keywords or len(n.args) != 2 or len(fn.args.args) != 2:
                    raise Untranslatable("late-bound call %s" % ast.unparse(f))
                self.g.globs.add("%s.%s" % (m, fname))
                a, b = self.expr(n.args[0], out, ind), self.expr(n.args[1], out, ind)
                return self.let(out, ind, "env.glob %s %s %s" % (lean_str("%s.%s" % (m, fname)), a, b))
            key = "fn:%s.%s" % (m, fname)
            name = self.g.need(key)
            args = self.args_for(self.g.sigs[key], fn if not self.g.user_decorators(self.g.mods[m], fn) else None, n, out, ind, False)
            return self.let(out, ind, "%s env %s" % (name, " ".join(args)))
        if isinstance(f, ast.Attribute) and r[0] == "none":
            return self.method_call(f.value, f.attr, n, out, ind)
        raise Untranslatable("call %s" % ast.unparse(f))

    def method_call(self, obj: ast.AST, m: str, call: ast.Call, out: typing.List[str], ind: str) -> str:
        if m in NATIVE_METHODS and m not in self.g.all_method_names():
            if call.keywords or len(call.args) != 1:
                raise Untranslatable("arguments of .%s" % m)
            o = self.expr(obj, out, ind)
            a = self.expr(call.args[0], out, ind)
            return self.let(out, ind, "%s env %s %s" % (NATIVE_METHODS[m], o, a))
        if m not in self.g.all_method_names():
            raise Untranslatable("method .%s" % m)
        if any(m in ci.props for ci in self.g.classes.values()):
            raise Untranslatable("call of the property %s" % m)
        if self.is_self(obj) and self.cls is not None:
            owner = self.g.find_method(self.cls, m)
            if owner is not None and not any(m in self.g.classes[c].methods for c in self.g.subclasses(self.cls)):
                key = "meth:%s.%s" % (owner, m)
                name = self.g.need(key)
                fn = self.g.classes[owner].methods[m]
                o = self.expr(obj, out, ind)
                args = self.args_for(self.g.sigs[key], fn if not self.g.user_decorators(self.g.classes[owner].mod, fn) else None, call, out, ind, True)
                return self.let(out, ind, ("%s env %s %s" % (name, o, " ".join(args))).rstrip())
        name = self.g.need("disp:" + m)
        o = self.expr(obj, out, ind)
        args = self.args_for(self.g.sigs["disp:" + m], None, call, out, ind, True)
        return self.let(out, ind, ("%s env %s %s" % (name, o, " ".join(args))).rstrip())


def translate_exprops(repo: Path) -> typing.Tuple[str, typing.List[str]]:
    """Returns (lean text of Gen/ExprOps.lean, list of problems)."""
    g = Gen(repo)
    try:
        text = g.run()
    except Exception as ex:  # a defect of the translator itself: every root becomes a failing stub, the tie is reported broken
        h = Gen(Path("/nonexistent"))
        h.problems = []
        try:
            text = h.run()
        except Exception:
            text = "import PyLib.Expr\n"
        return text, g.problems + ["translator error: %s: %s" % (type(ex).__name__, ex)]
    return text, g.problems
