#!/usr/bin/env python3
"""tools/reseed_all.py [pattern]: run the quick check of every seeded change's own property against a scratch copy with the
patch applied; store the outcome in seeded/<id>/meta.json ("latest") and print a summary line per seed."""
import json, subprocess, sys, glob, os, time
pat = sys.argv[1] if len(sys.argv) > 1 else ""
for d in sorted(x for x in glob.glob("/verif/seeded/*%s*" % pat) if os.path.isdir(x)):
    name = os.path.basename(d)
    prop = name.split("-")[0]
    patch = d + "/patch-rebased.diff" if os.path.exists(d + "/patch-rebased.diff") else d + "/patch.diff"
    t0 = time.time()
    r = subprocess.run(["/verif/tools/try_seed.sh", patch, prop], capture_output=True, text=True)
    lines = [l for l in r.stdout.splitlines() if l.startswith("VIOLATION") or l.startswith("rc=") or l.startswith("patch failed")]
    viol = [l for l in lines if l.startswith("VIOLATION")]
    status = "patch-does-not-apply" if any(l.startswith("patch failed") for l in lines) else \
             "missed" if not viol else "tie-only" if all("no-failing-input-found" in l for l in viol) else "caught"
    try:
        m = json.load(open(d + "/meta.json"))
    except Exception:
        m = {}
    m["latest"] = {"status": status, "lines": lines[:4], "wall_s": round(time.time() - t0)}
    json.dump(m, open(d + "/meta.json", "w"), indent=1)
    print(name, status, round(time.time() - t0), flush=True)
