#!/bin/sh
# tools/try_seed.sh <patch.diff> <PROP>...   : run the quick checks against a scratch copy of /repo with the patch applied
P="$1"; shift
D=$(mktemp -d /tmp/mutXXXXXX)
cp -r /repo/pydsdl "$D/" && (cd "$D" && patch -s -p1 < "$P") || { echo "patch failed"; rm -rf "$D"; exit 2; }
for prop in "$@"; do
  echo "== $prop against $P"
  VERIF_REPO="$D" timeout 1200 /verif/check "$prop" --tier quick
  echo "rc=$?"
done
rm -rf "$D"
