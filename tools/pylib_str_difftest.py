#!/venv/bin/python
"""Differential test of the string primitives of lean/PyLib.lean against CPython: `Py.intOfStr` vs int(str), `Py.strIsascii`,
`Py.strIsdigit`, `Py.strSplitChar` on 30000 random short strings over an alphabet of blanks, signs, underscores, digits,
control characters and letters, plus the 4300-digit limit and non-ASCII samples (where PyLib must answer "outside").
    tools/pylib_str_difftest.py        (cwd: the verification root; ~10 s)"""
import random, subprocess, sys
rng = random.Random(1)
alpha = " \t\n\x0b\x0c\r\x1c\x1f\x00+-_0123456789ax.e"
cases = ["", "1", "+1", "1_0", "1"*4300, "1"*4301, " "+"1_"*4299+"1 ", "0"*4301, "é1", "１", "²", "-0", "1\x85"]
for _ in range(30000):
    n = rng.choice([0,1,1,2,2,3,3,4,5,6,8])
    a = alpha if rng.random() < 0.5 else " +-_0123456789"
    cases.append("".join(rng.choice(a) for _ in range(n)))
inp = "".join("".join("%04x" % ord(c) for c in s) + "\n" for s in cases)
out = subprocess.run(["lake", "env", "lean", "--run", "../tools/pylib_str_difftest.lean"], cwd=str(__import__("pathlib").Path(__file__).resolve().parent.parent / "lean"), input=inp, capture_output=True, text=True)
lines = out.stdout.splitlines()
assert len(lines) == len(cases), (len(lines), out.stderr[-500:])
bad = 0
cnt = {}
for s, l in zip(cases, lines):
    asc = s.isascii()
    if asc:
        try: r = "ok %d" % int(s)
        except ValueError: r = "VE"
        d = str(s.isdigit()).lower()
    else:
        r, d = "OUT", "OUT"
    exp = "%s %s %s %d" % (r, str(asc).lower(), d, len(s.split(".")))
    cnt[r.split()[0]] = cnt.get(r.split()[0], 0) + 1
    if exp != l:
        bad += 1
        if bad < 10: print("MISMATCH", repr(s[:30]), len(s), "py:", exp[:60], "lean:", l[:60])
print("cases", len(cases), "mismatches", bad, cnt)
sys.exit(1 if bad else 0)
