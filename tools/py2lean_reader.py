"""
Reader group of py2lean: the comment / attribute / line-number automaton of the pydsdl front end.  Output: lean/Gen/Reader.lean.

Translated, all of it read from the working tree of $VERIF_REPO with `ast` on every run:

  pydsdl/_error.py                `Error.__init__`, `Error.set_error_location_if_unknown`, the `path` / `line` properties
  pydsdl/_data_schema_builder.py  the `SerializationMode` classes (as an inductive type), `DataSchemaBuilder` (constructor, properties,
                                  `set_comment`, `add_field`, `add_constant`, `set_serialization_mode`, `make_union`)
  pydsdl/_data_type_builder.py    `DataTypeBuilder`: constructor (slice: the attributes of the table below), `on_header_comment`,
                                  `on_attribute_comment`, `on_constant`, `on_field`, `on_padding_field`, `_queue_attribute`, `_flush_attribute`,
                                  `_on_attribute`, `on_service_response_marker`, `on_directive` and its six handlers
  pydsdl/_parser.py               `_ParseTreeProcessor`: constructor, `current_line_number`, `_flush_comment`, `visit_line`,
                                  `visit_end_of_line`, `visit_comment`, the six `visit_statement_*` visitors, `visit_identifier`, the string
                                  literal visitors; and the function `parse` (construction of the visitor, the visit, the end-of-text flush, the
                                  handler that injects the error location)

Meaning of the output (lean/PyState.lean): a method is a computation in `Py.SM σ ε`, `σ` = the structure generated from the attributes
the class assigns in `__init__`, `ε` = `Py.Exc ErrorS`; when an exception leaves a method the object keeps every assignment made before.
`self` is read through a snapshot taken in front of each statement (`let self ← Py.SM.get`); a statement that contains a state-changing
call must not read `self` anywhere else (evaluation order), otherwise the method is not translated.

  * a method of an object stored in an attribute runs through `Py.SM.zoom`, one of `self._xs[-1]` through `Py.SM.zoomLast`
    (`IndexError` on an empty list), one of an exception object bound by `except … as ex` through `Py.SM.onObj`;
  * `lambda doc: …` passed where a `Callable[[str], None]` is expected becomes a constructor of `Callback` holding the captured variables
    (never `self`: the body reads `self` when it is CALLED); calling the stored callback is the generated `element_callback_call`;
  * `raise C(text, path=…, line=…)` with `C` a subclass of `_error.Error` (checked through the class statements of the four files; `C`
    must not define `__init__`) is `throw (.dsdl (Error.init path line))`; the message is not evaluated.  `except _error.Error as ex`
    matches `.dsdl`; handlers for classes that are defined outside pydsdl (`parsimonious.*`) are skipped -- they cannot match `.dsdl`;
  * `{"k": self.m, …}[key]` inside `try / except KeyError / else` is a chain of string comparisons;
  * `assert` keeps the conjuncts that are not pure type assertions (`isinstance`, `callable`, `all(map(lambda x: isinstance …))`);
  * calls of `_logger.*` are skipped (their arguments are not evaluated);
  * opaque callees are fields of `Env` (table `ENV`): the attribute constructors `Field` / `PaddingField` / `Constant`, `_parse_string_literal`,
    `str(v)` / `isinstance(v, Boolean | Rational)` / `v.native_value` / `v.as_native_integer()` of an expression value, the print handler;
  * a `visit_<rule>` method becomes a constructor `<rule>` of `Event`; `node` is represented by `node.text`, `children` by the components
    the method unpacks and type-asserts.  `visit` dispatches an event to its method; the event `other x` stands for every visitor that is
    not translated: `ext x`, a computation on the statement stream processor.  That this is all an untranslated visitor can do is CHECKED:
    no method of `_ParseTreeProcessor` outside the table may assign an attribute of the visitor or call a state-changing translated method.

Robustness against refactorings (none of it guesses: whatever is not understood is still refused):
  * private helper methods are found through the call graph (`self._helper(…)` in a translated method), translated like any other
    method, emitted callees first and tagged `@[py_helper]`; the bridge unfolds that simp set wherever it unfolds a method, so
    extracting / inlining / renaming a helper yields the same proof obligations;
  * a parameter `Callable[[], None]` is a computation on the object (`lambda: …` is bound as a `do` block and run where the callee
    calls it), `Callable[[C], None]` with `C` a translated class one on an object of that class (`lambda x: x.m(…)`, run through
    `zoom` on the attribute the callee passes); a closure may capture only locals that are never re-assigned;
  * a property whose body is `return self._x` (type assertions aside) is read as the attribute itself when called on `self`, so
    it may stand anywhere in an `and` / `or`; `[*a, *b]` is `a ++ b`;
  * a private attribute that is the only attribute of its type in its class gets a fixed Lean name (table `CANONICAL_FIELDS`),
    whatever its Python name; locals never reach a statement of the bridge.

Not translated (they reach the generated code only through `ext` / `Env`): `DataTypeBuilder.finalize` / `_make_composite`,
`resolve_top_level_identifier`, `resolve_versioned_data_type`, `DataSchemaBuilder.offset`, the expression and type visitors of
`_ParseTreeProcessor`, `_parse_string_literal`, the attribute constructors of `_serializable/_attribute.py`.

Anything outside the supported fragment makes the method an always-failing stub and is reported (`py2lean: [Gen.Reader] …`).
"""
from __future__ import annotations

import ast
import hashlib
import typing
from pathlib import Path


class Untranslatable(Exception):
    pass


KEYWORDS = {"end", "at", "from", "by", "do", "then", "fun", "let", "in", "open", "show", "have", "match", "with", "where", "instance",
            "class", "structure", "def", "theorem", "mut", "type", "if", "else", "for", "return", "pure", "self"}

FILES = {
    "_error": "pydsdl/_error.py",
    "_data_schema_builder": "pydsdl/_data_schema_builder.py",
    "_data_type_builder": "pydsdl/_data_type_builder.py",
    "_parser": "pydsdl/_parser.py",
}

# type tags -> Lean types
TPARAMS = "P T V A L H"


def lean_ty(t: str, state_ty: typing.Optional[str] = None) -> str:
    if t == "act":  # a zero-argument callable that is called for its effect on the object: a computation on the state of the class
        if state_ty is None:
            raise Untranslatable("a callable outside a method")
        return "Py.SM %s (Exc P) Unit" % paren(state_ty)
    if t.startswith("act:"):  # a callable that is given an object of a translated class: a computation on the state of that class
        return "Py.SM %s (Exc P) Unit" % paren(CLASSES[t[4:]]["state_ty"])
    if t.startswith("opt:"):
        return "Option " + paren(lean_ty(t[4:]))
    if t.startswith("list:"):
        return "List " + paren(lean_ty(t[5:]))
    if t.startswith("obj:"):
        return CLASSES[t[4:]]["state_ty"]
    return {"int": "Nat", "Int": "Int", "bool": "Bool", "str": "Py.Str", "none": "Unit", "P": "P", "T": "T", "V": "V", "A": "A", "L": "L",
            "H": "H", "mode": "SerializationMode", "cb": "Callback T V"}[t]


def paren(t: str) -> str:
    return "(" + t + ")" if " " in t and not (t.startswith("(") and t.endswith(")")) else t


def lname(n: str) -> str:
    n = n.lstrip("_") or n
    return n + "'" if n in KEYWORDS else n


def lean_char(c: str) -> str:
    o = ord(c)
    if 0xD800 <= o <= 0xDFFF:
        raise Untranslatable("lone surrogate in a string constant")
    if 32 <= o < 127 and c not in "'\\":
        return "'%s'" % c
    return "(Char.ofNat %d)" % o


def lean_str(s: str) -> str:
    return "([%s] : Py.Str)" % ", ".join(lean_char(c) for c in s)


CLASSES: typing.Dict[str, dict] = {
    "Error": {
        "file": "_error", "lean": "Error", "state": "ErrorS", "state_ty": "ErrorS P", "env": False,
        "methods": ["set_error_location_if_unknown", "path", "line"],
    },
    "DataSchemaBuilder": {
        "file": "_data_schema_builder", "lean": "DataSchemaBuilder", "state": "SchemaS", "state_ty": "SchemaS A", "env": False,
        "methods": ["fields", "constants", "attributes", "doc", "serialization_mode", "union", "set_comment", "add_field", "add_constant",
                    "set_serialization_mode", "make_union"],
    },
    "DataTypeBuilder": {
        "file": "_data_type_builder", "lean": "DataTypeBuilder", "state": "BuilderS", "state_ty": "BuilderS P T V A L H", "env": True,
        # attribute (path) -> (lean field, type); everything else `__init__` assigns must be a plain parameter and is not part of the state
        "fields": {"_definition.file_path": ("definition_file_path", "P"), "_lookup_definitions": ("lookup_definitions", "L"),
                   "_print_output_handler": ("print_output_handler", "H"), "_element_callback": ("element_callback", "opt:cb"),
                   "_structs": ("structs", "list:obj:DataSchemaBuilder"), "_is_deprecated": ("is_deprecated", "bool")},
        "ignored_fields": ["_definition_visitors", "_allow_unregulated_fixed_port_id"],
        "methods": ["_flush_attribute", "_queue_attribute", "_on_attribute", "on_attribute_comment", "on_header_comment", "on_constant",
                    "on_field", "on_padding_field", "_on_print_directive", "_on_assert_directive", "_on_extent_directive",
                    "_on_sealed_directive", "_on_union_directive", "_on_deprecated_directive", "on_directive", "on_service_response_marker"],
    },
    "_ParseTreeProcessor": {
        "file": "_parser", "lean": "ParseTreeProcessor", "state": "ParserS", "state_ty": "ParserS P T V A L H", "env": True,
        "methods": ["current_line_number", "_flush_comment", "visit_line", "visit_end_of_line", "visit_comment", "visit_statement_constant",
                    "visit_statement_field", "visit_statement_padding_field", "visit_statement_service_response_marker",
                    "visit_statement_directive_with_expression", "visit_statement_directive_without_expression", "visit_identifier",
                    "_visit_literal_string", "visit_literal_string_single_quoted", "visit_literal_string_double_quoted"],
    },
}
# A private attribute that is the ONLY attribute of its type in its class gets a fixed Lean name, whatever it is called in Python
# (a label only: what the attribute means is proved by the bridge, never assumed).  With two attributes of that type the Python
# names are used.
CANONICAL_FIELDS = {
    "_ParseTreeProcessor": {"str": "comment", "obj:DataTypeBuilder": "statement_stream_processor"},
    "DataSchemaBuilder": {"str": "doc", "opt:mode": "serialization_mode"},
    "Error": {"opt:P": "path", "opt:int": "line"},
}
INTERFACES = {"StatementStreamProcessor": "DataTypeBuilder"}  # the interface type of an attribute -> the class that implements it
MODE_BASE = "SerializationMode"
SIGNED = {("DelimitedSerializationMode", "extent")}  # ints that may be negative

# opaque callees: name -> (argument types, result type, raises?)
ENV = [
    ("Field", ["T", "str", "str"], "A", True, "_serializable.Field(data_type, name, doc)"),
    ("PaddingField", ["T", "str"], "A", True, "_serializable.PaddingField(data_type, doc)"),
    ("Constant", ["T", "str", "V", "str"], "A", True, "_serializable.Constant(data_type, name, value, doc)"),
    ("parse_string_literal", ["str"], "V", True, "_parser._parse_string_literal(text)"),
    ("view", ["V"], "Py.ExprView", False, "isinstance(v, _expression.Boolean / Rational), Boolean.native_value"),
    ("as_native_integer", ["V"], "Int", True, "Rational.as_native_integer()"),
    ("str", ["V"], "str", False, "str(v)"),
    ("call_print_output_handler", ["H", "int", "str"], "H", False, "the print handler after the call handler(line, text)"),
]

ANNOTATIONS = {
    "str": "str", "int": "int", "bool": "bool", "None": "none",
    "typing.Optional[Path]": "opt:P", "typing.Optional[int]": "opt:int",
    "_serializable.SerializableType": "T", "_serializable.VoidType": "T",
    "_expression.Any": "V", "_expression.Any | None": "opt:V", "_expression.String": "V",
    "typing.Optional[_expression.Any]": "opt:V", "Optional[_expression.Any]": "opt:V",
    "typing.Callable[[], None]": "act", "Callable[[], None]": "act",
    "_serializable.Field": "A", "_serializable.Constant": "A",
    "List[_serializable.Field]": "list:A", "List[_serializable.Constant]": "list:A", "List[_serializable.Attribute]": "list:A",
    "Callable[[str], None]": "cb", "Callable[[str], None] | None": "opt:cb",
    "SerializationMode": "mode", "Optional[SerializationMode]": "opt:mode",
    "StatementStreamProcessor": "obj:DataTypeBuilder", "'StatementStreamProcessor'": "obj:DataTypeBuilder",
    "_Node": "node", "_Children": "children",
}
ISINSTANCE_TYPES = {"_serializable.SerializableType": "T", "_serializable.VoidType": "T", "str": "str", "_expression.Any": "V"}


def ann_type(a: typing.Optional[ast.AST]) -> str:
    if a is None:
        raise Untranslatable("missing annotation")
    s = ast.unparse(a)
    if s in ANNOTATIONS:
        return ANNOTATIONS[s]
    # Callable[[C], None] with C a translated class (or the interface it implements): a computation on an object of that class
    if isinstance(a, ast.Subscript) and ast.unparse(a.value) in ("typing.Callable", "Callable") and isinstance(a.slice, ast.Tuple) \
            and len(a.slice.elts) == 2 and isinstance(a.slice.elts[0], ast.List) and len(a.slice.elts[0].elts) == 1 \
            and isinstance(a.slice.elts[1], ast.Constant) and a.slice.elts[1].value is None:
        c = ast.unparse(a.slice.elts[0].elts[0]).strip("'\"")
        c = INTERFACES.get(c, c)
        if c in CLASSES:
            return "act:" + c
    raise Untranslatable("annotation %s" % s)


def is_act(t: typing.Optional[str]) -> bool:
    return t is not None and (t == "act" or t.startswith("act:"))


def is_name(n: ast.AST, name: str) -> bool:
    return isinstance(n, ast.Name) and n.id == name


def attr_path(n: ast.AST) -> typing.Optional[typing.List[str]]:
    """`a.b.c` -> ["a", "b", "c"]"""
    out: typing.List[str] = []
    while isinstance(n, ast.Attribute):
        out.append(n.attr)
        n = n.value
    if isinstance(n, ast.Name):
        out.append(n.id)
        return list(reversed(out))
    return None


def is_last_subscript(n: ast.AST) -> bool:
    return (isinstance(n, ast.Subscript) and isinstance(n.slice, ast.UnaryOp) and isinstance(n.slice.op, ast.USub)
            and isinstance(n.slice.operand, ast.Constant) and n.slice.operand.value == 1)


def is_type_assertion(n: ast.AST) -> bool:
    if isinstance(n, ast.Call) and isinstance(n.func, ast.Name):
        if n.func.id in ("isinstance", "callable"):
            return True
        if n.func.id == "all" and len(n.args) == 1:
            m = n.args[0]
            if (isinstance(m, ast.Call) and is_name(m.func, "map") and len(m.args) == 2 and isinstance(m.args[0], ast.Lambda)
                    and is_type_assertion(m.args[0].body)):
                return True
    return False


# ------------------------------------------------------------------------------------------------ sources

class Sources:
    def __init__(self, repo: Path):
        self.problems: typing.List[str] = []
        self.src: typing.Dict[str, str] = {}
        self.tree: typing.Dict[str, ast.Module] = {}
        for mod, rel in FILES.items():
            try:
                self.src[mod] = (repo / rel).read_text()
                self.tree[mod] = ast.parse(self.src[mod], type_comments=True)
            except (OSError, SyntaxError) as ex:
                self.problems.append("%s: cannot read / parse: %s" % (rel, ex))
                self.src[mod] = ""
                self.tree[mod] = ast.Module(body=[], type_ignores=[])
        self.class_nodes: typing.Dict[str, typing.Tuple[str, ast.ClassDef]] = {}
        for mod, tree in self.tree.items():
            for n in tree.body:
                if isinstance(n, ast.ClassDef):
                    self.class_nodes.setdefault(n.name, (mod, n))

    def span(self, mod: str, node: ast.AST) -> str:
        lines = self.src[mod].splitlines()
        text = "\n".join(lines[node.lineno - 1: node.end_lineno])  # type: ignore[attr-defined]
        return "%s lines %d-%d sha256 %s" % (FILES[mod], node.lineno, node.end_lineno, hashlib.sha256(text.encode()).hexdigest()[:16])  # type: ignore[attr-defined]

    def is_error_subclass(self, expr: ast.AST, depth: int = 0) -> bool:
        """Is the class named by `expr` (`X`, `_error.X`) a subclass of `_error.Error` that does not define `__init__`
        (other than `Error` itself)?"""
        p = attr_path(expr)
        if p is None or depth > 10:
            return False
        name = p[-1]
        if len(p) == 2 and p[0] not in FILES:
            return False
        if name not in self.class_nodes:
            return False
        mod, node = self.class_nodes[name]
        if len(p) == 2 and p[0] != mod:
            return False
        if mod == "_error" and name == "Error":
            return True
        if any(isinstance(f, ast.FunctionDef) and f.name == "__init__" for f in node.body):
            return False
        return any(self.is_error_subclass(b, depth + 1) for b in node.bases)

    def is_error_root(self, expr: ast.AST) -> bool:
        p = attr_path(expr)
        return p in (["_error", "Error"], ["Error"]) and self.class_nodes.get("Error", ("", None))[0] == "_error"


class ClassInfo:
    def __init__(self, src: Sources, name: str):
        self.name = name
        self.spec = CLASSES[name]
        self.mod = self.spec["file"]
        self.lean = self.spec["lean"]
        self.state = self.spec["state"]
        self.state_ty = self.spec["state_ty"]
        self.env = self.spec["env"]
        ent = src.class_nodes.get(name)
        self.node: typing.Optional[ast.ClassDef] = ent[1] if ent and ent[0] == self.mod else None
        self.fns: typing.Dict[str, ast.FunctionDef] = {}
        if self.node is not None:
            self.fns = {f.name: f for f in self.node.body if isinstance(f, ast.FunctionDef)}
        self.fields: typing.Dict[str, typing.Tuple[str, str]] = {}  # attribute path -> (lean field, type)
        self.field_problem: typing.Optional[str] = None
        self.init_values: typing.Dict[str, ast.AST] = {}  # lean field -> initial value expression (or parameter)
        self.init_params: typing.List[typing.Tuple[str, str]] = []
        try:
            self._analyse_init()
        except Untranslatable as ex:
            self.field_problem = str(ex)
        self.mutating: typing.Set[str] = set()

    def _analyse_init(self) -> None:
        if self.node is None:
            raise Untranslatable("class not found")
        init = self.fns.get("__init__")
        if init is None:
            raise Untranslatable("no __init__")
        a = init.args
        if a.vararg or a.kwarg or a.posonlyargs or not a.args or a.args[0].arg != "self":
            raise Untranslatable("parameter list of __init__")
        table = self.spec.get("fields")
        ptypes: typing.Dict[str, typing.Optional[str]] = {}
        for p in a.args[1:] + a.kwonlyargs:
            try:
                ptypes[p.arg] = ann_type(p.annotation)
            except Untranslatable:
                ptypes[p.arg] = None
        used_params: typing.List[typing.Tuple[str, str]] = []
        for s in init.body:
            if isinstance(s, ast.Expr) and isinstance(s.value, ast.Constant):
                continue
            if isinstance(s, ast.Assert):
                if all(is_type_assertion(c) for c in conjuncts(s.test)):
                    continue
                raise Untranslatable("assert in __init__")
            if isinstance(s, ast.Expr) and isinstance(s.value, ast.Call):
                f = ast.unparse(s.value.func)
                if f in ("super().__init__", "Exception.__init__"):
                    continue
                raise Untranslatable("call %s in __init__" % f)
            if isinstance(s, ast.AnnAssign):
                tgt, val, declared = s.target, s.value, ann_type(s.annotation)
            elif isinstance(s, ast.Assign) and len(s.targets) == 1:
                tgt, val = s.targets[0], s.value
                declared = ANNOTATIONS.get(s.type_comment) if s.type_comment else None
                if s.type_comment and declared is None and table is None:
                    raise Untranslatable("type comment %s" % s.type_comment)
            else:
                raise Untranslatable("__init__ statement %s" % type(s).__name__)
            if not (isinstance(tgt, ast.Attribute) and is_name(tgt.value, "self")) or val is None:
                raise Untranslatable("__init__ assigns %s" % ast.unparse(tgt))
            attr = tgt.attr
            if table is not None:
                if attr in self.spec["ignored_fields"]:
                    if not isinstance(val, ast.Name):
                        raise Untranslatable("ignored attribute %s is not initialised with a plain parameter" % attr)
                    continue
                rows = {k: v for k, v in table.items() if k.split(".")[0] == attr}
                if not rows:
                    raise Untranslatable("attribute %s is not in the table" % attr)
                for k, (lf, t) in rows.items():
                    self.fields[k] = (lf, t)
                    if t in ("P", "L", "H"):  # opaque: the constructor is given the value
                        ok = isinstance(val, ast.Name) or (isinstance(val, ast.Call) and is_name(val.func, "list") and len(val.args) == 1
                                                           and isinstance(val.args[0], ast.Name))
                        if not ok:
                            raise Untranslatable("opaque attribute %s is not initialised with a parameter" % attr)
                        used_params.append((lf, t))
                        self.init_values[lf] = ast.Name(id=lf, ctx=ast.Load())
                    else:
                        self.init_values[lf] = val
                continue
            if attr in self.fields:
                raise Untranslatable("attribute %s assigned twice in __init__" % attr)
            t = declared or self._value_type(val, ptypes)
            self.fields[attr] = (lname(attr), t)
            self.init_values[lname(attr)] = val
            for n in ast.walk(val):
                if isinstance(n, ast.Name) and n.id in ptypes:
                    if ptypes[n.id] is None:
                        raise Untranslatable("parameter %s of __init__ has no known type" % n.id)
                    if (n.id, ptypes[n.id]) not in used_params:
                        used_params.append((n.id, ptypes[n.id]))  # type: ignore[arg-type]
        if table is not None:
            missing = [k for k in table if k not in self.fields]
            if missing:
                raise Untranslatable("__init__ does not assign %s" % missing)
        else:
            canon = CANONICAL_FIELDS.get(self.name, {})
            for t, cname in canon.items():
                attrs = [a for a, (_, ft) in self.fields.items() if ft == t]
                if len(attrs) == 1 and attrs[0].startswith("_") and cname not in [lf for a, (lf, _) in self.fields.items() if a != attrs[0]]:
                    old = self.fields[attrs[0]][0]
                    self.fields[attrs[0]] = (cname, t)
                    if old != cname:
                        self.init_values[cname] = self.init_values.pop(old)
        self.init_params = used_params

    @staticmethod
    def _value_type(val: ast.AST, ptypes: typing.Dict[str, typing.Optional[str]]) -> str:
        if isinstance(val, ast.Constant):
            if isinstance(val.value, bool):
                return "bool"
            if isinstance(val.value, int):
                return "int"
            if isinstance(val.value, str):
                return "str"
        if isinstance(val, ast.Name) and ptypes.get(val.id):
            return ptypes[val.id]  # type: ignore[return-value]
        if isinstance(val, ast.Call) and is_name(val.func, "bool") and len(val.args) == 1 and isinstance(val.args[0], ast.Name) \
                and ptypes.get(val.args[0].id) == "bool":
            return "bool"
        raise Untranslatable("cannot type the initial value %s" % ast.unparse(val))

    def field(self, path: str) -> typing.Optional[typing.Tuple[str, str]]:
        return self.fields.get(path)

    def discover_helpers(self) -> None:
        """Private methods that the translated methods call on `self` (directly or through other helpers) are translated too:
        they are found through the call graph, not by name."""
        self.helpers: typing.List[str] = []
        todo = list(self.spec["methods"])
        seen = set(todo)
        while todo:
            m = todo.pop()
            f = self.fns.get(m)
            if f is None:
                continue
            for n in ast.walk(f):
                if isinstance(n, ast.Attribute) and is_name(n.value, "self") and n.attr in self.fns and n.attr not in seen \
                        and n.attr.startswith("_") and not n.attr.startswith("__"):
                    seen.add(n.attr)
                    self.helpers.append(n.attr)
                    todo.append(n.attr)

    def translated(self) -> typing.List[str]:
        return list(self.spec["methods"]) + list(getattr(self, "helpers", []))

    def ordered_methods(self) -> typing.List[str]:
        """the translated methods, callees first (the order of the table, then source order, breaks ties)"""
        names = [m for m in self.translated() if m in self.fns]
        deps: typing.Dict[str, typing.Set[str]] = {}
        for m in names:
            deps[m] = {n.attr for n in ast.walk(self.fns[m]) if isinstance(n, ast.Attribute) and is_name(n.value, "self")
                       and n.attr in names and n.attr != m}
        out: typing.List[str] = []
        while len(out) < len(names):
            ready = [m for m in names if m not in out and deps[m] <= set(out)]
            if not ready:
                out += [m for m in names if m not in out]  # a cycle: Lean will refuse the forward reference
                break
            out.append(ready[0])
        return out + [m for m in self.translated() if m not in self.fns]

    def trivial_property(self, m: str) -> typing.Optional[str]:
        """the attribute a property returns when its body is `return self._x` (type assertions aside): reading it cannot raise"""
        f = self.fns.get(m)
        if f is None or not self.is_property(m):
            return None
        body = [s for s in f.body if not (isinstance(s, ast.Expr) and isinstance(s.value, ast.Constant))
                and not (isinstance(s, ast.Assert) and all(is_type_assertion(c) for c in conjuncts(s.test)))]
        if len(body) == 1 and isinstance(body[0], ast.Return) and isinstance(body[0].value, ast.Attribute) \
                and is_name(body[0].value.value, "self") and body[0].value.attr in self.fields:
            return body[0].value.attr
        return None

    def is_property(self, m: str) -> bool:
        return any(is_name(d, "property") for d in self.fns[m].decorator_list)

    def lean_name(self, m: str) -> str:
        return "%s.%s" % (self.lean, "init" if m == "__init__" else lname(m))


def conjuncts(n: ast.AST) -> typing.List[ast.AST]:
    if isinstance(n, ast.BoolOp) and isinstance(n.op, ast.And):
        out: typing.List[ast.AST] = []
        for v in n.values:
            out += conjuncts(v)
        return out
    return [n]


# ------------------------------------------------------------------------------------------------ method translation

ZOOM_FIELD = "Py.SM.zoom (fun self => self.%s) (fun self v => { self with %s := v })"
ZOOM_LAST = "Py.SM.zoomLast (fun self => self.%s) (fun self v => { self with %s := v })"


class World:
    """Everything the translation of one method needs to know about the other classes."""

    def __init__(self, src: Sources):
        self.src = src
        self.classes: typing.Dict[str, ClassInfo] = {c: ClassInfo(src, c) for c in CLASSES}
        for ci0 in self.classes.values():
            ci0.discover_helpers()
        # parameters that are zero-argument callables: calling one is a computation on the object
        self.act_params: typing.Set[str] = set()
        for ci0 in self.classes.values():
            for f0 in ci0.fns.values():
                for a0 in f0.args.args:
                    try:
                        if a0.annotation is not None and is_act(ann_type(a0.annotation)):
                            self.act_params.add(a0.arg)
                    except Untranslatable:
                        pass
        self.modes: typing.Dict[str, typing.List[typing.Tuple[str, str]]] = {}  # mode class -> constructor fields
        self.mode_problem: typing.Optional[str] = None
        try:
            self._analyse_modes()
        except Untranslatable as ex:
            self.mode_problem = str(ex)
        # names of state-changing methods, over all classes (conservative, by name)
        self.mutating_names: typing.Set[str] = set()
        changed = True
        while changed:
            changed = False
            for ci in self.classes.values():
                for m, f in ci.fns.items():
                    if m != "__init__" and m not in self.mutating_names and self._mutates(f):
                        self.mutating_names.add(m)
                        changed = True
        self.lambdas: typing.List[typing.Tuple[str, typing.List[typing.Tuple[str, str]], ast.Lambda, str]] = []

    def _analyse_modes(self) -> None:
        for name, (mod, node) in self.src.class_nodes.items():
            if mod != "_data_schema_builder" or not any(is_name(b, MODE_BASE) for b in node.bases):
                continue
            fields: typing.List[typing.Tuple[str, str]] = []
            for f in node.body:
                if isinstance(f, ast.FunctionDef) and f.name == "__init__":
                    params = {a.arg: ann_type(a.annotation) for a in f.args.args[1:]}
                    for s in f.body:
                        ok = (isinstance(s, ast.Assign) and len(s.targets) == 1 and isinstance(s.targets[0], ast.Attribute)
                              and is_name(s.targets[0].value, "self"))
                        if not ok:
                            raise Untranslatable("%s.__init__ statement" % name)
                        v = s.value
                        if isinstance(v, ast.Call) and is_name(v.func, "int") and len(v.args) == 1:
                            v = v.args[0]
                        if not (isinstance(v, ast.Name) and params.get(v.id) == "int" and v.id == s.targets[0].attr):
                            raise Untranslatable("%s.__init__ value %s" % (name, ast.unparse(s.value)))
                        fields.append((v.id, "Int" if (name, v.id) in SIGNED else "int"))
                    if [a for a in params] != [x for x, _ in fields]:
                        raise Untranslatable("%s.__init__ does not store its parameters in order" % name)
            self.modes[name] = fields
        if MODE_BASE not in self.src.class_nodes:
            raise Untranslatable("class %s not found" % MODE_BASE)

    def _mutates(self, f: ast.FunctionDef) -> bool:
        lam: typing.Set[int] = set()
        for n in ast.walk(f):
            if isinstance(n, ast.Lambda):
                lam |= {id(x) for x in ast.walk(n.body)}
        for n in ast.walk(f):
            if id(n) in lam:
                continue
            tgts: typing.List[ast.AST] = []
            if isinstance(n, ast.Assign):
                tgts = list(n.targets)
            elif isinstance(n, (ast.AugAssign, ast.AnnAssign)):
                tgts = [n.target]
            for t in tgts:
                base = t.value if isinstance(t, ast.Subscript) else t
                if isinstance(base, ast.Attribute) and is_name(base.value, "self"):
                    return True
            if isinstance(n, ast.Call) and self.is_state_changing_call(n):
                return True
        return False

    def is_state_changing_call(self, n: ast.Call) -> bool:
        f = n.func
        if isinstance(f, ast.Name) and f.id in self.act_params:
            return True
        if isinstance(f, ast.Attribute):
            if f.attr in ("append", "extend"):
                return True
            if f.attr in self.mutating_names:
                return True
            if f.attr in ("_print_output_handler", "_element_callback") and is_name(f.value, "self"):
                return True
        return False


class MTr:
    def __init__(self, world: World, ci: ClassInfo, method: str, selfname: str = "self"):
        self.w = world
        self.ci = ci
        self.method = method
        self.selfname = selfname
        self.types: typing.Dict[str, str] = {}
        self.aliases: typing.Dict[str, ast.AST] = {}
        self.callables: typing.Dict[str, str] = {}
        self.exc_var: typing.Optional[str] = None
        self.node_param: typing.Optional[str] = None
        self.children_param: typing.Optional[str] = None
        self.pre: typing.List[str] = []
        self.tmp = 0
        self.mut: typing.Set[str] = set()
        self.declared: typing.Set[str] = set()
        self.ret = "none"
        self.used_self = False
        self.lambda_doc: typing.Optional[str] = None

    # ---- helpers
    def fresh(self) -> str:
        self.tmp += 1
        return "t%d" % self.tmp

    def bind(self, action: str) -> str:
        v = self.fresh()
        self.pre.append("let %s ← %s" % (v, action))
        return v

    def env_arg(self, ci: ClassInfo) -> str:
        return " env" if ci.env else ""

    def field_read(self, lf: str) -> str:
        self.used_self = True
        return "self.%s" % lf

    def coerce(self, v: str, t: str, want: str) -> str:
        if t == want:
            return v
        if t == "noneval" and want.startswith("opt:"):
            return "none"
        if want == "opt:" + t:
            return "(some %s)" % v
        if t == "emptylist" and want.startswith("list:"):
            return "[]"
        raise Untranslatable("%s where %s is expected" % (t, want))

    def truthy(self, v: str, t: str) -> str:
        if t == "bool":
            return v
        if t == "int":
            return "(%s != (0 : Nat))" % v
        if t == "str" or t.startswith("list:"):
            return "(!(%s).isEmpty)" % v
        if t == "opt:int":
            return "(Py.truthyOptInt %s)" % v
        if t in ("opt:P", "opt:mode", "opt:cb"):  # objects without __bool__ / __len__ are true
            return "(%s).isSome" % v
        raise Untranslatable("truth value of %s" % t)

    # ---- receivers of method calls
    def receiver(self, n: ast.AST) -> typing.Optional[typing.Tuple[str, ClassInfo, str]]:
        """("self" | "field" | "last" | "exc", class, lean field)"""
        if isinstance(n, ast.Name):
            if n.id == self.selfname:
                return ("self", self.ci, "")
            if n.id in self.aliases:
                return self.receiver(self.aliases[n.id])
            if n.id == self.exc_var:
                return ("exc", self.w.classes["Error"], n.id)
            return None
        if isinstance(n, ast.Attribute) and is_name(n.value, self.selfname):
            f = self.ci.field(n.attr)
            if f and f[1].startswith("obj:"):
                return ("field", self.w.classes[f[1][4:]], f[0])
            return None
        if is_last_subscript(n) and isinstance(n.value, ast.Attribute) and is_name(n.value.value, self.selfname):  # type: ignore[attr-defined]
            f = self.ci.field(n.value.attr)  # type: ignore[attr-defined]
            if f and f[1].startswith("list:obj:"):
                return ("last", self.w.classes[f[1][9:]], f[0])
        return None

    def signature(self, ci: ClassInfo, m: str) -> typing.Tuple[typing.List[typing.Tuple[str, str, typing.Optional[ast.AST]]], str]:
        sig = method_signature(self.w, ci, m)
        return sig.params, sig.ret

    def call_method(self, rc: typing.Tuple[str, ClassInfo, str], m: str, args: typing.List[ast.AST], kws: typing.List[ast.keyword]) -> typing.Tuple[str, str]:
        kind, ci, lf = rc
        if m not in ci.fns or m not in ci.translated():
            raise Untranslatable("%s.%s is not a translated method" % (ci.name, m))
        params, ret = self.signature(ci, m)
        vals: typing.List[typing.Optional[str]] = [None] * len(params)
        if len(args) > len(params):
            raise Untranslatable("arity of %s" % m)
        for i, a in enumerate(args):
            v, t = self.e(a, want=params[i][1])
            vals[i] = self.coerce(v, t, params[i][1])
        for k in kws:
            idx = [i for i, p in enumerate(params) if p[0] == k.arg]
            if not idx or vals[idx[0]] is not None:
                raise Untranslatable("keyword argument %s of %s" % (k.arg, m))
            v, t = self.e(k.value, want=params[idx[0]][1])
            vals[idx[0]] = self.coerce(v, t, params[idx[0]][1])
        for i, (pn, pt, dflt) in enumerate(params):
            if vals[i] is None:
                if isinstance(dflt, ast.Constant) and dflt.value is None and pt.startswith("opt:"):
                    vals[i] = "none"
                else:
                    raise Untranslatable("missing argument %s of %s" % (pn, m))
        action = ("%s%s %s" % (ci.lean_name(m), self.env_arg(ci), " ".join(paren(v) for v in vals if v is not None))).strip()
        if kind == "field":
            action = "%s (%s)" % (ZOOM_FIELD % (lf, lf), action)
        elif kind == "last":
            action = "%s (%s)" % (ZOOM_LAST % (lf, lf), action)
        elif kind == "exc":
            r = self.bind("Py.SM.onObj %s (%s)" % (lname(lf), action))
            if m in self.w.mutating_names:
                self.pre.append("%s := %s.2" % (lname(lf), r))
            return ("()" if ret == "none" else "%s.1" % r), ret
        if ret == "none":
            self.pre.append(action)
            return "()", "none"
        return self.bind(action), ret

    # ---- expressions
    def e(self, n: ast.AST, want: typing.Optional[str] = None) -> typing.Tuple[str, str]:
        if isinstance(n, ast.Constant):
            if n.value is None:
                return "none", "noneval"
            if isinstance(n.value, bool):
                return ("true" if n.value else "false"), "bool"
            if isinstance(n.value, int) and n.value >= 0:
                return "(%d : Nat)" % n.value, "int"
            if isinstance(n.value, str):
                return lean_str(n.value), "str"
            raise Untranslatable("constant %r" % (n.value,))
        if isinstance(n, ast.Name):
            if n.id in self.aliases:
                return self.e(self.aliases[n.id], want)
            if n.id == self.node_param:
                return "node_text", "node"
            if n.id in self.types:
                return lname(n.id), self.types[n.id]
            raise Untranslatable("unknown name %s" % n.id)
        if isinstance(n, ast.Attribute):
            return self.attribute(n)
        if isinstance(n, ast.List) and not n.elts:
            return "[]", "emptylist"
        if isinstance(n, ast.List) and any(isinstance(x, ast.Starred) for x in n.elts):
            parts: typing.List[str] = []
            lt: typing.Optional[str] = want if want and want.startswith("list:") else None
            for x in n.elts:
                if isinstance(x, ast.Starred):
                    v, t = self.e(x.value, lt)
                    if not t.startswith("list:") or (lt is not None and t != lt):
                        raise Untranslatable("starred %s in a list display" % t)
                    lt = t
                    parts.append(v)
                else:
                    if lt is None:
                        raise Untranslatable("list display whose element type is not known at its first element")
                    parts.append("[%s]" % self.coerce(*self.e(x, lt[5:]), lt[5:]))
            assert lt is not None
            return "(" + " ++ ".join(parts) + ")", lt
        if isinstance(n, ast.List) and want and want.startswith("list:"):
            vals = [self.coerce(*self.e(x, want[5:]), want[5:]) for x in n.elts]
            return "[" + ", ".join(vals) + "]", want
        if isinstance(n, ast.UnaryOp) and isinstance(n.op, ast.Not):
            return "(!%s)" % self.truthy(*self.e(n.operand)), "bool"
        if isinstance(n, ast.BoolOp):
            return self.boolop(n)
        if isinstance(n, ast.Compare):
            return self.compare(n)
        if isinstance(n, ast.IfExp):
            before = len(self.pre)
            c = self.truthy(*self.e(n.test))
            mid = len(self.pre)
            a, ta = self.e(n.body)
            b, tb = self.e(n.orelse)
            if len(self.pre) != mid:
                raise Untranslatable("conditional expression with raising operands")
            if ta != tb:
                raise Untranslatable("conditional expression of types %s / %s" % (ta, tb))
            _ = before
            return "(if %s then %s else %s)" % (c, a, b), ta
        if isinstance(n, ast.BinOp) and isinstance(n.op, ast.Add):
            a, ta = self.e(n.left)
            b, tb = self.e(n.right)
            if ta == tb == "int":
                return "(%s + %s)" % (a, b), "int"
            if ta == tb and (ta == "str" or ta.startswith("list:")):
                return "(%s ++ %s)" % (a, b), ta
            raise Untranslatable("+ on %s, %s" % (ta, tb))
        if isinstance(n, ast.Subscript):
            base, bt = self.e(n.value)
            if bt == "str" and isinstance(n.slice, ast.Slice) and n.slice.upper is None and n.slice.step is None \
                    and isinstance(n.slice.lower, ast.Constant) and isinstance(n.slice.lower.value, int) and n.slice.lower.value >= 0:
                return "((%s).drop %d)" % (base, n.slice.lower.value), "str"
            raise Untranslatable("subscript %s" % ast.unparse(n))
        if isinstance(n, ast.Call):
            return self.call(n, want)
        if isinstance(n, ast.Lambda):
            return self.lambda_(n, want)
        raise Untranslatable(type(n).__name__)

    def attribute(self, n: ast.Attribute) -> typing.Tuple[str, str]:
        p = attr_path(n)
        if p and p[0] == self.selfname:
            key = ".".join(p[1:])
            f = self.ci.field(key)
            if f:
                return self.field_read(f[0]), f[1]
        if self.node_param and p == [self.node_param, "text"]:
            return "node_text", "str"
        # value.native_value
        if n.attr == "native_value":
            v, t = self.e(n.value)
            if t == "V":
                return self.bind("Py.SM.lift (Py.ExprView.nativeBool (env.view %s))" % v), "bool"
            if t == "opt:V":
                return self.bind("Py.SM.lift (Py.ExprView.nativeBool (Py.optView env.view %s))" % v), "bool"
        rc = self.receiver(n.value)
        if rc is not None:
            kind, ci, lf = rc
            if n.attr in ci.fns and ci.is_property(n.attr):
                triv = ci.trivial_property(n.attr)
                if kind == "self" and triv is not None and n.attr in ci.translated():
                    f = ci.field(triv)
                    assert f is not None
                    return self.field_read(f[0]), f[1]  # `return self._x`: the read itself
                return self.call_method(rc, n.attr, [], [])
        raise Untranslatable("attribute %s" % ast.unparse(n))

    def boolop(self, n: ast.BoolOp) -> typing.Tuple[str, str]:
        if isinstance(n.op, ast.Or) and len(n.values) == 2 and isinstance(n.values[1], ast.Constant) and n.values[1].value is None:
            v, t = self.e(n.values[0])
            if t == "int":
                return "(Py.intOrNone %s)" % v, "opt:int"
            raise Untranslatable("`or None` on %s" % t)
        parts = []
        for i, v in enumerate(n.values):
            before = len(self.pre)
            parts.append(self.truthy(*self.e(v)))
            if i > 0 and len(self.pre) != before:
                raise Untranslatable("short-circuit operator with a raising operand behind the first")
        return "(" + (" && " if isinstance(n.op, ast.And) else " || ").join(parts) + ")", "bool"

    def compare(self, n: ast.Compare) -> typing.Tuple[str, str]:
        if len(n.ops) != 1:
            raise Untranslatable("comparison chain")
        op, c = n.ops[0], n.comparators[0]
        left, tl = self.e(n.left)
        if isinstance(op, (ast.Is, ast.IsNot)) and isinstance(c, ast.Constant) and c.value is None:
            if not tl.startswith("opt:"):
                raise Untranslatable("`is None` on %s" % tl)
            return ("(%s).isSome" if isinstance(op, ast.IsNot) else "(%s).isNone") % left, "bool"
        r, tr = self.e(c)
        if tl != tr or tl not in ("int", "str"):
            raise Untranslatable("comparison of %s and %s" % (tl, tr))
        if isinstance(op, (ast.Eq, ast.NotEq)):
            return "(%s %s %s)" % (left, "==" if isinstance(op, ast.Eq) else "!=", r), "bool"
        sym = {ast.LtE: "≤", ast.Lt: "<", ast.GtE: "≥", ast.Gt: ">"}.get(type(op))
        if sym is None or tl != "int":
            raise Untranslatable("comparison %s" % type(op).__name__)
        return "decide (%s %s %s)" % (left, sym, r), "bool"

    def call(self, n: ast.Call, want: typing.Optional[str]) -> typing.Tuple[str, str]:
        f = n.func
        fs = ast.unparse(f)
        if isinstance(f, ast.Name):
            if f.id == "len" and len(n.args) == 1 and not n.keywords:
                a, ta = self.e(n.args[0])
                if ta == "str" or ta.startswith("list:"):
                    return "(%s).length" % a, "int"
            if f.id == "bool" and len(n.args) == 1 and not n.keywords:
                return self.truthy(*self.e(n.args[0])), "bool"
            if f.id == "str" and len(n.args) == 1 and not n.keywords:
                return self.str_of(n.args[0])
            if f.id == "isinstance" and len(n.args) == 2:
                return self.isinstance_(n.args[0], n.args[1])
            if f.id in self.callables and f.id not in self.types:
                return self.call_method(("self", self.ci, ""), self.callables[f.id], n.args, n.keywords)
            if self.types.get(f.id) == "act" and not n.args and not n.keywords:
                self.pre.append(lname(f.id))
                return "()", "none"
            if (self.types.get(f.id) or "").startswith("act:") and len(n.args) == 1 and not n.keywords:
                rc = self.receiver(n.args[0])
                if rc is None or rc[1].name != self.types[f.id][4:]:
                    raise Untranslatable("argument of the callable %s" % f.id)
                kind, _, lf = rc
                if kind == "self":
                    self.pre.append(lname(f.id))
                elif kind == "field":
                    self.pre.append("%s (%s)" % (ZOOM_FIELD % (lf, lf), lname(f.id)))
                elif kind == "last":
                    self.pre.append("%s (%s)" % (ZOOM_LAST % (lf, lf), lname(f.id)))
                else:
                    raise Untranslatable("argument of the callable %s" % f.id)
                return "()", "none"
            if f.id == "_parse_string_literal" and len(n.args) == 1 and not n.keywords and self.ci.name == "_ParseTreeProcessor":
                a, ta = self.e(n.args[0])
                if ta == "str":
                    return self.bind("Py.SM.lift (env.parse_string_literal %s)" % a), "V"
        p = attr_path(f)
        # constructors
        if p and p[-1] in CLASSES and p[-1] != "Error" and (len(p) == 1 or p[0] == CLASSES[p[-1]]["file"]):
            return self.construct(self.w.classes[p[-1]], n.args, n.keywords)
        if p and p[-1] in self.w.modes and (len(p) == 1 or p[0] == "_data_schema_builder"):
            fields = self.w.modes[p[-1]]
            if len(n.args) != len(fields) or n.keywords:
                raise Untranslatable("arguments of %s" % p[-1])
            vals = [self.coerce(*self.e(a), ft) for a, (_, ft) in zip(n.args, fields)]
            return ("(SerializationMode.%s %s)" % (p[-1], " ".join(vals))).replace(" )", ")"), "mode"
        if p and len(p) == 2 and p[0] == "_serializable" and p[1] in ("Field", "PaddingField", "Constant") and not n.keywords:
            spec = [x for x in ENV if x[0] == p[1]][0]
            if len(n.args) != len(spec[1]):
                raise Untranslatable("arguments of %s" % fs)
            vals = [paren(self.coerce(*self.e(a), t)) for a, t in zip(n.args, spec[1])]
            return self.bind("Py.SM.lift (env.%s %s)" % (p[1], " ".join(vals))), "A"
        if isinstance(f, ast.Attribute):
            # the stored callback and the print handler
            if is_name(f.value, self.selfname) and self.ci.field(f.attr):
                lf, ft = self.ci.field(f.attr)  # type: ignore[misc]
                if ft == "opt:cb" and len(n.args) == 1 and not n.keywords:
                    a = self.coerce(*self.e(n.args[0]), "str")
                    cb = self.narrowed_cb(f.attr)
                    self.pre.append("%s.element_callback_call env %s %s" % (self.ci.lean, cb, paren(a)))
                    return "()", "none"
                if ft == "H" and len(n.args) == 2 and not n.keywords:
                    a = self.coerce(*self.e(n.args[0]), "int")
                    b = self.coerce(*self.e(n.args[1]), "str")
                    self.pre.append("Py.SM.modify fun self => { self with %s := env.call_print_output_handler self.%s %s %s }"
                                    % (lf, lf, paren(a), paren(b)))
                    return "()", "none"
            if f.attr == "startswith" and len(n.args) == 1 and not n.keywords:
                a, ta = self.e(f.value)
                b, tb = self.e(n.args[0])
                if ta == tb == "str":
                    return "(Py.strStartsWith %s %s)" % (a, b), "bool"
            if f.attr == "count" and len(n.args) == 1 and isinstance(n.args[0], ast.Constant) and isinstance(n.args[0].value, str) \
                    and len(n.args[0].value) == 1:
                a, ta = self.e(f.value)
                if ta == "str":
                    return "(Py.strCountChar %s %s)" % (a, lean_char(n.args[0].value)), "int"
            if f.attr == "as_native_integer" and not n.args and not n.keywords:
                a, ta = self.e(f.value)
                if ta == "opt:V":
                    a, ta = self.bind("Py.SM.lift (Py.unwrap %s)" % a), "V"
                if ta == "V":
                    return self.bind("Py.SM.lift (env.as_native_integer %s)" % a), "Int"
            rc = self.receiver(f.value)
            if rc is not None and not (f.attr in rc[1].fns and rc[1].is_property(f.attr)):
                return self.call_method(rc, f.attr, n.args, n.keywords)
        raise Untranslatable("call %s" % fs)

    def narrowed_cb(self, attr: str) -> str:
        v = self.narrowed.get(attr) if hasattr(self, "narrowed") else None
        if v is None:
            raise Untranslatable("call of self.%s outside `if self.%s is not None`" % (attr, attr))
        return v

    def str_of(self, a: ast.AST) -> typing.Tuple[str, str]:
        # str(x if x is not None else "")
        if (isinstance(a, ast.IfExp) and isinstance(a.test, ast.Compare) and len(a.test.ops) == 1 and isinstance(a.test.ops[0], ast.IsNot)
                and isinstance(a.test.comparators[0], ast.Constant) and a.test.comparators[0].value is None
                and ast.dump(a.test.left) == ast.dump(a.body) and isinstance(a.orelse, ast.Constant) and a.orelse.value == ""):
            v, t = self.e(a.body)
            if t == "opt:V":
                return "(Py.strOfOpt env.str %s)" % v, "str"
        v, t = self.e(a)
        if t == "V":
            return "(env.str %s)" % v, "str"
        if t == "str":
            return v, "str"
        raise Untranslatable("str() of %s" % t)

    def isinstance_(self, a: ast.AST, c: ast.AST) -> typing.Tuple[str, str]:
        v, t = self.e(a)
        cs = ast.unparse(c)
        if t in ("V", "opt:V") and cs in ("_expression.Boolean", "_expression.Rational"):
            view = "env.view %s" % v if t == "V" else "Py.optView env.view %s" % v
            return "(%s).%s" % (view, "isBoolean" if cs.endswith("Boolean") else "isRational"), "bool"
        if t == "opt:mode" and attr_path(c) and attr_path(c)[-1] in self.w.modes:  # type: ignore[index]
            return "(SerializationMode.is%s %s)" % (attr_path(c)[-1], v), "bool"  # type: ignore[index]
        raise Untranslatable("isinstance(%s, %s)" % (t, cs))

    def construct(self, ci: ClassInfo, args: typing.List[ast.AST], kws: typing.List[ast.keyword]) -> typing.Tuple[str, str]:
        if ci.field_problem:
            raise Untranslatable("constructor of %s: %s" % (ci.name, ci.field_problem))
        params = ci.init_params
        if len(args) + len(kws) != len(params):
            raise Untranslatable("arguments of the constructor of %s" % ci.name)
        vals: typing.Dict[str, str] = {}
        for a, (pn, pt) in zip(args, params):
            vals[pn] = self.coerce(*self.e(a), pt)
        for k in kws:
            pt2 = dict(params).get(k.arg or "")
            if pt2 is None or k.arg in vals:
                raise Untranslatable("keyword %s of the constructor of %s" % (k.arg, ci.name))
            vals[k.arg] = self.coerce(*self.e(k.value), pt2)  # type: ignore[index]
        return ("(%s %s)" % (ci.lean_name("__init__"), " ".join(paren(vals[pn]) for pn, _ in params))).replace(" )", ")"), "obj:" + ci.name

    def lambda_(self, n: ast.Lambda, want: typing.Optional[str]) -> typing.Tuple[str, str]:
        if want == "act":
            a = n.args
            if a.args or a.vararg or a.kwarg or a.kwonlyargs or a.posonlyargs:
                raise Untranslatable("closure with parameters where a zero-argument callable is expected")
            # the body runs when the closure is CALLED: it becomes a computation that is bound here and run by the callee.
            # It may only capture locals that are never re-assigned (checked: `mut` locals are refused).
            for x in ast.walk(n.body):
                if isinstance(x, ast.Name) and x.id in self.mut:
                    raise Untranslatable("closure captures the re-assigned local %s" % x.id)
            saved_pre, saved_used = self.pre, self.used_self
            self.pre, self.used_self = [], False
            lines: typing.List[str] = []
            self.stmt(ast.Expr(value=n.body), "    ", lines)
            self.pre, self.used_self = saved_pre, saved_used
            name = "act%d" % (self.tmp + 1)
            self.tmp += 1
            self.pre.append("let %s : %s := (do" % (name, lean_ty("act", self.ci.state_ty)))
            self.pre += (lines or ["    pure ()"])
            self.pre[-1] += ")"
            return name, "act"
        if want is not None and want.startswith("act:"):
            a = n.args
            if len(a.args) != 1 or a.vararg or a.kwarg or a.kwonlyargs or a.posonlyargs or a.defaults:
                raise Untranslatable("closure that does not take exactly the object")
            for x in ast.walk(n.body):
                if isinstance(x, ast.Name) and (x.id in self.mut or x.id == self.selfname or x.id in self.aliases):
                    raise Untranslatable("closure on another object captures %s" % x.id)
            sub = MTr(self.w, self.w.classes[want[4:]], self.method, selfname=a.args[0].arg)
            sub.types = {k: v for k, v in self.types.items() if k != a.args[0].arg}
            sub.declared = set(sub.types)
            sub.node_param = self.node_param
            sub.tmp = self.tmp + 100
            lines2: typing.List[str] = []
            sub.stmt(ast.Expr(value=n.body), "    ", lines2)
            name = "act%d" % (self.tmp + 1)
            self.tmp += 1
            self.pre.append("let %s : %s := (do" % (name, lean_ty(want)))
            self.pre += (lines2 or ["    pure ()"])
            self.pre[-1] += ")"
            return name, want
        if want != "cb":
            raise Untranslatable("lambda where %s is expected" % want)
        for (ctor, captured, node, _m) in self.w.lambdas:
            if node is n:
                return ("(Callback.%s %s)" % (ctor, " ".join(lname(c) for c, _ in captured))).replace(" )", ")"), "cb"
        raise Untranslatable("lambda that was not collected")

    # ---- statements
    def flush(self, out: typing.List[str], ind: str) -> None:
        out.extend(ind + p for p in self.pre)
        self.pre = []

    def emit(self, out: typing.List[str], ind: str, lines: typing.List[str]) -> None:
        """pre-statements, then the statement itself, behind a snapshot of `self` when one of them reads it"""
        allp = self.pre + lines
        self.pre = []
        if self.used_self:
            out.append(ind + "let self ← Py.SM.get")
        self.used_self = False
        out.extend(ind + p for p in allp)

    def check_order(self, s: ast.AST, allow_call: bool = True, skip: typing.Optional[ast.AST] = None) -> None:
        lam: typing.Set[int] = set()
        for x in ast.walk(s):
            if isinstance(x, ast.Lambda):
                lam |= {id(y) for y in ast.walk(x.body)}
        calls = [x for x in ast.walk(s) if isinstance(x, ast.Call) and id(x) not in lam and self.w.is_state_changing_call(x)]
        if not calls:
            return
        if not allow_call:
            raise Untranslatable("state-changing call in a condition")
        if len(calls) > 1:
            raise Untranslatable("several state-changing calls in one statement")
        inside = {id(x) for x in ast.walk(calls[0])} | lam
        if skip is not None:
            inside |= {id(x) for x in ast.walk(skip)}
        for x in ast.walk(s):
            if isinstance(x, ast.Name) and x.id in (self.selfname,) + tuple(self.aliases) and id(x) not in inside:
                raise Untranslatable("statement reads %s around a state-changing call" % x.id)

    def is_skipped(self, s: ast.stmt) -> bool:
        if isinstance(s, ast.Pass):
            return True
        if isinstance(s, ast.Expr) and isinstance(s.value, ast.Constant) and isinstance(s.value.value, str):
            return True
        if isinstance(s, ast.Expr) and isinstance(s.value, ast.Call):
            p = attr_path(s.value.func)
            if p and p[0] == "_logger" and len(p) == 2:
                return True
        if isinstance(s, ast.Assign) and len(s.targets) == 1:
            t, v = s.targets[0], s.value
            if self.children_param and is_name(v, self.children_param):
                return True  # `a, _b, c = children` / `_ = children`: the components are parameters
            if self.children_param and isinstance(v, ast.Subscript) and is_name(v.value, self.children_param):
                return True
            _ = t
        return False

    def stmts(self, body: typing.List[ast.stmt], ind: str, out: typing.List[str]) -> None:
        for s in body:
            if self.is_skipped(s):
                continue
            self.stmt(s, ind, out)

    def stmt(self, s: ast.stmt, ind: str, out: typing.List[str]) -> None:
        if isinstance(s, ast.If):
            self.check_order(s.test, allow_call=False)
            self.if_stmt(s, ind, out)
            return
        if isinstance(s, ast.Try):
            self.try_stmt(s, ind, out)
            return
        if isinstance(s, ast.Assign) and len(s.targets) == 1:
            self.check_order(s, skip=s.targets[0])
        else:
            self.check_order(s)
        if isinstance(s, ast.Return):
            if s.value is None:
                self.emit(out, ind, ["return ()"])
                return
            v, t = self.e(s.value, want=self.ret)
            if t == "none":
                self.emit(out, ind, [])
                return
            self.emit(out, ind, ["return %s" % self.coerce(v, t, self.ret)])
            return
        if isinstance(s, ast.Raise):
            self.emit(out, ind, [self.raise_(s)])
            return
        if isinstance(s, ast.Assert):
            keep = [c for c in conjuncts(s.test) if not is_type_assertion(c)]
            if keep:
                parts = [self.truthy(*self.e(c)) for c in keep]
                self.emit(out, ind, ["Py.SM.assert %s" % ("(" + " && ".join(parts) + ")" if len(parts) > 1 else paren(parts[0]))])
            return
        if isinstance(s, (ast.Assign, ast.AnnAssign)):
            tgt = s.targets[0] if isinstance(s, ast.Assign) else s.target
            if (isinstance(s, ast.Assign) and len(s.targets) != 1) or s.value is None:
                raise Untranslatable("assignment shape")
            tc = s.type_comment if isinstance(s, ast.Assign) else None
            self.assign(tgt, s.value, tc, ind, out)
            return
        if isinstance(s, ast.AugAssign):
            self.augassign(s, ind, out)
            return
        if isinstance(s, ast.Expr) and isinstance(s.value, ast.Call):
            c = s.value
            f = c.func
            if isinstance(f, ast.Attribute) and f.attr == "append" and len(c.args) == 1 and not c.keywords \
                    and isinstance(f.value, ast.Attribute) and is_name(f.value.value, self.selfname) and self.ci.field(f.value.attr):
                lf, ft = self.ci.field(f.value.attr)  # type: ignore[misc]
                if not ft.startswith("list:"):
                    raise Untranslatable("append on %s" % ft)
                v = self.coerce(*self.e(c.args[0], ft[5:]), ft[5:])
                self.emit(out, ind, ["Py.SM.modify fun self => { self with %s := self.%s ++ [%s] }" % (lf, lf, v)])
                return
            self.e(c)
            self.emit(out, ind, [])
            return
        raise Untranslatable("statement %s" % type(s).__name__)

    def raise_(self, s: ast.Raise) -> str:
        if s.exc is None or (isinstance(s.exc, ast.Name) and s.exc.id == self.exc_var):
            if self.exc_var is None:
                raise Untranslatable("bare raise outside a handler")
            return "Py.SM.throw (.dsdl %s)" % lname(self.exc_var)
        if s.cause is not None and not (isinstance(s.cause, ast.Constant) and s.cause.value is None):
            raise Untranslatable("raise … from")
        x = s.exc
        if not isinstance(x, ast.Call) or not self.w.src.is_error_subclass(x.func):
            raise Untranslatable("raise %s" % ast.unparse(x)[:60])
        path, line = "none", "none"
        if len(x.args) > 1:
            raise Untranslatable("positional location arguments of %s" % ast.unparse(x.func))
        for k in x.keywords:
            if k.arg == "path":
                path = self.coerce(*self.e(k.value), "opt:P")
            elif k.arg == "line":
                line = self.coerce(*self.e(k.value), "opt:int")
            else:
                raise Untranslatable("keyword %s of %s" % (k.arg, ast.unparse(x.func)))
        return "Py.SM.throw (.dsdl (Error.init %s %s))" % (path, line)

    def assign(self, tgt: ast.AST, value: ast.AST, type_comment: typing.Optional[str], ind: str, out: typing.List[str]) -> None:
        if isinstance(tgt, ast.Name):
            if self.receiver(value) is not None and self.receiver(value)[0] == "last":  # type: ignore[index]
                if tgt.id in self.mut:
                    raise Untranslatable("alias %s re-assigned" % tgt.id)
                self.aliases[tgt.id] = value
                return
            want = ANNOTATIONS.get(type_comment) if type_comment else None
            v, t = self.e(value, want)
            if t in ("emptylist", "noneval"):
                if want is None:
                    raise Untranslatable("cannot type %s" % tgt.id)
                v, t = self.coerce(v, t, want), want
            if t == "none":
                raise Untranslatable("assignment of None")
            if tgt.id in self.declared:
                if self.types.get(tgt.id) != t or tgt.id not in self.mut:
                    raise Untranslatable("re-assignment of %s" % tgt.id)
                self.emit(out, ind, ["%s := %s" % (lname(tgt.id), v)])
            else:
                self.declared.add(tgt.id)
                self.types[tgt.id] = t
                self.emit(out, ind, ["%s %s : %s := %s" % ("let mut" if tgt.id in self.mut else "let", lname(tgt.id), lean_ty(t), v)])
            return
        if isinstance(tgt, ast.Attribute) and is_name(tgt.value, self.selfname) and self.ci.field(tgt.attr):
            lf, ft = self.ci.field(tgt.attr)  # type: ignore[misc]
            v, t = self.e(value, ft)
            self.emit(out, ind, ["Py.SM.modify fun self => { self with %s := %s }" % (lf, self.coerce(v, t, ft))])
            if hasattr(self, "narrowed"):
                self.narrowed.pop(tgt.attr, None)
            return
        raise Untranslatable("assignment to %s" % ast.unparse(tgt))

    def augassign(self, s: ast.AugAssign, ind: str, out: typing.List[str]) -> None:
        if not isinstance(s.op, ast.Add):
            raise Untranslatable("augmented assignment %s" % type(s.op).__name__)
        tgt = s.target
        if isinstance(tgt, ast.Name) and tgt.id in self.declared and tgt.id in self.mut:
            t = self.types[tgt.id]
            v, tv = self.e(s.value, t)
            if tv != t:
                raise Untranslatable("+= of %s to %s" % (tv, t))
            op = "+" if t == "int" else "++"
            self.emit(out, ind, ["%s := %s %s %s" % (lname(tgt.id), lname(tgt.id), op, v)])
            return
        if isinstance(tgt, ast.Attribute) and is_name(tgt.value, self.selfname) and self.ci.field(tgt.attr):
            lf, ft = self.ci.field(tgt.attr)  # type: ignore[misc]
            v, tv = self.e(s.value, ft)
            if tv != ft or not (ft in ("int", "str") or ft.startswith("list:")):
                raise Untranslatable("+= of %s to %s" % (tv, ft))
            op = "+" if ft == "int" else "++"
            self.emit(out, ind, ["Py.SM.modify fun self => { self with %s := self.%s %s %s }" % (lf, lf, op, v)])
            return
        raise Untranslatable("augmented assignment to %s" % ast.unparse(tgt))

    def if_stmt(self, s: ast.If, ind: str, out: typing.List[str]) -> None:
        t0 = s.test
        narrowing: typing.Optional[typing.Tuple[str, str]] = None
        if not hasattr(self, "narrowed"):
            self.narrowed: typing.Dict[str, str] = {}
        if (isinstance(t0, ast.Compare) and len(t0.ops) == 1 and isinstance(t0.ops[0], ast.IsNot) and isinstance(t0.left, ast.Attribute)
                and is_name(t0.left.value, self.selfname) and isinstance(t0.comparators[0], ast.Constant) and t0.comparators[0].value is None
                and (self.ci.field(t0.left.attr) or ("", ""))[1] == "opt:cb"):
            lf = self.ci.field(t0.left.attr)[0]  # type: ignore[index]
            var = lf + "_v"
            narrowing = (t0.left.attr, var)
            self.used_self = True
            self.emit(out, ind, ["if let some %s := self.%s then" % (var, lf)])
        else:
            c = self.truthy(*self.e(s.test))
            self.emit(out, ind, ["if %s then" % c])
        saved = dict(self.narrowed)
        if narrowing:
            self.narrowed[narrowing[0]] = narrowing[1]
        n0 = len(out)
        self.stmts(s.body, ind + "  ", out)
        if len(out) == n0:
            out.append(ind + "  pure ()")
        self.narrowed = dict(saved)
        if s.orelse:
            out.append(ind + "else")
            n1 = len(out)
            self.stmts(s.orelse, ind + "  ", out)
            if len(out) == n1:
                out.append(ind + "  pure ()")
        self.narrowed = dict(saved)

    def try_stmt(self, s: ast.Try, ind: str, out: typing.List[str]) -> None:
        if s.finalbody:
            raise Untranslatable("try / finally")
        # {"k": self.m, …}[key] with `except KeyError` and `else`
        if (len(s.body) == 1 and isinstance(s.body[0], ast.Assign) and len(s.body[0].targets) == 1 and isinstance(s.body[0].targets[0], ast.Name)
                and isinstance(s.body[0].value, ast.Subscript) and isinstance(s.body[0].value.value, ast.Dict)
                and len(s.handlers) == 1 and is_name(s.handlers[0].type, "KeyError") and s.handlers[0].name is None and s.orelse):
            self.dict_dispatch(s, ind, out)
            return
        if s.orelse:
            raise Untranslatable("try / else")
        mine = [h for h in s.handlers if h.type is not None and self.w.src.is_error_root(h.type)]
        for h in s.handlers:
            if h in mine:
                continue
            p = attr_path(h.type) if h.type is not None else None
            if p and p[0] == "parsimonious":
                continue  # a class defined outside pydsdl: it matches neither `.dsdl` nor any exception of the translated fragment
            raise Untranslatable("handler for %s" % (ast.unparse(h.type) if h.type is not None else "everything"))
        if len(mine) != 1 or s.handlers[0] is not mine[0] or mine[0].name is None:
            raise Untranslatable("the handler for _error.Error must come first and bind the exception")
        h = mine[0]
        if not h.body or not isinstance(h.body[-1], ast.Raise):
            raise Untranslatable("handler that does not end with raise")
        out.append(ind + "Py.SM.tryCatch (do")
        n0 = len(out)
        self.stmts(s.body, ind + "    ", out)
        if len(out) == n0:
            out.append(ind + "    pure ()")
        out[-1] += ")"
        out.append(ind + "  (fun ex => match ex with")
        out.append(ind + "    | .dsdl %s => do" % lname(h.name))
        out.append(ind + "      let mut %s := %s" % (lname(h.name), lname(h.name)))
        saved = self.exc_var
        self.exc_var = h.name
        self.stmts(h.body, ind + "      ", out)
        self.exc_var = saved
        out.append(ind + "    | ex => Py.SM.throw ex)")

    def dict_dispatch(self, s: ast.Try, ind: str, out: typing.List[str]) -> None:
        asg = s.body[0]
        assert isinstance(asg, ast.Assign) and isinstance(asg.value, ast.Subscript) and isinstance(asg.value.value, ast.Dict)
        name = asg.targets[0].id  # type: ignore[attr-defined]
        d = asg.value.value
        key, tk = self.e(asg.value.slice)
        if tk != "str" or self.pre:
            raise Untranslatable("dictionary key of type %s" % tk)
        hb = s.handlers[0].body
        if len(hb) != 1 or not isinstance(hb[0], ast.Raise):
            raise Untranslatable("KeyError handler")
        first = True
        for k, v in zip(d.keys, d.values):
            if not (isinstance(k, ast.Constant) and isinstance(k.value, str) and isinstance(v, ast.Attribute) and is_name(v.value, self.selfname)):
                raise Untranslatable("dictionary entry %s" % ast.unparse(v))
            out.append("%s%s %s == %s then" % (ind, "if" if first else "else if", key, lean_str(k.value)))
            first = False
            self.callables[name] = v.attr
            self.stmts(s.orelse, ind + "  ", out)
            del self.callables[name]
        out.append(ind + "else")
        self.stmt(hb[0], ind + "  ", out)


class Sig:
    def __init__(self) -> None:
        self.params: typing.List[typing.Tuple[str, str, typing.Optional[ast.AST]]] = []  # python name, type, default
        self.ret = "none"
        self.node_param: typing.Optional[str] = None
        self.children_param: typing.Optional[str] = None
        self.lean_params: typing.List[typing.Tuple[str, str]] = []  # lean binder name, type


def method_signature(w: World, ci: ClassInfo, m: str) -> Sig:
    f = ci.fns[m]
    a = f.args
    if a.vararg or a.kwarg or a.posonlyargs or a.kwonlyargs or not a.args or a.args[0].arg != "self":
        raise Untranslatable("parameter list of %s" % m)
    if any(not is_name(d, "property") for d in f.decorator_list):
        raise Untranslatable("decorator on %s" % m)
    sig = Sig()
    defaults = [None] * (len(a.args) - 1 - len(a.defaults)) + list(a.defaults)
    for p, d in zip(a.args[1:], defaults):
        t = ann_type(p.annotation)
        if t == "node":
            sig.node_param = p.arg
            uses = [n for n in ast.walk(f) if isinstance(n, ast.Name) and n.id == p.arg]
            if uses:
                sig.params.append((p.arg, "node", None))
                sig.lean_params.append(("node_text", "str"))
        elif t == "children":
            sig.children_param = p.arg
            comps = children_components(f, p.arg)
            for cn, ct in comps:
                sig.params.append((cn, ct, None))
                sig.lean_params.append((lname(cn), ct))
        else:
            sig.params.append((p.arg, t, d))
            sig.lean_params.append((lname(p.arg), t))
    sig.ret = ann_type(f.returns)
    return sig


def children_components(f: ast.FunctionDef, cp: str) -> typing.List[typing.Tuple[str, str]]:
    """the components of `children` the method binds to names and type-asserts, in binding order"""
    names: typing.List[str] = []
    for n in ast.walk(f):
        if isinstance(n, ast.Assign) and len(n.targets) == 1:
            t, v = n.targets[0], n.value
            if is_name(v, cp):
                if isinstance(t, ast.Tuple) and all(isinstance(x, ast.Name) for x in t.elts):
                    names += [x.id for x in t.elts]  # type: ignore[attr-defined]
                elif isinstance(t, ast.Name):
                    names.append(t.id)
                else:
                    raise Untranslatable("unpacking of %s" % cp)
            elif isinstance(v, ast.Subscript) and is_name(v.value, cp):
                if not isinstance(t, ast.Name):
                    raise Untranslatable("unpacking of %s" % cp)
                names.append(t.id)
    uses = [n for n in ast.walk(f) if isinstance(n, ast.Name) and n.id == cp and isinstance(n.ctx, ast.Load)]
    binds = sum(1 for n in ast.walk(f) if isinstance(n, ast.Assign) and any(is_name(x, cp) for x in ast.walk(n.value)))
    if len(uses) != binds:
        raise Untranslatable("%s is used other than by unpacking" % cp)
    typed: typing.Dict[str, str] = {}
    for n in ast.walk(f):
        if isinstance(n, ast.Assert):
            for c in conjuncts(n.test):
                if isinstance(c, ast.Call) and is_name(c.func, "isinstance") and len(c.args) == 2 and isinstance(c.args[0], ast.Name):
                    cs = ast.unparse(c.args[1])
                    if c.args[0].id in names and cs in ISINSTANCE_TYPES:
                        typed[c.args[0].id] = ISINSTANCE_TYPES[cs]
    out: typing.List[typing.Tuple[str, str]] = []
    for nm in names:
        loads = [n for n in ast.walk(f) if isinstance(n, ast.Name) and n.id == nm and isinstance(n.ctx, ast.Load)]
        if nm in typed:
            out.append((nm, typed[nm]))
        elif loads:
            raise Untranslatable("component %s of %s is used but not type-asserted" % (nm, cp))
    return out


# ------------------------------------------------------------------------------------------------ definitions

ENV_ARG = "(env : Env P T V A H)"
EXT_TY = "(ext : X → Py.SM (BuilderS P T V A L H) (Exc P) Unit)"


def binders(ps: typing.List[typing.Tuple[str, str]], state_ty: typing.Optional[str] = None) -> str:
    return " ".join("(%s : %s)" % (n, lean_ty(t, state_ty)) for n, t in ps)


def def_header(w: World, ci: ClassInfo, m: str, sig: Sig) -> str:
    parts = ["def %s" % ci.lean_name(m)]
    if ci.env:
        parts.append(ENV_ARG)
    if sig.lean_params:
        parts.append(binders(sig.lean_params, ci.state_ty))
    return "%s : Py.SM %s (Exc P) %s :=" % (" ".join(parts), paren(ci.state_ty), paren(lean_ty(sig.ret)))


def new_mtr(w: World, ci: ClassInfo, m: str, sig: Sig, selfname: str = "self") -> MTr:
    tr = MTr(w, ci, m, selfname)
    tr.ret = sig.ret
    tr.node_param = sig.node_param
    tr.children_param = sig.children_param
    for pn, pt, _ in sig.params:
        if pt != "node":
            tr.types[pn] = pt
            tr.declared.add(pn)
    return tr


def assignment_counts(body: typing.List[ast.stmt]) -> typing.Dict[str, int]:
    cnt: typing.Dict[str, int] = {}
    for n in ast.walk(ast.Module(body=body, type_ignores=[])):
        if isinstance(n, ast.Assign):
            for t in n.targets:
                if isinstance(t, ast.Name):
                    cnt[t.id] = cnt.get(t.id, 0) + 1
        elif isinstance(n, ast.AugAssign) and isinstance(n.target, ast.Name):
            cnt[n.target.id] = cnt.get(n.target.id, 0) + 2
    return cnt


def translate_method(w: World, ci: ClassInfo, m: str) -> typing.List[str]:
    if ci.field_problem:
        raise Untranslatable(ci.field_problem)
    f = ci.fns[m]
    sig = method_signature(w, ci, m)
    if ci.is_property(m) and (sig.params or m in w.mutating_names):
        raise Untranslatable("property with parameters or side effects")
    tr = new_mtr(w, ci, m, sig)
    tr.mut = {k for k, v in assignment_counts(f.body).items() if v > 1}
    if any(p in tr.mut for p, _, _ in sig.params):
        raise Untranslatable("parameter re-assigned")
    body: typing.List[str] = []
    tr.stmts(f.body, "  ", body)
    if not body:
        body.append("  pure ()")
    return [def_header(w, ci, m, sig) + " do"] + body


def failing_stub(w: World, ci: ClassInfo, m: str, why: str) -> typing.List[str]:
    why = why.replace("\\", "/").replace('"', "'")[:200]
    try:
        head = def_header(w, ci, m, method_signature(w, ci, m))
    except (Untranslatable, KeyError):
        head = "def %s : Py.SM %s (Exc P) Unit :=" % (ci.lean_name(m), paren(ci.state_ty))
    return [head, '  Py.SM.throw (.py (.other "untranslatable: %s"))' % why]


def translate_init(w: World, ci: ClassInfo) -> typing.List[str]:
    if ci.field_problem:
        raise Untranslatable(ci.field_problem)
    tr = MTr(w, ci, "__init__")
    for pn, pt in ci.init_params:
        tr.types[pn] = pt
    vals = []
    for attr, (lf, ft) in ci.fields.items():
        v, t = tr.e(ci.init_values[lf], ft)
        if tr.pre or tr.used_self:
            raise Untranslatable("__init__ value of %s may raise or reads self" % attr)
        vals.append("%s := %s" % (lf, tr.coerce(v, t, ft)))
    head = ("def %s %s" % (ci.lean_name("__init__"), binders([(lname(p), t) for p, t in ci.init_params]))).strip()
    return ["%s : %s :=" % (head, ci.state_ty), "  { %s }" % ", ".join(vals)]


def collect_lambdas(w: World, ci: ClassInfo) -> None:
    for m in ci.translated():
        f = ci.fns.get(m)
        if f is None:
            continue
        try:
            sig = method_signature(w, ci, m)
        except Untranslatable:
            continue
        k = 0
        for n in ast.walk(f):
            if isinstance(n, ast.Lambda) and n.args.args:  # closures without parameters are computations, see MTr.lambda_
                ptypes = {pn: pt for pn, pt, _ in sig.params}
                free = []
                for x in ast.walk(n.body):
                    if isinstance(x, ast.Name) and x.id in ptypes and (x.id, ptypes[x.id]) not in free:
                        free.append((x.id, ptypes[x.id]))
                w.lambdas.append((m + ("_%d" % k if k else ""), free, n, m))
                k += 1


def translate_callback(w: World, ci: ClassInfo) -> typing.Tuple[typing.List[str], typing.List[str]]:
    """(the inductive type of the closures, the definition that calls one)"""
    ind = ["/-- the closures `lambda doc: …` of `%s`: the variables each one captures (`self` is read when the closure is called) -/" % ci.name,
           "inductive Callback (T V : Type) where"]
    for ctor, free, n, m in w.lambdas:
        for _, t in free:
            if t not in ("T", "V", "str", "int", "bool"):
                raise Untranslatable("closure in %s captures a value of type %s" % (m, t))
        ind.append(("  | %s %s" % (ctor, binders([(lname(a), t) for a, t in free]))).rstrip())
    if not w.lambdas:
        ind.append("  | none_found")
    ind.append("  deriving DecidableEq, Repr")
    pnames = set()
    for _, _, n, m in w.lambdas:
        a = n.args
        if len(a.args) != 1 or a.vararg or a.kwarg or a.kwonlyargs or a.defaults:
            raise Untranslatable("parameter list of the closure in %s" % m)
        pnames.add(a.args[0].arg)
    if len(pnames) > 1:
        raise Untranslatable("the closures name their parameter differently: %s" % sorted(pnames))
    pn = (sorted(pnames) or ["doc"])[0]
    body = ["def %s.element_callback_call %s (cb : Callback T V) (%s : Py.Str) : Py.SM %s (Exc P) Unit :=" % (ci.lean, ENV_ARG, lname(pn), paren(ci.state_ty)),
            "  match cb with"]
    for ctor, free, n, m in w.lambdas:
        tr = MTr(w, ci, m)
        for a, t in free:
            tr.types[a] = t
        tr.types[pn] = "str"
        body.append(("  | .%s %s => do" % (ctor, " ".join(lname(a) for a, _ in free))).replace("  =>", " =>"))
        lines: typing.List[str] = []
        tr.stmt(ast.Expr(value=n.body), "    ", lines)
        body += lines or ["    pure ()"]
    if not w.lambdas:
        body.append("  | .none_found => pure ()")
    return ind, body


def event_ctor(m: str) -> str:
    return lname(m[len("visit_"):])


def translate_events(w: World, ci: ClassInfo, ok: typing.Set[str]) -> typing.List[str]:
    out = ["/-- one event per grammar node a translated visitor reacts to, in the order the visitors run (children first); `other` stands for",
           "    every other visitor -/", "inductive Event (T V X : Type) where"]
    visits = [m for m in ci.spec["methods"] if m.startswith("visit_") and m in ci.fns]
    sigs = {}
    for m in visits:
        try:
            sigs[m] = method_signature(w, ci, m)
        except Untranslatable:
            sigs[m] = None
    for m in visits:
        if sigs[m] is None:
            out.append("  | %s" % event_ctor(m))
        else:
            out.append(("  | %s %s" % (event_ctor(m), binders(sigs[m].lean_params))).rstrip())
    out.append("  | other (x : X)")
    out.append("  deriving DecidableEq, Repr")
    out.append("")
    out.append("/-- `NodeVisitor.visit` on one node: `getattr(self, 'visit_' + node.expr_name)` -/")
    out.append("def %s.visit %s %s : Event T V X → Py.SM %s (Exc P) Unit" % (ci.lean, ENV_ARG, EXT_TY, paren(ci.state_ty)))
    for m in visits:
        s = sigs[m]
        if s is None:
            out.append('  | .%s => Py.SM.throw (.py (.other "untranslatable"))' % event_ctor(m))
            continue
        args = " ".join(n for n, _ in s.lean_params)
        call = ("%s env %s" % (ci.lean_name(m), args)).strip()
        pat = (".%s %s" % (event_ctor(m), args)).strip()
        if s.ret == "none":
            out.append("  | %s => %s" % (pat, call))
        else:
            out.append("  | %s => do let _ ← %s; pure ()" % (pat, call))
    f = ci.field("_statement_stream_processor")
    if f is None:
        raise Untranslatable("no attribute _statement_stream_processor")
    out.append("  | .other x => %s (ext x)" % (ZOOM_FIELD % (f[0], f[0])))
    return out


def frame_check(w: World, ci: ClassInfo) -> typing.List[str]:
    """no untranslated method of the visitor class assigns one of its attributes or calls a state-changing translated method"""
    probs = []
    for m, f in ci.fns.items():
        if m in ci.translated() or m == "__init__":
            continue
        for n in ast.walk(f):
            tgts: typing.List[ast.AST] = []
            if isinstance(n, ast.Assign):
                tgts = list(n.targets)
            elif isinstance(n, (ast.AugAssign, ast.AnnAssign)):
                tgts = [n.target]
            for t in tgts:
                base = t.value if isinstance(t, ast.Subscript) else t
                if isinstance(base, ast.Attribute) and is_name(base.value, "self"):
                    probs.append("%s.%s (not translated) assigns self.%s" % (ci.name, m, base.attr))
            if isinstance(n, ast.Call) and isinstance(n.func, ast.Attribute) and is_name(n.func.value, "self") \
                    and n.func.attr in ci.translated() and n.func.attr in w.mutating_names:
                probs.append("%s.%s (not translated) calls self.%s" % (ci.name, m, n.func.attr))
            if isinstance(n, ast.Call) and any(is_name(a, "self") for a in n.args):
                probs.append("%s.%s (not translated) passes self to %s" % (ci.name, m, ast.unparse(n.func)))
    # a class-level alias `visit_x = visit_y` of a translated state-changing method would be an event the dispatcher does not know
    assert ci.node is not None
    for s in ci.node.body:
        if isinstance(s, ast.Assign) and isinstance(s.value, ast.Name) and s.value.id in ci.translated():
            probs.append("%s: class-level alias of the translated method %s" % (ci.name, s.value.id))
    return probs


def translate_parse(w: World) -> typing.List[str]:
    ci = w.classes["_ParseTreeProcessor"]
    fn = [n for n in w.src.tree["_parser"].body if isinstance(n, ast.FunctionDef) and n.name == "parse"]
    if not fn:
        raise Untranslatable("function parse not found")
    f = fn[0]
    if ci.field_problem:
        raise Untranslatable(ci.field_problem)
    ptypes: typing.Dict[str, str] = {}
    for p in f.args.args + f.args.kwonlyargs:
        ptypes[p.arg] = ann_type(p.annotation)
    body = [s for s in f.body if not (isinstance(s, ast.Expr) and isinstance(s.value, ast.Constant))]
    if len(body) != 2 or not isinstance(body[0], ast.Assign) or not isinstance(body[1], ast.Try):
        raise Untranslatable("shape of parse: construction of the visitor, then one try statement")
    a0 = body[0]
    if not (len(a0.targets) == 1 and isinstance(a0.targets[0], ast.Name) and isinstance(a0.value, ast.Call)
            and is_name(a0.value.func, "_ParseTreeProcessor")):
        raise Untranslatable("first statement of parse")
    pr = a0.targets[0].id
    tr = MTr(w, ci, "parse", selfname=pr)
    tr.types = {k: v for k, v in ptypes.items()}
    tr.declared = set(ptypes)
    init, _ = tr.construct(ci, a0.value.args, a0.value.keywords)
    if tr.pre:
        raise Untranslatable("constructor arguments that may raise")
    used = [p for p in ptypes if any(isinstance(x, ast.Name) and x.id == p for x in ast.walk(a0.value))]
    visit_pattern = "%s.visit(_get_grammar().parse(text))" % pr

    orig_stmt = tr.stmt

    def stmt(s: ast.stmt, ind: str, out: typing.List[str]) -> None:
        if isinstance(s, ast.Expr) and ast.unparse(s.value) == visit_pattern and ptypes.get("text") == "str":
            out.append("%sPy.SM.forEach events (%s.visit env ext)" % (ind, ci.lean))
            return
        orig_stmt(s, ind, out)

    tr.stmt = stmt  # type: ignore[method-assign]
    lines: typing.List[str] = []
    tr.stmt(body[1], "    ", lines)
    head = ["def parse %s %s (events : List (Event T V X)) %s :" % (ENV_ARG, EXT_TY, binders([(lname(p), ptypes[p]) for p in used])),
            "    Py.Res %s (Exc P) Unit :=" % paren(ci.state_ty),
            "  Py.SM.run (do"]
    lines[-1] += ")"
    return head + lines + ["    %s" % init]


def translate_reader(repo: Path) -> typing.Tuple[str, typing.List[str]]:
    src = Sources(repo)
    problems = list(src.problems)
    w = World(src)
    out = ["import PyState", "/-! GENERATED by tools/py2lean.py (reader group: %s) -- do not edit. -/" % ", ".join(FILES.values()),
           "set_option linter.unusedVariables false", "", "namespace Gen.Reader", "variable {P T V A L H X : Type}", ""]
    # ---- the exception object and the state structures
    for cname in CLASSES:
        ci = w.classes[cname]
        if ci.node is None:
            problems.append("%s: class %s not found" % (FILES[ci.mod], cname))
    if w.mode_problem:
        problems.append("%s: serialization modes: %s" % (FILES["_data_schema_builder"], w.mode_problem))
    out += ["/-- the classes derived from `%s` -/" % MODE_BASE, "inductive SerializationMode where"]
    for name, fields in w.modes.items():
        out.append(("  | %s %s" % (name, binders(fields))).rstrip())
    if not w.modes:
        out.append("  | untranslatable")
    out += ["  deriving DecidableEq, Repr", ""]
    for name in w.modes:
        out += ["def SerializationMode.is%s : Option SerializationMode → Bool" % name, "  | some (.%s ..) => true" % name, "  | _ => false", ""]
    try:
        collect_lambdas(w, w.classes["DataTypeBuilder"])
        cb_ind, cb_call = translate_callback(w, w.classes["DataTypeBuilder"])
    except Untranslatable as ex:
        problems.append("%s DataTypeBuilder closures: %s" % (FILES["_data_type_builder"], ex))
        cb_ind = ["inductive Callback (T V : Type) where", "  | untranslatable"]
        cb_call = ["def DataTypeBuilder.element_callback_call %s (cb : Callback T V) (doc : Py.Str) : Py.SM (BuilderS P T V A L H) (Exc P) Unit :=" % ENV_ARG,
                   '  Py.SM.throw (.py (.other "untranslatable"))']
    out += cb_ind + [""]
    for cname in ["Error", "DataSchemaBuilder", "DataTypeBuilder", "_ParseTreeProcessor"]:
        ci = w.classes[cname]
        tps = ci.state_ty.split(" ")[1:]
        out.append("/-- the state of a `%s`: the attributes its `__init__` assigns%s -/" % (cname, " (those of the table)" if "fields" in ci.spec else ""))
        out.append("structure %s %s where" % (ci.state, " ".join("(%s : Type)" % t for t in tps)))
        if ci.field_problem or not ci.fields:
            problems.append("%s %s.__init__: %s" % (FILES[ci.mod], cname, ci.field_problem or "no attributes"))
            out.append("  untranslatable : Unit")
        else:
            for _, (lf, ft) in ci.fields.items():
                out.append("  %s : %s" % (lf, lean_ty(ft)))
        out.append("  deriving DecidableEq, Repr")
        out.append("")
        if cname == "Error":
            out += ["abbrev Exc (P : Type) := Py.Exc (ErrorS P)", ""]
    # ---- opaque callees
    out += ["/-- what the translated code calls but this module does not translate -/", "structure Env (P T V A H : Type) where"]
    for name, args, ret, raises, doc in ENV:
        rt = lean_ty(ret) if ret != "Py.ExprView" else ret
        out.append("  /-- `%s` -/" % doc)
        out.append("  %s : %s → %s" % (name, " → ".join(lean_ty(a) for a in args), "Except (Exc P) %s" % paren(rt) if raises else rt))
    out.append("")
    err_ok = w.classes["Error"].init_params == [("path", "opt:P"), ("line", "opt:int")]
    if not err_ok and not w.classes["Error"].field_problem:
        problems.append("%s Error.__init__: expected the attributes path and line" % FILES["_error"])
    # ---- constructors and methods
    ok_methods: typing.Set[str] = set()
    for cname in ["Error", "DataSchemaBuilder", "DataTypeBuilder", "_ParseTreeProcessor"]:
        ci = w.classes[cname]
        if ci.node is None:
            continue
        try:
            body = translate_init(w, ci)
            out.append("/- %s.__init__  %s -/" % (cname, src.span(ci.mod, ci.fns["__init__"])))
            out += body + [""]
        except (Untranslatable, KeyError) as ex:
            if not ci.field_problem:
                problems.append("%s %s.__init__: %s" % (FILES[ci.mod], cname, ex))
            out += ["def %s : %s := untranslatable_constructor" % (ci.lean_name("__init__"), ci.state_ty), ""]
        if cname == "DataTypeBuilder":
            out += cb_call + [""]
        for m in ci.ordered_methods():
            try:
                if m not in ci.fns:
                    raise Untranslatable("not found")
                body = translate_method(w, ci, m)
                out.append("/- %s.%s  %s -/" % (cname, m, src.span(ci.mod, ci.fns[m])))
                if m in ci.helpers:  # found through the call graph: the bridge unfolds it wherever it is called
                    body[0] = "@[py_helper] " + body[0]
                ok_methods.add(m)
            except Untranslatable as ex:
                problems.append("%s %s.%s: %s" % (FILES[ci.mod], cname, m, ex))
                body = failing_stub(w, ci, m, str(ex))
            out += body + [""]
    # ---- events, the dispatcher, parse
    pci = w.classes["_ParseTreeProcessor"]
    if pci.node is not None:
        problems += ["%s %s" % (FILES["_parser"], p) for p in frame_check(w, pci)]
        try:
            out += translate_events(w, pci, ok_methods) + [""]
        except Untranslatable as ex:
            problems.append("%s events: %s" % (FILES["_parser"], ex))
        try:
            body = translate_parse(w)
            fn = [n for n in src.tree["_parser"].body if isinstance(n, ast.FunctionDef) and n.name == "parse"][0]
            out.append("/- parse  %s -/" % src.span("_parser", fn))
            out += body + [""]
        except Untranslatable as ex:
            problems.append("%s parse: %s" % (FILES["_parser"], ex))
            out += ["def parse %s %s (events : List (Event T V X)) (statement_stream_processor : BuilderS P T V A L H) (strict : Bool) :" % (ENV_ARG, EXT_TY),
                    "    Py.Res (ParserS P T V A L H) (Exc P) Unit :=",
                    '  (.error (.py (.other "untranslatable")), ParseTreeProcessor.init statement_stream_processor strict)', ""]
    out.append("end Gen.Reader")
    return "\n".join(out) + "\n", problems


if __name__ == "__main__":
    import sys
    text, probs = translate_reader(Path(sys.argv[1] if len(sys.argv) > 1 else "/repo"))
    print(text)
    for p in probs:
        print("py2lean: [Gen.Reader] " + p, file=sys.stderr)
