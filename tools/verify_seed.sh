#!/bin/sh
# tools/verify_seed.sh <ID> <n> : confirm a seeded change in its scratch worktree (/tmp/seed/<ID>):
# suite passes with it, demo fails with it and passes without it. Prints a JSON fragment for meta.json.
ID="$1"; N="$2"; W=/tmp/seed/$ID; O=/tmp/seed/$ID-out/$N
cd "$W" || exit 2
git checkout -q -- . ; git clean -fdq
cp "$O/demo.py" "$W/demo_seed.py"
/venv/bin/python demo_seed.py >/dev/null 2>&1; CLEAN=$?
git apply "$O/patch.diff" || { echo "apply failed"; exit 2; }
/venv/bin/python demo_seed.py >/dev/null 2>&1; MUT=$?
T=$(/venv/bin/python -m pytest -q -p no:cacheprovider --timeout=900 2>&1 | tail -1)
git checkout -q -- . ; rm -f demo_seed.py; git clean -fdq
echo "{\"demo_exit_clean\": $CLEAN, \"demo_exit_mutated\": $MUT, \"suite_with_change\": \"$T\"}"
