"""
File-name group of py2lean: the part of `DSDLDefinition.__init__` (pydsdl/_dsdl_definition.py) that turns the path of a file
relative to its root namespace directory into (full name, version, fixed port-ID) or raises `FileNameFormatError`, the helper
`_parse_decimal`, and the name-shape guards of `CompositeType.__init__` (pydsdl/_serializable/_composite.py).
Output: lean/Gen/FileName.lean and lean/Gen/CompositeName.lean (one generated module per Python source file, so that a change
in one file breaks only the bridge of that file).

The fragment (everything else raises Untranslatable -> the target becomes an always-failing stub, the problem is printed as
`py2lean: [Gen.FileName] ...` and py2lean exits with status 3):

  types        str, str | None, list of str, int (Lean `Int`: `int()` may return negative numbers), int | None, bool,
               len() results / non-negative literals (`Nat`), Version (pair of int)
  expressions  string / non-negative integer literals, None (typed by the annotation or the earlier type of the variable),
               locals, attribute paths listed in the item (`relative_path.name` ...), class constants listed in CONSTANTS,
               `s.split(c)` and `c in s` / `c not in s` for a one-character literal c, `l[:-1]`, `len(x)`, `list(l)`, `str(s)`,
               `l + [s]`, `sep.join(l)`, `s.isascii()`, `s.isdigit()`, `int(s)` (one argument), `not s`, `not b`,
               `and` / `or` with short-circuit evaluation of operands that may raise, `==` `!=` `<` `<=` `>` `>=` on numbers,
               `x is None` / `x is not None`, calls of translated module-level functions, `Version(major=a, minor=b)`, tuples,
               calls of helper functions / static methods of the same module or class (translated on demand into local functions
               of the generated definition; parameters whose annotation has no type here, e.g. the path quoted in error
               messages, are opaque: the helper must not compute with them)
               tuples with starred elements and `tuple(l)` where the length of the list is known from an enclosing / preceding
               `len(l) == k` guard (otherwise the static type of the tuple is unknown: refused), `[*l, x]`, `l[i]` for a literal i
               (IndexError), `x if c else y` (only the chosen operand is evaluated), `len(l) in (3, 4)`, `any(...)` / `all(...)` of a
               pure condition over a list of str, truth value of a str / list / optional tuple as a condition, `T | None` of a
               tuple type (a helper that returns None for "malformed")
  discovery    nothing private is found by its name alone: `_parse_decimal` is the one function (str) -> int in the call graph of
               the constructor; the path of the file relative to the root is the local assigned `<root>.name /
               <file>.relative_to(<root>)`; the result attributes are the ones behind the properties full_name / version /
               fixed_port_id (and name_components / full_name of CompositeType); parameters keep their source names; an
               attribute that is only initialised to None and never read in the slice is left out; constructor guards are also
               collected from `self._m()` methods called by the constructor, and their number is not prescribed (the bridge
               theorem characterises what they accept together)
  flow facts   after `if x is None: raise/return` (or its mirror image) x is known not to be None; inside / after a guard on
               `len(l)` the length is known
  statements   (annotated) assignment to a local or to `self._x`, tuple unpacking of a list of str (a ValueError unless the
               length fits, as in Python), if / elif / else (a variable first assigned inside a branch must be assigned on every
               path that falls through: definite assignment is checked), `raise C(...) [from None]` (C resolved through the
               class hierarchy of the package: a subclass of ValueError is not accepted under another name),
               `try: <one assignment> except ValueError: raise ...`, `for x in l:` over a list of str with a body of guards,
               `return e` / `return a, b, c`, unpacking of a tuple of known length, docstrings, `pass`
"""
from __future__ import annotations

import ast
import hashlib
import typing
from pathlib import Path


class Untranslatable(Exception):
    pass


DEFINITION = "pydsdl/_dsdl_definition.py"
COMPOSITE = "pydsdl/_serializable/_composite.py"
ERROR = "pydsdl/_error.py"

LEAN_TY = {"str": "String", "optstr": "Option String", "strlist": "List String", "int": "Int", "optint": "Option Int", "bool": "Bool",
           "nat": "Nat", "ver": "Int × Int", "unit": "Unit", "fname": "FileNameI"}
OPT = {"str": "optstr", "int": "optint"}
UNOPT = {v: k for k, v in OPT.items()}


def tup(ts: typing.List[str]) -> str:
    return "tup(" + ";".join(ts) + ")"


def untup(t: str) -> typing.Optional[typing.List[str]]:
    return t[4:-1].split(";") if t.startswith("tup(") else None


def opt_of(t: str) -> str:
    return OPT.get(t) or "opt(%s)" % t


def unopt(t: typing.Optional[str]) -> typing.Optional[str]:
    """The base type of an optional type, None for every other type."""
    if t is None:
        return None
    if t in UNOPT:
        return UNOPT[t]
    return t[4:-1] if t.startswith("opt(") else None


def lean_ty(t: str) -> str:
    if t.startswith("opt("):
        return "Option (%s)" % lean_ty(t[4:-1])
    parts = untup(t)
    if parts is not None:
        return " × ".join("(%s)" % lean_ty(x) if " " in lean_ty(x) else lean_ty(x) for x in parts)
    return LEAN_TY[t]

KEYWORDS = {"end", "at", "from", "by", "do", "then", "fun", "let", "in", "open", "show", "have", "match", "with", "where", "instance",
            "class", "structure", "def", "theorem", "mut", "type", "default", "some", "none"}

FILENAME_PREAMBLE = [
    "/-- What `DSDLDefinition.__init__` derives from the path of a file below its root namespace directory:",
    "    `self._name`, `self._version.major`, `self._version.minor`, `self._fixed_port_id`. -/",
    "structure FileNameI where",
    "  name : String",
    "  major : Int",
    "  minor : Int",
    "  fixed_port_id : Option Int",
    "  deriving DecidableEq, Repr",
    "",
]

# class constants the items assume (checked against the source on every run); value -> Lean literal by type
CONSTANTS = {
    "CompositeType.NAME_COMPONENT_SEPARATOR": (COMPOSITE, "CompositeType", "NAME_COMPONENT_SEPARATOR", "."),
    "self.NAME_COMPONENT_SEPARATOR": (COMPOSITE, "CompositeType", "NAME_COMPONENT_SEPARATOR", "."),
    "self.MAX_NAME_LENGTH": (COMPOSITE, "CompositeType", "MAX_NAME_LENGTH", 255),
    "CompositeType.MAX_NAME_LENGTH": (COMPOSITE, "CompositeType", "MAX_NAME_LENGTH", 255),
}

FILENAME_ITEMS: typing.List[dict] = [
    {"name": "parse_decimal", "source": DEFINITION, "cls": None, "fn": "_parse_decimal", "kind": "function",
     "params": [("text", "str")], "ret": "int", "paths": {}, "consts": [],
     # found through the call graph of the constructor by its signature (str) -> int; the name is only the fallback
     "discover": {"from": ("DSDLDefinition", "__init__"), "params": ["str"], "ret": "int"}},
    {"name": "DSDLDefinition.init", "source": DEFINITION, "cls": "DSDLDefinition", "fn": "__init__", "kind": "slice",
     "params": [("root_namespace_name", "str"), ("basename", "str"), ("parent_parts", "strlist")], "ret": "fname",
     # attribute paths the slice may read -> parameter
     "paths": {"self._root_namespace_path.name": ("root_namespace_name", "str"), "relative_path.name": ("basename", "str"),
               "relative_path.parent.parts": ("parent_parts", "strlist")},
     # path algebra (pathlib) and the cache slot: not part of the slice; nothing else may be skipped
     # (both tables are the fallback: the statement `rel = <root>.name / <file>.relative_to(<root>)` is looked up by its shape)
     "skip_targets": ["relative_path"],
     "consts": ["CompositeType.NAME_COMPONENT_SEPARATOR"],
     "calls": {"_parse_decimal": ("Gen.parse_decimal", ["str"], "int")},
     "discover_calls": {"Gen.parse_decimal": {"from": ("DSDLDefinition", "__init__"), "params": ["str"], "ret": "int"}},
     # the attributes behind the public properties (fallback: today's names)
     "result_properties": ["full_name", "version", "fixed_port_id"],
     "result": ["self._name", "self._version", "self._fixed_port_id"]},
]

COMPOSITE_ITEMS: typing.List[dict] = [
    {"name": "CompositeType.check_name_shape", "source": COMPOSITE, "cls": "CompositeType", "fn": "__init__", "kind": "guards",
     "params": [("name", "str")], "ret": "unit", "paths": {"self._name": ("name", "str")},
     "consts": ["self.NAME_COMPONENT_SEPARATOR", "self.MAX_NAME_LENGTH", "CompositeType.NAME_COMPONENT_SEPARATOR", "CompositeType.MAX_NAME_LENGTH"], "calls": {},
     # the guards that read nothing but these paths / constants
     "guard_reads": ["self._name", "self.NAME_COMPONENT_SEPARATOR", "self.MAX_NAME_LENGTH", "CompositeType.NAME_COMPONENT_SEPARATOR",
                     "CompositeType.MAX_NAME_LENGTH"],
     "path_properties": {"full_name": ("self._name", None)}},
    {"name": "CompositeType.name_components", "source": COMPOSITE, "cls": "CompositeType", "fn": "__init__", "kind": "assignment",
     "params": [("name", "str")], "ret": "strlist", "paths": {"self._name": ("name", "str")},
     "consts": ["self.NAME_COMPONENT_SEPARATOR", "CompositeType.NAME_COMPONENT_SEPARATOR"], "calls": {}, "target": "self._name_components",
     "path_properties": {"full_name": ("self._name", None)}, "target_property": "name_components"},
]

VALUE_ERROR_BUILTINS = {"ValueError", "UnicodeError", "UnicodeDecodeError", "UnicodeEncodeError", "UnicodeTranslateError"}
OTHER_BUILTINS = {"Exception", "BaseException", "TypeError", "KeyError", "IndexError", "AssertionError", "RuntimeError", "OSError",
                  "LookupError", "ArithmeticError", "ZeroDivisionError", "NotImplementedError", "AttributeError"}


def lname(n: str) -> str:
    n = n.lstrip("_") or n
    return n + "'" if n in KEYWORDS else n


def lean_str(s: str) -> str:
    out = []
    for ch in s:
        if ch == "\\":
            out.append("\\\\")
        elif ch == '"':
            out.append('\\"')
        elif ch == "\n":
            out.append("\\n")
        elif ch == "\t":
            out.append("\\t")
        elif 32 <= ord(ch) < 127:
            out.append(ch)
        else:
            out.append("\\u{%x}" % ord(ch))
    return '"' + "".join(out) + '"'


def lean_char(ch: str) -> str:
    if ch == "'":
        return "'\\''"
    if ch == "\\":
        return "'\\\\'"
    if 32 <= ord(ch) < 127:
        return "'%s'" % ch
    return "'\\u{%x}'" % ord(ch)


class Hierarchy:
    """Exception classes of the package, to decide what `except ValueError` catches: classes defined in the module or reached
    through its relative `from .x import C` statements (followed on demand)."""

    def __init__(self, repo: Path, module_path: Path):
        self.repo = repo
        self.root = module_path
        self.cache: typing.Dict[Path, typing.Tuple[typing.Dict[str, typing.List[str]], typing.Dict[str, Path]]] = {}

    def load(self, p: Path) -> typing.Tuple[typing.Dict[str, typing.List[str]], typing.Dict[str, Path]]:
        if p in self.cache:
            return self.cache[p]
        classes: typing.Dict[str, typing.List[str]] = {}
        imports: typing.Dict[str, Path] = {}
        try:
            tree = ast.parse(p.read_text())
        except (OSError, SyntaxError):
            tree = ast.Module(body=[], type_ignores=[])
        for n in tree.body:
            if isinstance(n, ast.ClassDef):
                classes.setdefault(n.name, [ast.unparse(b) for b in n.bases])
            elif isinstance(n, ast.ImportFrom) and n.level >= 1:
                base = p.parent
                for _ in range(n.level - 1):
                    base = base.parent
                if n.module:
                    base = base / n.module.replace(".", "/")
                target = base.with_suffix(".py") if base.with_suffix(".py").exists() else base / "__init__.py"
                for a in n.names:
                    sub = base / (a.name + ".py")   # `from . import module`
                    imports.setdefault(a.asname or a.name, sub if sub.exists() else target)
        self.cache[p] = (classes, imports)
        return self.cache[p]

    def bases_of(self, cls: str, p: Path, depth: int = 0) -> typing.Optional[typing.Tuple[typing.List[str], Path]]:
        classes, imports = self.load(p)
        if "." in cls:   # module.Class
            mod, name = cls.rsplit(".", 1)
            return self.bases_of(name, imports[mod], depth + 1) if mod in imports and depth < 8 else None
        if cls in classes:
            return classes[cls], p
        if cls in imports and depth < 8:
            return self.bases_of(cls, imports[cls], depth + 1)
        return None

    def err(self, cls: str) -> str:
        """Lean term of type Py.Err for `raise cls(...)`."""
        if cls == "ValueError":
            return ".valueError"
        if cls in VALUE_ERROR_BUILTINS:
            raise Untranslatable("raise of %s (a ValueError under another name)" % cls)
        if cls in OTHER_BUILTINS:
            raise Untranslatable("raise of builtin %s" % cls)
        seen = set()
        todo = [(cls, self.root)]
        while todo:
            c, p = todo.pop()
            if (c, p) in seen:
                continue
            seen.add((c, p))
            if c in VALUE_ERROR_BUILTINS:
                raise Untranslatable("raise of %s, which derives from %s" % (cls, c))
            if c in OTHER_BUILTINS:
                continue
            r = self.bases_of(c, p)
            if r is None:
                raise Untranslatable("raise of %s: base class %s cannot be resolved" % (cls, c))
            todo += [(b, r[1]) for b in r[0]]
        return "(.other %s)" % lean_str(cls)


def split_top(s: str) -> typing.List[str]:
    """Split a Lean tuple body at its top-level commas."""
    out, depth, cur = [], 0, ""
    for ch in s:
        if ch in "([⟨":
            depth += 1
        elif ch in ")]⟩":
            depth -= 1
        if ch == "," and depth == 0:
            out.append(cur.strip())
            cur = ""
        else:
            cur += ch
    out.append(cur.strip())
    return out


def compute_mut(tr: "Tr", stmts: typing.List[ast.stmt]) -> typing.Set[str]:
    """Locals assigned more than once (anywhere in the statements)."""
    return {v for v in tr.all_assigned(stmts)
            if sum(1 for n in ast.walk(ast.Module(body=stmts, type_ignores=[]))
                   if isinstance(n, (ast.Assign, ast.AnnAssign)) and getattr(n, "value", None) is not None
                   and v in tr.all_assigned([n])) > 1}


class Ctx:
    """Per-item context: helper functions of the same module / class that the target calls are translated on demand and
    emitted as local functions at the start of the generated definition."""

    def __init__(self, item: dict, tree: ast.Module, scope: typing.Any):
        self.item = item
        self.tree = tree
        self.scope = scope
        self.done: typing.Dict[str, typing.Tuple[str, typing.List[typing.Optional[str]], str]] = {}
        self.active: typing.Set[str] = set()
        self.out: typing.List[str] = []

    def find_helper(self, f: ast.AST) -> typing.Optional[typing.Tuple[ast.FunctionDef, typing.Optional[str]]]:
        if isinstance(f, ast.Name):
            if f.id in self.item.get("calls", {}):
                return None
            fn = next((x for x in self.tree.body if isinstance(x, ast.FunctionDef) and x.name == f.id), None)
            return (fn, None) if fn is not None else None
        cls = self.item.get("cls")
        if isinstance(f, ast.Attribute) and isinstance(f.value, ast.Name) and cls and f.value.id in ("self", "cls", cls) and isinstance(self.scope, ast.ClassDef):
            fn = next((x for x in self.scope.body if isinstance(x, ast.FunctionDef) and x.name == f.attr), None)
            return (fn, cls) if fn is not None else None
        return None

    def translate_helper(self, helper: typing.Tuple[ast.FunctionDef, typing.Optional[str]], caller: "Tr"):
        fn, cls = helper
        key = "%s.%s" % (cls, fn.name) if cls else fn.name
        if key in self.done:
            return self.done[key]
        if key in self.active:
            raise Untranslatable("recursive helper %s" % key)
        self.active.add(key)
        try:
            decos = {ast.unparse(d) for d in fn.decorator_list}
            params = list(fn.args.args)
            if cls and "staticmethod" not in decos:
                if decos - {"classmethod"}:
                    raise Untranslatable("helper %s: decorators %s" % (key, sorted(decos)))
                bound = params[0].arg if params else None
                params = params[1:]
                # the receiver may only be used to call other helpers (`self._x(...)`), never read or passed on
                nodes = list(ast.walk(ast.Module(body=fn.body, type_ignores=[])))
                callees = {id(c.func) for c in nodes if isinstance(c, ast.Call)}
                attr_bases = {id(x.value) for x in nodes if isinstance(x, ast.Attribute) and id(x) in callees}
                if any(isinstance(x, ast.Name) and x.id == bound and id(x) not in attr_bases for x in nodes):
                    raise Untranslatable("helper %s uses its receiver other than to call helpers" % key)
            elif decos - {"staticmethod"}:
                raise Untranslatable("helper %s: decorators %s" % (key, sorted(decos)))
            if fn.args.vararg or fn.args.kwarg or fn.args.kwonlyargs or fn.args.defaults or fn.returns is None:
                raise Untranslatable("helper %s: signature" % key)
            ptypes: typing.List[typing.Optional[str]] = []
            for a in params:
                try:
                    ptypes.append(Tr.ann_type(a.annotation) if a.annotation is not None else None)
                except Untranslatable:
                    ptypes.append(None)
            rt = Tr.ann_type(fn.returns)
            sub_item = dict(self.item)
            sub_item.update({"params": [(a.arg, t) for a, t in zip(params, ptypes) if t is not None], "ret": rt, "paths": {}, "skip_targets": []})
            tr = Tr(sub_item, caller.hier, caller.consts, self)
            if tr.falls_through_assigning(fn.body) is not None:
                raise Untranslatable("helper %s: a path without return" % key)
            body: typing.List[str] = []
            declared = {lname(a.arg) for a, t in zip(params, ptypes) if t is not None}
            try:
                tr.stmts(fn.body, "  ", body, declared, compute_mut(tr, fn.body))
            except Untranslatable as ex:
                raise Untranslatable("helper %s: %s" % (key, ex)) from None
            lean_name = "h_" + lname(fn.name)
            lt = lean_ty(rt)
            sig = " → ".join([("(%s)" % lean_ty(t) if " " in lean_ty(t) else lean_ty(t)) if t is not None else "Unit" for t in ptypes]
                             + ["Py.M %s" % ("(" + lt + ")" if " " in lt else lt)])
            names = " ".join(lname(a.arg) if t is not None else "_" + lname(a.arg) for a, t in zip(params, ptypes)) or "_"
            if not params:
                sig = "Unit → " + sig
            # a local function of the generated definition: `simp only [Gen.f]` inlines it, so the bridge proofs do not depend on
            # whether (and under which name) a helper was extracted from the translated function
            self.out += ["  let %s : %s := fun %s => do  -- helper %s, line %d" % (lean_name, sig, names, key, fn.lineno)] + ["    " + b.replace("\n", "\n    ") for b in body]
            if not params:
                lean_name += " ()"
            self.done[key] = (lean_name, ptypes, rt)
            return self.done[key]
        finally:
            self.active.discard(key)


class Tr:
    def __init__(self, item: dict, hier: Hierarchy, consts: typing.Dict[str, typing.Tuple[str, str]], ctx: typing.Optional["Ctx"] = None):
        self.item = item
        self.hier = hier
        self.ctx = ctx
        self.ret = item["ret"]
        self.paths: typing.Dict[str, typing.Tuple[str, str]] = dict(item.get("paths", {}))
        self.consts = consts                      # unparsed expression -> (python value, type)
        self.calls = dict(item.get("calls", {}))
        self.types: typing.Dict[str, str] = {lname(p): t for p, t in item["params"]}   # lean local -> type
        self.narrow: typing.Set[str] = set()      # optional locals known to be not None here
        self.lenfacts: typing.Dict[str, int] = {}  # list locals whose length is known here (from an enclosing / preceding guard)
        self.pre: typing.List[str] = []
        self.tmp = 0

    # ------------------------------------------------------------------ helpers
    def fresh(self) -> str:
        self.tmp += 1
        return "t%d" % self.tmp

    def bind(self, m: str) -> str:
        v = self.fresh()
        self.pre.append("let %s ← %s" % (v, m))
        return v

    def sub(self) -> "Tr":
        s = Tr(self.item, self.hier, self.consts, self.ctx)
        s.ret = self.ret
        s.paths, s.calls, s.types, s.narrow = self.paths, self.calls, self.types, set(self.narrow)
        s.lenfacts = dict(self.lenfacts)
        s.tmp = self.tmp + 50
        return s

    @staticmethod
    def local_of(target: ast.AST) -> typing.Optional[str]:
        if isinstance(target, ast.Name):
            return lname(target.id)
        if isinstance(target, ast.Attribute) and isinstance(target.value, ast.Name) and target.value.id == "self" and target.attr.startswith("_"):
            return lname(target.attr)
        return None

    @staticmethod
    def ann_type(a: ast.AST) -> str:
        s = ast.unparse(a).replace(" ", "").replace("typing.", "")
        if isinstance(a, ast.Constant) and isinstance(a.value, str):   # a quoted annotation
            s = a.value.replace(" ", "").replace("typing.", "")
            a = ast.parse(s, mode="eval").body
        table = {"str": "str", "int": "int", "bool": "bool", "list[str]": "strlist", "List[str]": "strlist", "Version": "ver"}
        if s in table:
            return table[s]
        # X | None, None | X, Optional[X]
        if isinstance(a, ast.BinOp) and isinstance(a.op, ast.BitOr):
            for x, y in ((a.left, a.right), (a.right, a.left)):
                if isinstance(y, ast.Constant) and y.value is None:
                    inner = Tr.ann_type(x)
                    if unopt(inner) is not None or inner.startswith("tup(") and "opt(" in inner:
                        raise Untranslatable("annotation %s" % s)
                    return opt_of(inner)
        if isinstance(a, ast.Subscript) and ast.unparse(a.value) == "Optional":
            inner = Tr.ann_type(a.slice)
            if unopt(inner) is not None:
                raise Untranslatable("annotation %s" % s)
            return opt_of(inner)
        if isinstance(a, ast.Subscript) and ast.unparse(a.value) in ("tuple", "Tuple") and isinstance(a.slice, ast.Tuple) and a.slice.elts:
            comps = [Tr.ann_type(x) for x in a.slice.elts]
            if any(c.startswith(("tup(", "opt(")) for c in comps):
                raise Untranslatable("annotation %s (nested tuples)" % s)
            return tup(comps)
        raise Untranslatable("annotation %s" % s)

    def block(self, pre: typing.List[str], value: str) -> str:
        if not pre:
            return "pure %s" % value
        return "(do\n      " + "\n      ".join(pre + ["pure %s" % value]) + ")"

    # ------------------------------------------------------------------ expressions: (lean term, type)
    def e(self, n: ast.AST, want: typing.Optional[str] = None) -> typing.Tuple[str, str]:
        key = None
        if isinstance(n, (ast.Attribute, ast.Name)):
            key = ast.unparse(n)
            if key in self.consts:
                val, t = self.consts[key]
                return (lean_str(val), "str") if t == "str" else ("(%d : Nat)" % val, "nat")
            if key in self.paths:
                return self.paths[key]
        if isinstance(n, ast.Constant):
            if n.value is None:
                if unopt(want) is not None:
                    return "none", typing.cast(str, want)
                raise Untranslatable("None of unknown type")
            if isinstance(n.value, bool):
                return ("true" if n.value else "false"), "bool"
            if isinstance(n.value, int) and n.value >= 0:
                return "(%d : Nat)" % n.value, "nat"
            if isinstance(n.value, str):
                return lean_str(n.value), "str"
            raise Untranslatable("constant %r" % (n.value,))
        if isinstance(n, ast.Name):
            v = lname(n.id)
            if v not in self.types:
                raise Untranslatable("unknown name %s" % n.id)
            t = self.types[v]
            if v in self.narrow and unopt(t) is not None:
                return "(%s).get!" % v, typing.cast(str, unopt(t))
            return v, t
        if isinstance(n, ast.Attribute):
            loc = self.local_of(n)
            if loc is not None and loc in self.types:
                t = self.types[loc]
                if loc in self.narrow and unopt(t) is not None:
                    return "(%s).get!" % loc, typing.cast(str, unopt(t))
                return loc, t
            base, bt = self.e(n.value)
            if bt == "ver" and n.attr == "major":
                return "(%s).1" % base, "int"
            if bt == "ver" and n.attr == "minor":
                return "(%s).2" % base, "int"
            raise Untranslatable("attribute %s" % ast.unparse(n))
        if isinstance(n, ast.UnaryOp) and isinstance(n.op, ast.Not):
            a, ta = self.e(n.operand)
            if ta == "bool":
                return "(!%s)" % a, "bool"
            if ta == "str":
                return "(Py.strIsEmpty %s)" % a, "bool"
            if ta == "strlist":
                return "(%s).isEmpty" % a, "bool"
            if (unopt(ta) or "").startswith("tup("):   # None or a non-empty tuple, which is always true
                return "(%s).isNone" % a, "bool"
            raise Untranslatable("not on %s" % ta)
        if isinstance(n, ast.BoolOp):
            is_and = isinstance(n.op, ast.And)
            acc, tacc = self.e(n.values[0])
            if tacc != "bool":
                raise Untranslatable("%s on %s" % ("and" if is_and else "or", tacc))
            for v in n.values[1:]:
                s = self.sub()
                b, tb = s.e(v)
                self.tmp = s.tmp
                if tb != "bool":
                    raise Untranslatable("%s on %s" % ("and" if is_and else "or", tb))
                if s.pre:  # the operand may raise: it is evaluated only when the left operand does not decide
                    blk = s.block(s.pre, b)
                    acc = self.bind("(if %s then %s else pure %s)" % ((acc, blk, "false") if is_and else ("(!%s)" % acc, blk, "true")))
                else:
                    acc = "(%s %s %s)" % (acc, "&&" if is_and else "||", b)
            return acc, "bool"
        if isinstance(n, ast.Compare):
            parts = []
            left, tl = self.e(n.left)
            for op, c in zip(n.ops, n.comparators):
                if isinstance(op, (ast.Is, ast.IsNot)) and isinstance(c, ast.Constant) and c.value is None:
                    if unopt(tl) is not None:
                        parts.append("(%s).%s" % (left, "isSome" if isinstance(op, ast.IsNot) else "isNone"))
                    elif left.endswith(".get!"):   # narrowed: known not to be None
                        parts.append("true" if isinstance(op, ast.IsNot) else "false")
                    else:
                        raise Untranslatable("comparison of %s with None" % tl)
                    continue
                if isinstance(op, (ast.In, ast.NotIn)) and isinstance(c, (ast.Tuple, ast.List, ast.Set)) and tl in ("nat", "int") and len(n.ops) == 1:
                    alts = [self.e(x) for x in c.elts]
                    if not alts or any(t not in ("nat", "int") for _, t in alts):
                        raise Untranslatable("membership test %s" % ast.unparse(n))
                    t = "(" + " || ".join("(%s == %s)" % ((left, v) if tl == ta else (self.as_int(left, tl), self.as_int(v, ta))) for v, ta in alts) + ")"
                    parts.append(t if isinstance(op, ast.In) else "(!%s)" % t)
                    continue
                r, tr = self.e(c)
                if isinstance(op, (ast.In, ast.NotIn)):
                    ch = self.py_str_const(n.left) if len(n.ops) == 1 else None
                    if tr == "str" and ch is not None and len(ch) == 1:
                        t = "(Py.strContainsChar %s %s)" % (r, lean_char(ch))
                        parts.append(t if isinstance(op, ast.In) else "(!%s)" % t)
                        left, tl = r, tr
                        continue
                    raise Untranslatable("membership test %s (only `c in s` for a one-character literal c)" % ast.unparse(n))
                sym = {ast.Eq: "==", ast.NotEq: "!=", ast.LtE: "≤", ast.Lt: "<", ast.GtE: "≥", ast.Gt: ">"}.get(type(op))
                if sym is None:
                    raise Untranslatable("comparison %s" % type(op).__name__)
                if tl == tr and tl in ("str", "bool", "optstr", "optint") and sym in ("==", "!="):
                    parts.append("(%s %s %s)" % (left, sym, r))
                elif tl in ("nat", "int") and tr in ("nat", "int"):
                    a, b = (left, r) if tl == tr else (self.as_int(left, tl), self.as_int(r, tr))
                    parts.append("(%s %s %s)" % (a, sym, b) if sym in ("==", "!=") else "decide (%s %s %s)" % (a, sym, b))
                else:
                    raise Untranslatable("comparison of %s and %s" % (tl, tr))
                left, tl = r, tr
            return "(" + " && ".join(parts) + ")", "bool"
        if isinstance(n, ast.Subscript):
            base, bt = self.e(n.value)
            sl = n.slice
            if (bt == "strlist" and isinstance(sl, ast.Slice) and sl.lower is None and sl.step is None and isinstance(sl.upper, ast.UnaryOp)
                    and isinstance(sl.upper.op, ast.USub) and isinstance(sl.upper.operand, ast.Constant) and sl.upper.operand.value == 1):
                return "(%s).dropLast" % base, "strlist"
            if bt == "strlist" and isinstance(sl, ast.Constant) and type(sl.value) is int and sl.value >= 0:
                return self.bind("Py.index %s (%d : Nat)" % (base, sl.value)), "str"   # IndexError when out of range
            raise Untranslatable("subscript %s" % ast.unparse(n))
        if isinstance(n, ast.List):
            chunks: typing.List[str] = []
            cur: typing.List[str] = []
            for x in n.elts:
                if isinstance(x, ast.Starred):     # [*l, x]: concatenation, no length needed
                    v, t = self.e(x.value)
                    if t != "strlist":
                        raise Untranslatable("starred %s in a list" % t)
                    if cur:
                        chunks.append("[" + ", ".join(cur) + "]")
                        cur = []
                    chunks.append(v)
                else:
                    v, t = self.e(x)
                    if t != "str":
                        raise Untranslatable("list element of type %s" % t)
                    cur.append(v)
            if cur or not chunks:
                chunks.append("[" + ", ".join(cur) + "]")
            return (chunks[0] if len(chunks) == 1 else "(" + " ++ ".join(chunks) + ")"), "strlist"
        if isinstance(n, ast.BinOp) and isinstance(n.op, ast.Add):
            a, ta = self.e(n.left)
            b, tb = self.e(n.right)
            if ta == tb == "strlist":
                return "(%s ++ %s)" % (a, b), "strlist"
            raise Untranslatable("+ on %s, %s" % (ta, tb))
        if isinstance(n, ast.Tuple) and n.elts:
            # starred elements are expanded first (their length must be known), then the components are typed one by one
            flat: typing.List[typing.Union[ast.AST, typing.Tuple[str, str]]] = []
            for x in n.elts:
                if isinstance(x, ast.Starred):
                    flat += [(u, "str") for u in self.known_elements(x.value)]
                else:
                    flat.append(x)
            wants = untup(unopt(want) or want) if want is not None else None
            if wants is None or len(wants) != len(flat):
                wants = [None] * len(flat)   # type: ignore
            elems = [x if isinstance(x, tuple) else self.e(x, w) for x, w in zip(flat, wants)]
            if len(elems) < 2:
                raise Untranslatable("tuple of %d elements" % len(elems))
            return "(" + ", ".join(v for v, _ in elems) + ")", tup([t for _, t in elems])
        if isinstance(n, ast.IfExp):
            c, tc = self.e(n.test)
            if tc != "bool":
                raise Untranslatable("condition of type %s" % tc)
            sa, sb = self.sub(), self.sub()
            sa.lenfacts.update(self.facts_of(n.test, True))
            sb.lenfacts.update(self.facts_of(n.test, False))
            a, ta = sa.e(n.body, want)
            sb.tmp = sa.tmp
            b, tb = sb.e(n.orelse, want)
            self.tmp = sb.tmp
            if ta != tb:
                ca, cb = self.coerce(a, ta, tb), self.coerce(b, tb, ta)
                if ca is not None:
                    a, ta = ca, tb
                elif cb is not None:
                    b, tb = cb, ta
                else:
                    raise Untranslatable("conditional expression of types %s / %s" % (ta, tb))
            if sa.pre or sb.pre:   # only the chosen operand is evaluated
                return self.bind("(if %s then %s else %s)" % (c, sa.block(sa.pre, a), sb.block(sb.pre, b))), ta
            return "(if %s then %s else %s)" % (c, a, b), ta
        if isinstance(n, (ast.GeneratorExp, ast.ListComp)):
            raise Untranslatable("comprehension outside any() / all()")
        if isinstance(n, ast.Call):
            return self.call(n)
        raise Untranslatable(type(n).__name__)

    def coerce(self, v: str, t: str, want: str) -> typing.Optional[str]:
        """The term v of type t as a term of type `want` (an optional accepts its base type), or None."""
        if t == want:
            return v
        if opt_of(t) == want:
            return "(some %s)" % v
        if unopt(want) is not None and unopt(t) is None:   # a value of a type that coerces to the base type
            inner = self.coerce(v, t, typing.cast(str, unopt(want)))
            return None if inner is None else "(some %s)" % inner
        a, b = untup(t), untup(want)
        if a is not None and b is not None and len(a) == len(b) and v.startswith("(") and v.endswith(")"):
            comps = split_top(v[1:-1])
            if len(comps) == len(a):
                out = [self.coerce(c, x, y) for c, x, y in zip(comps, a, b)]
                if all(o is not None for o in out):
                    return "(" + ", ".join(typing.cast(typing.List[str], out)) + ")"
        return None

    def known_elements(self, n: ast.AST) -> typing.List[str]:
        """The elements of a list of str whose length is known at this point (a local guarded by `len(x) == k`): names bound by an
        unpacking that cannot fail here.  Without such a guard the length of the resulting tuple is not known statically."""
        if isinstance(n, ast.Name) and lname(n.id) in self.lenfacts and self.types.get(lname(n.id)) == "strlist":
            k = self.lenfacts[lname(n.id)]
            if k in (2, 3, 4):
                us = [self.fresh().replace("t", "w") for _ in range(k)]
                self.pre.append("let (%s) ← Py.unpack%d %s" % (", ".join(us), k, lname(n.id)))
                return us
            if k == 1:
                return [self.bind("Py.index %s (0 : Nat)" % lname(n.id))]
            if k == 0:
                return []
        raise Untranslatable("the length of %s is not known here (no enclosing `len(...) == k` guard)" % ast.unparse(n))

    @staticmethod
    def len_fact(test: ast.AST) -> typing.Optional[typing.Tuple[str, int, bool]]:
        """(local, k, positive) for a test `len(x) == k` (positive) or `len(x) != k`."""
        if (isinstance(test, ast.Compare) and len(test.ops) == 1 and isinstance(test.ops[0], (ast.Eq, ast.NotEq))):
            a, b = test.left, test.comparators[0]
            for x, y in ((a, b), (b, a)):
                if (isinstance(x, ast.Call) and isinstance(x.func, ast.Name) and x.func.id == "len" and len(x.args) == 1 and not x.keywords
                        and isinstance(x.args[0], ast.Name) and isinstance(y, ast.Constant) and type(y.value) is int and y.value >= 0):
                    return lname(x.args[0].id), y.value, isinstance(test.ops[0], ast.Eq)
        return None

    def facts_of(self, test: ast.AST, branch: bool) -> typing.Dict[str, int]:
        """Length facts that hold in the given branch of a test (conjunctions for the true branch, disjunctions for the false one)."""
        out: typing.Dict[str, int] = {}
        f = self.len_fact(test)
        if f is not None and f[2] == branch:
            out[f[0]] = f[1]
        if isinstance(test, ast.BoolOp) and isinstance(test.op, ast.And if branch else ast.Or):
            for v in test.values:
                out.update(self.facts_of(v, branch))
        if isinstance(test, ast.UnaryOp) and isinstance(test.op, ast.Not):
            out.update(self.facts_of(test.operand, not branch))
        return out

    @staticmethod
    def as_int(v: str, t: str) -> str:
        return v if t == "int" else "(%s : Int)" % v

    def py_str_const(self, n: ast.AST) -> typing.Optional[str]:
        """The Python value of a string literal or of a string class constant of the tables."""
        if isinstance(n, ast.Constant) and isinstance(n.value, str):
            return n.value
        if isinstance(n, (ast.Attribute, ast.Name)):
            c = self.consts.get(ast.unparse(n))
            if c is not None and c[1] == "str":
                return c[0]
        return None

    def one_char(self, n: ast.AST) -> str:
        ch = self.py_str_const(n)
        if ch is not None and len(ch) == 1:
            return lean_char(ch)
        raise Untranslatable("a one-character literal is required here: %s" % ast.unparse(n))

    def call(self, n: ast.Call) -> typing.Tuple[str, str]:
        f = n.func
        fs = ast.unparse(f)
        if fs == "Version" and not n.args and [k.arg for k in n.keywords] == ["major", "minor"]:
            a, ta = self.e(n.keywords[0].value)
            b, tb = self.e(n.keywords[1].value)
            if ta == tb == "int":
                return "(%s, %s)" % (a, b), "ver"
            raise Untranslatable("Version(%s, %s)" % (ta, tb))
        if n.keywords:
            raise Untranslatable("keyword arguments in %s" % fs)
        if fs in self.calls:
            target, argts, rt = self.calls[fs]
            args = [self.e(a) for a in n.args]
            if [t for _, t in args] != argts:
                raise Untranslatable("call %s with %s" % (fs, [t for _, t in args]))
            return self.bind("%s %s" % (target, " ".join(v for v, _ in args))), rt
        helper = self.ctx.find_helper(f) if self.ctx is not None else None
        if helper is not None:
            lean_name, ptypes, rt = self.ctx.translate_helper(helper, self)
            if len(n.args) != len(ptypes):
                raise Untranslatable("call %s with %d arguments" % (fs, len(n.args)))
            args = []
            for a, pt in zip(n.args, ptypes):
                if pt is None:          # a parameter the helper never computes with (e.g. the path quoted in error messages)
                    args.append("()")
                    continue
                v, t = self.e(a, pt)
                c = self.coerce(v, t, pt)
                if c is None:
                    raise Untranslatable("call %s: argument of type %s where %s is expected" % (fs, t, pt))
                args.append(c)
            return self.bind(("%s %s" % (lean_name, " ".join(args))).strip()), rt
        if isinstance(f, ast.Name):
            if f.id == "len" and len(n.args) == 1:
                a, ta = self.e(n.args[0])
                if ta == "strlist":
                    return "(%s).length" % a, "nat"
                if ta == "str":
                    return "(Py.strLen %s)" % a, "nat"
                raise Untranslatable("len of %s" % ta)
            if f.id == "tuple" and len(n.args) == 1:
                us = self.known_elements(n.args[0])
                if len(us) < 2:
                    raise Untranslatable("tuple of %d elements" % len(us))
                return "(" + ", ".join(us) + ")", tup(["str"] * len(us))
            if f.id in ("any", "all") and len(n.args) == 1 and isinstance(n.args[0], (ast.GeneratorExp, ast.ListComp)):
                g = n.args[0]
                if len(g.generators) != 1 or g.generators[0].ifs or g.generators[0].is_async or not isinstance(g.generators[0].target, ast.Name):
                    raise Untranslatable("comprehension shape in %s" % fs)
                it, tit = self.e(g.generators[0].iter)
                v = lname(g.generators[0].target.id)
                if tit != "strlist" or v in self.types:
                    raise Untranslatable("%s over %s" % (f.id, tit))
                s = self.sub()
                s.types = dict(self.types)
                s.types[v] = "str"
                b, tb = s.e(g.elt)
                self.tmp = s.tmp
                if tb != "bool" or s.pre:
                    raise Untranslatable("%s(...) with a condition that is not a pure boolean" % f.id)
                return "((%s).%s (fun %s => %s))" % (it, f.id, v, b), "bool"
            if f.id == "list" and len(n.args) == 1:
                a, ta = self.e(n.args[0])
                if ta == "strlist":
                    return a, ta
                raise Untranslatable("list(%s)" % ta)
            if f.id == "str" and len(n.args) == 1:
                a, ta = self.e(n.args[0])
                if ta == "str":
                    return a, ta
                raise Untranslatable("str(%s)" % ta)
            if f.id == "int":
                if len(n.args) != 1:
                    raise Untranslatable("int() with %d arguments (only the one-argument, base-10 form has a meaning here)" % len(n.args))
                a, ta = self.e(n.args[0])
                if ta == "str":
                    return self.bind("Py.intOfStr %s" % a), "int"
                if ta == "int":
                    return a, ta
                raise Untranslatable("int(%s)" % ta)
        if isinstance(f, ast.Attribute):
            base, bt = self.e(f.value)
            if bt == "str":
                if f.attr == "split" and len(n.args) == 1:
                    return "(Py.strSplitChar %s %s)" % (base, self.one_char(n.args[0])), "strlist"
                if f.attr == "isascii" and not n.args:
                    return "(Py.strIsascii %s)" % base, "bool"
                if f.attr == "isdigit" and not n.args:
                    return self.bind("Py.strIsdigit %s" % base), "bool"
                if f.attr == "join" and len(n.args) == 1:
                    a, ta = self.e(n.args[0])
                    if ta == "strlist":
                        return "(Py.strJoin %s %s)" % (base, a), "str"
        raise Untranslatable("call %s" % fs)

    # ------------------------------------------------------------------ statements
    def flush(self, out: typing.List[str], ind: str) -> None:
        out.extend(ind + p for p in self.pre)
        self.pre = []

    def set_local(self, name: str, v: str, t: str, out, ind, declared: typing.Set[str], mut: typing.Set[str]) -> None:
        """Emit the assignment of the (pure) term v of type t to the local `name`."""
        old = self.types.get(name)
        if old is not None and old != t:
            c = self.coerce(v, t, old)
            if c is None:
                raise Untranslatable("variable %s changes its type from %s to %s" % (name, old, t))
            v, t = c, old
        if name in declared:
            if name not in mut:
                raise Untranslatable("re-assignment of %s" % name)
            out.append("%s%s := %s" % (ind, name, v))
        else:
            out.append("%s%s %s : %s := %s" % (ind, "let mut" if name in mut else "let", name, lean_ty(t), v))
            declared.add(name)
        self.types[name] = t
        self.narrow.discard(name)
        self.lenfacts.pop(name, None)

    def falls_through_assigning(self, body: typing.List[ast.stmt]) -> typing.Optional[typing.Set[str]]:
        """None if the block always leaves (raise / return); otherwise the locals definitely assigned when it falls through."""
        got: typing.Set[str] = set()
        for s in body:
            if isinstance(s, (ast.Raise, ast.Return)):
                return None
            if isinstance(s, ast.Assign):
                for t in s.targets:
                    for x in (t.elts if isinstance(t, ast.Tuple) else [t]):
                        loc = self.local_of(x)
                        if loc:
                            got.add(loc)
            elif isinstance(s, ast.AnnAssign) and s.value is not None:
                loc = self.local_of(s.target)
                if loc:
                    got.add(loc)
            elif isinstance(s, ast.If):
                a = self.falls_through_assigning(s.body)
                b = self.falls_through_assigning(s.orelse)
                if a is None and b is None:
                    return None
                got |= (a if b is None else b if a is None else (a & b))
            elif isinstance(s, ast.Try):
                a = self.falls_through_assigning(s.body)
                if a is not None:
                    got |= a   # handlers are required to leave (checked where the try statement is translated)
        return got

    def all_assigned(self, body: typing.List[ast.stmt]) -> typing.Set[str]:
        got: typing.Set[str] = set()
        for n in ast.walk(ast.Module(body=body, type_ignores=[])):
            tg: typing.List[ast.AST] = []
            if isinstance(n, ast.Assign):
                tg = list(n.targets)
            elif isinstance(n, ast.AnnAssign) and n.value is not None:
                tg = [n.target]
            for t in tg:
                for x in (t.elts if isinstance(t, ast.Tuple) else [t]):
                    loc = self.local_of(x)
                    if loc:
                        got.add(loc)
        return got

    def stmts(self, body, ind: str, out: typing.List[str], declared: typing.Set[str], mut: typing.Set[str]) -> None:
        for s in body:
            if isinstance(s, ast.Expr) and isinstance(s.value, ast.Constant):
                continue
            if isinstance(s, ast.Pass):
                continue
            if isinstance(s, (ast.Assign, ast.AnnAssign)):
                if isinstance(s, ast.Assign):
                    if len(s.targets) != 1:
                        raise Untranslatable("chained assignment")
                    target, value, want = s.targets[0], s.value, None
                else:
                    if s.value is None:
                        continue
                    target, value, want = s.target, s.value, None
                if ast.unparse(target) in self.item.get("skip_targets", ()):
                    continue
                if isinstance(s, ast.AnnAssign):
                    want = self.ann_type(s.annotation)
                if isinstance(target, ast.Tuple):
                    self.unpack(target, value, out, ind, declared, mut)
                    continue
                name = self.local_of(target)
                if name is None:
                    raise Untranslatable("assignment to %s" % ast.unparse(target))
                want = want or self.types.get(name)
                v, t = self.e(value, want)
                if want is not None and t != want:
                    c = self.coerce(v, t, want)
                    if c is None:
                        raise Untranslatable("%s annotated as %s is assigned a value of type %s" % (name, want, t))
                    v, t = c, want
                self.flush(out, ind)
                self.set_local(name, v, t, out, ind, declared, mut)
            elif isinstance(s, ast.Return) and s.value is not None:
                v, t = self.e(s.value, self.ret)
                c = self.coerce(v, t, self.ret)
                if c is None:
                    raise Untranslatable("return of %s where %s is expected" % (t, self.ret))
                self.flush(out, ind)
                out.append("%sreturn %s" % (ind, c))
            elif isinstance(s, ast.Raise) and s.exc is not None:
                out.append("%sthrow %s" % (ind, self.raise_term(s)))
            elif isinstance(s, ast.If):
                self.if_stmt(s, ind, out, declared, mut)
            elif isinstance(s, ast.Try):
                self.try_stmt(s, ind, out, declared, mut)
            elif isinstance(s, ast.For) and isinstance(s.target, ast.Name) and not s.orelse:
                it, tit = self.e(s.iter)
                if tit != "strlist":
                    raise Untranslatable("for over %s" % tit)
                self.flush(out, ind)
                if self.all_assigned(s.body) or any(isinstance(x, (ast.Return, ast.Break, ast.Continue)) for x in ast.walk(ast.Module(body=s.body, type_ignores=[]))):
                    raise Untranslatable("for loop that assigns, returns, breaks or continues")
                v = lname(s.target.id)
                if v in self.types:
                    raise Untranslatable("loop variable %s shadows a local" % v)
                self.types[v] = "str"
                inner: typing.List[str] = []
                self.stmts(s.body, ind + "    ", inner, set(declared) | {v}, mut)
                del self.types[v]
                out.append("%sPy.forEach %s () (fun () %s => do" % (ind, it, v))
                out.extend(inner)
                out.append("%s    pure ())" % ind)
            else:
                raise Untranslatable("statement %s" % type(s).__name__)

    def raise_term(self, s: ast.Raise) -> str:
        if s.cause is not None and not (isinstance(s.cause, ast.Constant) and s.cause.value is None):
            raise Untranslatable("raise ... from <exception>")
        cls = s.exc.func if isinstance(s.exc, ast.Call) else s.exc
        if not isinstance(cls, ast.Name):
            raise Untranslatable("raise %s" % ast.unparse(cls))
        return self.hier.err(cls.id)

    def unpack(self, target: ast.Tuple, value: ast.AST, out, ind, declared, mut) -> None:
        v, t = self.e(value)
        k = len(target.elts)
        comps = untup(t)
        if not ((t == "strlist" and k in (2, 3, 4)) or (comps is not None and len(comps) == k)):
            raise Untranslatable("unpacking of %s into %d names" % (t, k))
        names = [self.local_of(x) for x in target.elts]
        if any(x is None for x in names) or len(set(names)) != k:
            raise Untranslatable("unpacking targets %s" % ast.unparse(target))
        self.flush(out, ind)
        us = [self.fresh().replace("t", "u") for _ in names]
        if comps is None:
            out.append("%slet (%s) ← Py.unpack%d %s" % (ind, ", ".join(us), k, v))
            comps = ["str"] * k
        else:   # a tuple of known length: plain destructuring
            out.append("%slet (%s) := %s" % (ind, ", ".join(us), v))
        for nm, u, ct in zip(names, us, comps):
            self.set_local(typing.cast(str, nm), u, ct, out, ind, declared, mut)

    def truth(self, n: ast.AST) -> str:
        """The truth value of an expression used as a condition."""
        c, tc = self.e(n)
        if tc == "bool":
            return c
        if tc == "str":
            return "(!Py.strIsEmpty %s)" % c
        if tc == "strlist":
            return "(!(%s).isEmpty)" % c
        if (unopt(tc) or "").startswith("tup("):
            return "(%s).isSome" % c
        raise Untranslatable("condition of type %s" % tc)

    def narrow_of(self, test: ast.AST) -> typing.Optional[typing.Tuple[str, bool]]:
        """(optional local, True) if the test being true means the local is not None, (local, False) if it means it is None."""
        if isinstance(test, ast.UnaryOp) and isinstance(test.op, ast.Not):
            r = self.narrow_of(test.operand)
            return None if r is None else (r[0], not r[1])
        if (isinstance(test, ast.Compare) and len(test.ops) == 1 and isinstance(test.ops[0], (ast.IsNot, ast.Is))
                and isinstance(test.comparators[0], ast.Constant) and test.comparators[0].value is None):
            loc = self.local_of(test.left)
            if loc is not None and unopt(self.types.get(loc)) is not None:
                return loc, isinstance(test.ops[0], ast.IsNot)
        if isinstance(test, (ast.Name, ast.Attribute)):
            loc = self.local_of(test)
            if loc is not None and (unopt(self.types.get(loc)) or "").startswith("tup("):
                return loc, True
        return None

    def if_stmt(self, s: ast.If, ind, out, declared, mut) -> None:
        c = self.truth(s.test)
        self.flush(out, ind)
        # variables first assigned inside the statement: declared in front of it; every path that falls through must assign them
        new = sorted((self.all_assigned(s.body) | self.all_assigned(s.orelse)) - declared)
        fa, fb = self.falls_through_assigning(s.body), self.falls_through_assigning(s.orelse)
        for v in new:
            for f in (fa, fb):
                if f is not None and v not in f:
                    raise Untranslatable("%s may be unbound after the if statement in line %d" % (v, s.lineno))
        narrowed = self.narrow_of(s.test)
        assigned = self.all_assigned(s.body) | self.all_assigned(s.orelse)
        decl_inner = set(declared) | set(new)
        ba: typing.List[str] = []
        bb: typing.List[str] = []
        before, facts_before = set(self.narrow), dict(self.lenfacts)
        if narrowed and narrowed[1]:
            self.narrow.add(narrowed[0])
        self.lenfacts.update(self.facts_of(s.test, True))
        self.stmts(s.body, ind + "  ", ba, set(decl_inner), mut | set(new))
        self.narrow, self.lenfacts = set(before), dict(facts_before)
        if narrowed and not narrowed[1]:
            self.narrow.add(narrowed[0])
        self.lenfacts.update(self.facts_of(s.test, False))
        if s.orelse:
            self.stmts(s.orelse, ind + "  ", bb, set(decl_inner), mut | set(new))
        # what is known after the statement: what was known before, minus what the branches assign, plus - when one branch always
        # leaves (raise / return) - what the test says on the other side
        self.narrow = set(before) - assigned
        self.lenfacts = {k: v for k, v in facts_before.items() if k not in assigned}
        for leaves, side in ((fa is None, False), (fb is None and bool(s.orelse), True)):
            if leaves and not (fa is None and fb is None and s.orelse):
                if narrowed and narrowed[1] == side and narrowed[0] not in assigned:
                    self.narrow.add(narrowed[0])
                self.lenfacts.update({k: v for k, v in self.facts_of(s.test, side).items() if k not in assigned})
        for v in new:
            out.append("%slet mut %s : %s := default" % (ind, v, lean_ty(self.types[v])))
            declared.add(v)
            mut.add(v)
        out.append("%sif %s then" % (ind, c))
        out.extend(ba or ["%s  pure ()" % ind])
        if s.orelse:
            out.append("%selse" % ind)
            out.extend(bb or ["%s  pure ()" % ind])

    def try_stmt(self, s: ast.Try, ind, out, declared, mut) -> None:
        if s.orelse or s.finalbody or len(s.handlers) != 1:
            raise Untranslatable("try statement with else / finally / several handlers")
        h = s.handlers[0]
        if h.type is None or ast.unparse(h.type) != "ValueError":
            raise Untranslatable("except %s" % (ast.unparse(h.type) if h.type is not None else "<bare>"))
        if len(h.body) != 1 or not isinstance(h.body[0], ast.Raise) or h.body[0].exc is None:
            raise Untranslatable("an except block that does not consist of a single raise")
        handler = self.raise_term(h.body[0])
        body = [x for x in s.body if not (isinstance(x, ast.Expr) and isinstance(x.value, ast.Constant))]
        if len(body) != 1 or not isinstance(body[0], (ast.Assign, ast.AnnAssign)):
            raise Untranslatable("a try block that does not consist of a single assignment")
        a = body[0]
        if isinstance(a, ast.Assign):
            if len(a.targets) != 1:
                raise Untranslatable("chained assignment")
            target, value, want = a.targets[0], a.value, None
        else:
            target, value, want = a.target, a.value, self.ann_type(a.annotation)
        name = self.local_of(target)
        if name is None or value is None:
            raise Untranslatable("assignment to %s" % ast.unparse(target))
        want = want or self.types.get(name)
        self.flush(out, ind)
        sub = self.sub()
        v, t = sub.e(value, want)
        self.tmp = sub.tmp
        if want is not None and t != want:
            c = self.coerce(v, t, want)
            if c is None:
                raise Untranslatable("%s annotated as %s is assigned a value of type %s" % (name, want, t))
            v, t = c, want
        blk = "(do\n%s)" % "\n".join(ind + "    " + p for p in sub.pre + ["pure %s" % v]) if sub.pre else "(pure %s)" % v
        rhs = "Py.tryExcept %s Py.Err.isValueError (throw %s)" % (blk, handler)
        if name in declared:
            if name not in mut:
                raise Untranslatable("re-assignment of %s" % name)
            if self.types.get(name, t) != t:
                raise Untranslatable("variable %s changes its type from %s to %s" % (name, self.types.get(name), t))
            out.append("%s%s ← %s" % (ind, name, rhs))
        else:
            out.append("%s%s %s : %s ← %s" % (ind, "let mut" if name in mut else "let", name, lean_ty(t), rhs))
            declared.add(name)
        self.types[name] = t
        self.narrow.discard(name)


# ------------------------------------------------------------------------------------------------- items

def read_const(repo: Path, key: str) -> typing.Tuple[typing.Any, str]:
    src, cls, name, want = CONSTANTS[key]
    tree = ast.parse((repo / src).read_text())
    c = next((x for x in tree.body if isinstance(x, ast.ClassDef) and x.name == cls), None)
    val = None
    if c is not None:
        for s in c.body:
            if isinstance(s, ast.Assign) and len(s.targets) == 1 and isinstance(s.targets[0], ast.Name) and s.targets[0].id == name:
                try:
                    val = ast.literal_eval(s.value)
                except ValueError:
                    val = None
    if val != want or type(val) is not type(want):
        raise Untranslatable("%s %s.%s = %r, the translation tables assume %r" % (src, cls, name, val, want))
    return val, ("str" if isinstance(val, str) else "nat")


def reads_of(n: ast.AST) -> typing.Set[str]:
    """Maximal attribute paths / names read by an expression."""
    out: typing.Set[str] = set()

    def walk(x: ast.AST) -> None:
        if isinstance(x, ast.Attribute):
            y: ast.AST = x
            while isinstance(y, ast.Attribute):
                y = y.value
            if isinstance(y, ast.Name):
                out.add(ast.unparse(x))
                return
        if isinstance(x, ast.Name):
            out.add(x.id)
            return
        if isinstance(x, ast.Call):
            if isinstance(x.func, ast.Attribute):
                walk(x.func.value)
            elif not isinstance(x.func, ast.Name):
                walk(x.func)
            for a in x.args:
                walk(a)
            for k in x.keywords:
                walk(k.value)
            return
        for c in ast.iter_child_nodes(x):
            walk(c)

    walk(n)
    return out


def called_functions(tree: ast.Module, cls: typing.Optional[ast.ClassDef], start: ast.FunctionDef) -> typing.List[ast.FunctionDef]:
    """Module-level functions and methods of `cls` reachable from `start` through the call graph (calls by bare name, or through
    self / cls / the class name)."""
    mod = {f.name: f for f in tree.body if isinstance(f, ast.FunctionDef)}
    meth = {f.name: f for f in cls.body if isinstance(f, ast.FunctionDef)} if cls is not None else {}
    seen: typing.Dict[int, ast.FunctionDef] = {}
    todo = [start]
    while todo:
        f = todo.pop()
        if id(f) in seen:
            continue
        seen[id(f)] = f
        for n in ast.walk(f):
            if isinstance(n, ast.Call):
                if isinstance(n.func, ast.Name) and n.func.id in mod:
                    todo.append(mod[n.func.id])
                elif (isinstance(n.func, ast.Attribute) and isinstance(n.func.value, ast.Name) and cls is not None
                      and n.func.value.id in ("self", "cls", cls.name) and n.func.attr in meth):
                    todo.append(meth[n.func.attr])
    return [f for f in seen.values() if f is not start]


def discover_by_signature(tree: ast.Module, item: dict) -> typing.Optional[ast.FunctionDef]:
    """A private helper is found through the call graph and its signature, not by its name: the one module-level function
    reachable from `item["discover"]["from"]` whose parameters and result have the given types."""
    d = item["discover"]
    ccls = next((c for c in tree.body if isinstance(c, ast.ClassDef) and c.name == d["from"][0]), None)
    start = next((f for f in (ccls.body if ccls is not None else []) if isinstance(f, ast.FunctionDef) and f.name == d["from"][1]), None)
    if start is None:
        return None
    top = {id(f) for f in tree.body}
    hits = []
    for f in called_functions(tree, ccls, start):
        if id(f) not in top or f.args.vararg or f.args.kwarg or f.args.kwonlyargs or f.args.defaults or f.returns is None:
            continue
        try:
            sig = ([Tr.ann_type(a.annotation) if a.annotation is not None else None for a in f.args.args], Tr.ann_type(f.returns))
        except Untranslatable:
            continue
        if sig == (list(d["params"]), d["ret"]):
            hits.append(f)
    if len(hits) > 1:
        raise Untranslatable("several functions %s -> %s are called from %s.%s: %s" % (d["params"], d["ret"], d["from"][0], d["from"][1], sorted(f.name for f in hits)))
    return hits[0] if hits else None


def discover_paths(fn: ast.FunctionDef) -> typing.Optional[typing.Tuple[str, str]]:
    """(root attribute, local) of the statement `local = <root>.name / <file>.relative_to(<root>)` of the constructor: the path of
    the file relative to the directory that contains the root namespace directory, whatever the two are called."""
    for s in fn.body:
        if (isinstance(s, ast.Assign) and len(s.targets) == 1 and isinstance(s.targets[0], ast.Name) and isinstance(s.value, ast.BinOp)
                and isinstance(s.value.op, ast.Div)):
            l, r = s.value.left, s.value.right
            if (isinstance(l, ast.Attribute) and l.attr == "name" and isinstance(r, ast.Call) and isinstance(r.func, ast.Attribute)
                    and r.func.attr == "relative_to" and len(r.args) == 1 and not r.keywords and ast.unparse(r.args[0]) == ast.unparse(l.value)):
                return ast.unparse(l.value), s.targets[0].id
    return None


def discover_property_attr(cls: ast.ClassDef, prop: str) -> typing.Optional[str]:
    """`self._x` for a property whose body is `return self._x`."""
    f = next((x for x in cls.body if isinstance(x, ast.FunctionDef) and x.name == prop and any(ast.unparse(d) == "property" for d in x.decorator_list)), None)
    if f is None:
        return None
    body = [x for x in f.body if not (isinstance(x, ast.Expr) and isinstance(x.value, ast.Constant))]
    if len(body) != 1 or not isinstance(body[0], ast.Return) or body[0].value is None:
        return None
    v: ast.AST = body[0].value
    if isinstance(v, ast.Call) and isinstance(v.func, ast.Name) and v.func.id in ("list", "str", "tuple") and len(v.args) == 1 and not v.keywords:
        v = v.args[0]      # a defensive copy / conversion of the attribute
    if isinstance(v, ast.Attribute) and isinstance(v.value, ast.Name) and v.value.id == "self" and v.attr.startswith("_"):
        return "self." + v.attr
    return None


def flatten_self_calls(cls: ast.ClassDef, fn: ast.FunctionDef, depth: int = 0) -> typing.List[ast.stmt]:
    """The top-level statements of a method, with every statement `self._m()` (a method of the same class that takes nothing but
    its receiver and returns nothing) replaced by that method's statements: where a constructor's checks were moved into
    private methods, the checks are still found."""
    out: typing.List[ast.stmt] = []
    for s in fn.body:
        if (depth < 4 and isinstance(s, ast.Expr) and isinstance(s.value, ast.Call) and isinstance(s.value.func, ast.Attribute)
                and isinstance(s.value.func.value, ast.Name) and s.value.func.value.id == "self" and not s.value.args and not s.value.keywords):
            m = next((f for f in cls.body if isinstance(f, ast.FunctionDef) and f.name == s.value.func.attr), None)
            if (m is not None and len(m.args.args) == 1 and not m.decorator_list
                    and not any(isinstance(x, ast.Return) and x.value is not None for x in ast.walk(m))):
                out += flatten_self_calls(cls, m, depth + 1)
                continue
        out.append(s)
    return out


def translate_item(item: dict, repo: Path) -> typing.Tuple[typing.List[str], typing.Optional[str]]:
    item = dict(item)
    params = " ".join("(%s : %s)" % (lname(p), lean_ty(t)) for p, t in item["params"])
    rt = lean_ty(item["ret"])
    rts = "(" + rt + ")" if " " in rt else rt
    head = "def Gen.%s %s : Py.M %s := do" % (item["name"], params, rts)
    try:
        src = (repo / item["source"]).read_text()
        tree = ast.parse(src)
        scope: typing.Any = tree
        if item["cls"] is not None:
            scope = next((c for c in tree.body if isinstance(c, ast.ClassDef) and c.name == item["cls"]), None)
            if scope is None:
                raise Untranslatable("class %s not found" % item["cls"])
        fn = next((f for f in scope.body if isinstance(f, ast.FunctionDef) and f.name == item["fn"]), None)
        if "discover" in item:
            fn = discover_by_signature(tree, item) or fn
        if fn is None:
            raise Untranslatable("%s not found" % item["fn"])
        if "discover_calls" in item:   # private helpers that are separate targets: found by signature, whatever their name
            calls = dict(item.get("calls", {}))
            for target, spec in item["discover_calls"].items():
                f = discover_by_signature(tree, {"discover": spec})
                if f is not None:
                    calls = {k: v for k, v in calls.items() if v[0] != target}
                    calls[f.name] = (target, list(spec["params"]), spec["ret"])
            item["calls"] = calls
        if item["kind"] == "slice" and isinstance(scope, ast.ClassDef):
            found = discover_paths(fn)
            if found is not None:
                root, rel = found
                item["paths"] = {root + ".name": item["params"][0], rel + ".name": item["params"][1], rel + ".parent.parts": item["params"][2]}
                item["skip_targets"] = [rel]
            props = [discover_property_attr(scope, p) for p in item.get("result_properties", [])]
            if props and all(props):
                item["result"] = props
        if isinstance(scope, ast.ClassDef):
            for prop, (old_path, val) in item.get("path_properties", {}).items():   # attribute behind a public property
                attr = discover_property_attr(scope, prop)
                if attr is not None and attr != old_path:
                    item["paths"] = {(attr if k == old_path else k): v for k, v in item["paths"].items()}
                    item["guard_reads"] = [attr if k == old_path else k for k in item.get("guard_reads", [])]
            tp = item.get("target_property")
            if tp is not None:
                item["target"] = discover_property_attr(scope, tp) or item["target"]
        lines = src.splitlines()
        text = "\n".join(lines[fn.lineno - 1: fn.end_lineno])
        span = "%s lines %d-%d sha256 %s" % (item["source"], fn.lineno, fn.end_lineno, hashlib.sha256(text.encode()).hexdigest()[:16])
        consts = {k: read_const(repo, k) for k in item.get("consts", [])}
        ctx = Ctx(item, tree, scope)
        tr = Tr(item, Hierarchy(repo, repo / item["source"]), consts, ctx)
        declared = {lname(p) for p, _ in item["params"]}
        body: typing.List[str] = []
        kind = item["kind"]
        if kind == "function":
            got = [(a.arg, Tr.ann_type(a.annotation) if a.annotation is not None else None) for a in fn.args.args]
            if [t for _, t in got] != [t for _, t in item["params"]] or fn.args.vararg or fn.args.kwarg or fn.args.kwonlyargs or fn.args.defaults:
                raise Untranslatable("signature %s, expected %s" % (got, item["params"]))
            item["params"] = got      # the parameters keep the names they have in the source
            params = " ".join("(%s : %s)" % (lname(p), lean_ty(t)) for p, t in got)
            head = "def Gen.%s %s : Py.M %s := do" % (item["name"], params, rts)
            ctx = Ctx(item, tree, scope)
            tr = Tr(item, Hierarchy(repo, repo / item["source"]), consts, ctx)
            declared = {lname(p) for p, _ in got}
            if tr.falls_through_assigning(fn.body) is not None:
                raise Untranslatable("a path without return")
            tr.stmts(fn.body, "  ", body, declared, compute_mut(tr, fn.body))
            note = "/- %s  %s -/" % (item["name"], span)
        elif kind == "slice":
            keys = list(item["paths"])
            start = next((i for i, s in enumerate(fn.body) if any(k in ast.unparse(s) for k in keys)), None)
            if start is None:
                raise Untranslatable("no statement of %s reads %s" % (item["fn"], keys))
            stmts = fn.body[start:]
            # `self._x = None` for an attribute that the slice neither returns nor reads (a cache slot): not part of the slice
            def none_init(x: ast.stmt) -> typing.Optional[str]:
                tg = x.targets[0] if isinstance(x, ast.Assign) and len(x.targets) == 1 else x.target if isinstance(x, ast.AnnAssign) else None
                v = getattr(x, "value", None)
                if (tg is not None and isinstance(tg, ast.Attribute) and isinstance(tg.value, ast.Name) and tg.value.id == "self"
                        and isinstance(v, ast.Constant) and v.value is None):
                    return ast.unparse(tg)
                return None
            loads = [ast.unparse(n) for x in stmts for n in ast.walk(x) if isinstance(n, ast.Attribute) and isinstance(n.ctx, ast.Load)]
            stmts = [x for x in stmts if not (none_init(x) is not None and none_init(x) not in item["result"] and none_init(x) not in loads)]
            if tr.falls_through_assigning(stmts) is None:
                raise Untranslatable("the slice never reaches its end")
            mut = compute_mut(tr, stmts)
            tr.stmts(stmts, "  ", body, declared, mut)
            res = []
            for r in item["result"]:
                loc = Tr.local_of(ast.parse(r, mode="eval").body)
                if loc is None or loc not in declared or loc not in tr.types:
                    raise Untranslatable("%s is not assigned by the slice" % r)
                res.append((loc, tr.types[loc]))
            if [t for _, t in res] != ["str", "ver", "optint"]:
                raise Untranslatable("result types %s" % res)
            body.append("  return ⟨%s, (%s).1, (%s).2, %s⟩" % (res[0][0], res[1][0], res[1][0], res[2][0]))
            note = "/- %s (constructor slice from line %d to the end: %s)  %s -/" % (item["name"], stmts[0].lineno, ", ".join(item["result"]), span)
        elif kind == "guards":
            allowed = set(item["guard_reads"])
            flat = flatten_self_calls(scope, fn) if isinstance(scope, ast.ClassDef) else list(fn.body)
            chosen = [s for s in flat if isinstance(s, ast.If) and not s.orelse and all(isinstance(x, ast.Raise) for x in s.body)
                      and reads_of(s.test) and reads_of(s.test) <= allowed]
            # how many guards there are is not prescribed (two may be merged into one, one split into two): the bridge theorem
            # characterises what they accept together, so a missing or a weakened guard breaks the proof, not the translation
            if not chosen:
                raise Untranslatable("no guard over %s found" % sorted(allowed))
            tr.stmts(chosen, "  ", body, declared, set())
            body.append("  pure ()")
            note = "/- %s (constructor guards in lines %s)  %s -/" % (item["name"], ", ".join(str(s.lineno) for s in chosen), span)
        elif kind == "assignment":
            flat = flatten_self_calls(scope, fn) if isinstance(scope, ast.ClassDef) else list(fn.body)
            chosen = [s for s in flat if isinstance(s, ast.Assign) and len(s.targets) == 1 and ast.unparse(s.targets[0]) == item["target"]]
            if len(chosen) != 1:
                raise Untranslatable("%d assignments to %s" % (len(chosen), item["target"]))
            v, t = tr.e(chosen[0].value)
            if t != item["ret"]:
                raise Untranslatable("%s has type %s" % (item["target"], t))
            tr.flush(body, "  ")
            body.append("  return %s" % v)
            note = "/- %s (constructor slice: %s, line %d)  %s -/" % (item["name"], item["target"], chosen[0].lineno, span)
        else:  # pragma: no cover
            raise Untranslatable("item kind %s" % kind)
        return [note, head] + ctx.out + body + [""], None
    except (Untranslatable, OSError, SyntaxError) as ex:
        ps = " ".join("(_%s : %s)" % (lname(p), lean_ty(t)) for p, t in item["params"])
        stub = ["def Gen.%s %s : Py.M %s :=" % (item["name"], ps, rts),
                '  throw (.other "untranslatable: %s")' % str(ex).replace("\\", "/").replace('"', "'").replace("\n", " ")[:200], ""]
        return stub, "%s %s: %s" % (item["source"], item["name"], ex)


def _module(header: str, preamble: typing.List[str], items: typing.List[dict], repo: Path) -> typing.Tuple[str, typing.List[str]]:
    out = ["import PyLib", "/-! GENERATED by tools/py2lean.py (%s) -- do not edit. -/" % header, "set_option linter.unusedVariables false", ""] + preamble
    problems: typing.List[str] = []
    for item in items:
        lines, prob = translate_item(item, repo)
        out += lines
        if prob:
            problems.append(prob)
    return "\n".join(out) + "\n", problems


def translate_filename(repo: Path) -> typing.Tuple[str, typing.List[str]]:
    return _module("file-name group: pydsdl/_dsdl_definition.py", FILENAME_PREAMBLE, FILENAME_ITEMS, repo)


def translate_composite_name(repo: Path) -> typing.Tuple[str, typing.List[str]]:
    return _module("name-shape guards of CompositeType.__init__: pydsdl/_serializable/_composite.py", [], COMPOSITE_ITEMS, repo)
