#!/bin/sh
# tools/lb.sh <lake targets...> : regenerate lean/Gen from /repo and build, holding the same lock as the checks
cd /verif/lean && mkdir -p .lake && flock .lake/verif.lock sh -c '/venv/bin/python /verif/tools/py2lean.py --repo /repo --out /verif/lean/Gen >/dev/null; lake build "$@"' sh "$@"
