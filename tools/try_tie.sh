#!/bin/sh
# tools/try_tie.sh <patch.diff>... : for each behaviour-preserving patch, regenerate lean/Gen from a scratch copy of /repo with the patch
# applied and build every Props*Gen module (the translator tie only, no suites); prints the translator problems and the modules that fail.
# Holds the Lean lock; regenerates from /repo at the end.
cd /verif/lean && mkdir -p .lake
MODS=$(ls Props/*Gen*.lean | sed 's|/|.|; s|\.lean$||' | tr '\n' ' ')
for P in "$@"; do
  D=$(mktemp -d /tmp/tieXXXXXX)
  cp -r /repo/pydsdl "$D/" && (cd "$D" && patch -s -p1 < "$P") || { echo "$P: patch failed"; rm -rf "$D"; continue; }
  flock .lake/verif.lock sh -c '
    /venv/bin/python /verif/tools/py2lean.py --repo "$1" --out /verif/lean/Gen 2>&1 | grep "^py2lean:" | sed "s/^py2lean: \(\[[A-Za-z.]*\]\).*/\1/" | sort | uniq -c | tr "\n" " "
    shift; lake build "$@" 2>&1 | grep "^- " | tr "\n" " "' sh "$D" $MODS > /tmp/tie.out 2>&1
  R=$(cat /tmp/tie.out)
  [ -z "$R" ] && echo "$P: green" || echo "$P: BROKEN $R"
  rm -rf "$D"
done
flock .lake/verif.lock sh -c '/venv/bin/python /verif/tools/py2lean.py --repo /repo --out /verif/lean/Gen >/dev/null; lake build '"$MODS"' 2>&1 | tail -1'
