import PyLib
def hexVal (c : Char) : Nat := if c.isDigit then c.toNat - 48 else c.toNat - 87
def decode : List Char → List Char
  | a :: b :: c :: d :: r => Char.ofNat (((hexVal a * 16 + hexVal b) * 16 + hexVal c) * 16 + hexVal d) :: decode r
  | _ => []
partial def loop (h : IO.FS.Stream) : IO Unit := do
  let line ← h.getLine
  if line.isEmpty then return
  let s := String.ofList (decode (line.trimAscii.toString).toList)
  let r := match Py.intOfStr s with
    | .ok v => s!"ok {v}"
    | .error .valueError => "VE"
    | .error _ => "OUT"
  let d := match Py.strIsdigit s with
    | .ok b => s!"{b}"
    | .error _ => "OUT"
  IO.println s!"{r} {Py.strIsascii s} {d} {(Py.strSplitChar s '.').length}"
  loop h
def main : IO Unit := do loop (← IO.getStdin)
