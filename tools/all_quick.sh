#!/bin/sh
# tools/all_quick.sh [seed]: run every quick check against /repo; print one line per property
cd /verif
for i in 01 02 03 04 05 06 07 08 09 10 11 12 13 14 15 16 17 18 19; do
  s=$(date +%s); VERIF_SEED=${1:-0} ./check C$i --tier quick > /tmp/allq_C$i.log 2>&1; rc=$?; e=$(date +%s)
  echo "C$i rc=$rc $((e-s))s viol=$(grep -c '^VIOLATION' /tmp/allq_C$i.log) known=$(grep -c '^KNOWN-FINDING' /tmp/allq_C$i.log)"
done
