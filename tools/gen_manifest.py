#!/usr/bin/env python3
"""Regenerate MANIFEST.json from harness/registry.py (single source of truth for what is claimed)."""
import json
import sys
from pathlib import Path

ROOT = Path(__file__).resolve().parent.parent
sys.path.insert(0, str(ROOT / "harness"))
from registry import REGISTRY, NOT_CLAIMED  # noqa: E402

props = [json.loads(l) for l in (ROOT / "properties.jsonl").read_text().splitlines() if l.strip()]
checks = []
na = []
for p in props:
    pid = p["id"]
    if pid in REGISTRY:
        r = REGISTRY[pid]
        checks.append({
            "property_id": pid,
            "quick_cmd": "./check %s --tier quick" % pid,
            "thorough_cmd": "./check %s --tier thorough" % pid,
            "evidence_file": "evidence/%s.json" % pid,
            "replay_cmd_template": "./check %s --replay {path}" % pid,
            "engine": "lean-proofs+correspondence",
            "level_claimed": {
                "category": "proof",
                "text": r["level_text"],
                "design_ref": r.get("design_ref", "DESIGN.md section 5, " + pid),
            },
            "level_note": r["level_note"],
            "technique": r["technique"],
        })
    else:
        na.append({"property_id": pid, "reason": NOT_CLAIMED.get(pid, "check not built yet; planned at proof level (DESIGN.md section 10)")})

manifest = {
    "version": 1,
    "setup_cmd": "./setup.sh",
    "hooks": {
        "guard": "PYDSDL_VERIF",
        "enable": "no source hooks: checks import pydsdl from /repo's working tree (PYTHONPATH, in-process) and wrap module attributes from the harness; PYDSDL_VERIF=1 is exported by the harness but nothing in /repo reads it",
        "baseline_off_cmd": "cd /repo && /venv/bin/python -m pytest -ra -q -p no:cacheprovider --timeout=900 --continue-on-collection-errors",
        "source_commits": [],
        "add_only": True,
    },
    "engines": [
        {"name": "lean-proofs", "path": "lean/", "serves_properties": [c["property_id"] for c in checks],
         "kind_free_text": "Lean 4 models (lean/Model), property theorems (lean/Props) and lemmas (lean/Proofs); built and axiom-audited on every run"},
        {"name": "py2lean-bridge", "path": "tools/py2lean.py",
         "serves_properties": [c["property_id"] for c in checks if any(str(m).endswith("Gen") for m in ([REGISTRY[c["property_id"]]["module"]] if isinstance(REGISTRY[c["property_id"]]["module"], str) else REGISTRY[c["property_id"]]["module"]))],
         "kind_free_text": "translator: re-generates lean/Gen/*.lean from the Python kernels of /repo's working tree on every run (tools/py2lean.py, tools/py2lean_layout.py; semantics in lean/PyLib.lean); lean/Bridge/*.lean proves the generated definitions equal to the model and exception-free; lean/Props/*Gen.lean restate the property theorems over the generated code"},
        {"name": "correspondence", "path": "harness/", "serves_properties": [c["property_id"] for c in checks],
         "kind_free_text": "differential harness: compiled Lean model driver (lean/Driver) vs the real pydsdl from /repo on generated inputs, plus independent property oracles and failing-input search"},
    ],
    "checks": checks,
    "not_applicable": na,
    "notes": "All checks: ./check <ID> --tier quick|thorough (cwd /verif); honours VERIF_SEED, VERIF_TIER, VERIF_REPO. Exit 0 ok, 1 VIOLATION, 2 infrastructure failure. known_findings.json lists recorded findings and fixed defects.",
}
(ROOT / "MANIFEST.json").write_text(json.dumps(manifest, indent=1) + "\n")
print("MANIFEST.json: %d checks, %d not claimed" % (len(checks), len(na)))
