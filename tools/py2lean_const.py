"""
Constant group of py2lean: the constant compliance rules of pydsdl.  Output: lean/Gen/Constant.lean (meaning of the fragment:
lean/PyConst.lean).

What is translated, all of it read from the working tree of $VERIF_REPO with `ast` on every run:

  * the class hierarchies: the `class` statements of `_serializable/_primitive.py` (+ `SerializableType`, `Any`) and of
    `_expression/_primitive.py`, `_expression/_container.py` become the method-resolution-order tables `Gen.Cst.Primitive.mro` /
    `Gen.Cst.Expression.mro`, through which every `isinstance` of the translated code is decided;
  * the constructors of the primitive types, statement by statement along the `super().__init__(...)` chain (`PrimitiveType`,
    `BooleanType`, `ArithmeticType`, `IntegerType`, `SignedIntegerType`, `UnsignedIntegerType`, `ByteType`, `UTF8Type`, `FloatType`):
    the attributes `_bit_length`, `_cast_mode`, `_magnitude` become the fields of `Py.Obj`; the `if ...: raise` guards; the table of
    the float limits (a dict display subscripted inside `try / except KeyError`), whose `Fraction` arithmetic is translated as exact
    rational arithmetic (`Py.fracPow`, `Py.intPow`);
  * `PrimitiveType.bit_length`, `inclusive_value_range` of the signed / unsigned / float types, and the virtual dispatch on the
    class of the object (`Gen.Cst.Ty.bit_length`, `Gen.Cst.Ty.inclusive_value_range`), resolved through the MRO;
  * `Rational.is_integer`, `Rational.native_value`, `String.native_value`, `Rational.__init__` on an `int`;
  * `Constant.__init__`: the whole decision, with the value the constant stores as the result.

Not translated, on purpose (listed in the header of each generated definition): `Attribute.__init__` (the name rules are C05's, the
serializability check concerns service types), the attribute `_standard_bit_length` (nothing in this group reads it) together with the
locals of a constructor that feed nothing else (slice by data flow, `outside_slice_locals`), the texts of the exception messages.

Supported expressions: int / bool literals, names, + - * // % ** << >> & | ^ ~ on ints (exact `Int` semantics, see lean/PyConst.lean),
+ - * ** on Fractions, comparison chains, and / or / not and `a if c else b` (operations of a conditionally evaluated operand stay in
its branch), isinstance, len, ord, int, Fraction(...), ValueRange(...), dict display subscripts, attribute / property / method access
resolved through the method resolution order.

Anything outside the supported fragment makes the definition concerned an always-failing stub and is reported as a problem
(`py2lean: [Gen.Constant] ...`): never guess.
"""
from __future__ import annotations

import ast
import hashlib
import typing
from collections import OrderedDict
from pathlib import Path

PRIM = "pydsdl/_serializable/_primitive.py"
SER = "pydsdl/_serializable/_serializable.py"
ATTR = "pydsdl/_serializable/_attribute.py"
ANY = "pydsdl/_expression/_any.py"
EXPR = "pydsdl/_expression/_primitive.py"
CONT = "pydsdl/_expression/_container.py"
OTHER_TYPES = ["pydsdl/_serializable/_void.py", "pydsdl/_serializable/_array.py", "pydsdl/_serializable/_composite.py"]

PRIM_CLS = ["BooleanType", "UnsignedIntegerType", "ByteType", "UTF8Type", "SignedIntegerType", "FloatType"]
VAL_CLS = ["Boolean", "Rational", "String", "Set", "SerializableType"]
VAL_PAYLOAD = {"Boolean": ("bool", "asBoolean"), "Rational": ("frac", "asRational"), "String": ("str", "asString")}

TRACKED_ATTRS = {"_bit_length": ("bit_length", "int"), "_cast_mode": ("cast_mode", "castmode"), "_magnitude": ("magnitude", "frac")}
IGNORED_ATTRS = {"_standard_bit_length"}

LEAN_TY = {"int": "Int", "frac": "Rat", "bool": "Bool", "str": "(List Nat)", "bytes": "(List Nat)", "castmode": "Py.CastMode",
           "obj": "Py.Obj", "ty": "Py.Ty", "value": "Py.Value", "range": "(Rat × Rat)"}

KEYWORDS = {"end", "at", "from", "by", "do", "then", "fun", "let", "in", "open", "show", "have", "match", "with", "where", "instance",
            "class", "structure", "def", "theorem", "mut", "type", "if", "else", "for", "return", "pure"}


class Untranslatable(Exception):
    pass


def lname(n: str) -> str:
    n = n.lstrip("_") or n
    return n + "'" if n in KEYWORDS else n


def lean_str(s: str) -> str:
    return '"' + s.replace("\\", "\\\\").replace('"', '\\"').replace("\n", " ") + '"'


class Src:
    def __init__(self, repo: Path, rel: str):
        self.rel = rel
        self.text = (repo / rel).read_text()
        self.tree = ast.parse(self.text)
        self.lines = self.text.splitlines()
        self.classes: typing.Dict[str, ast.ClassDef] = {n.name: n for n in self.tree.body if isinstance(n, ast.ClassDef)}

    def span(self, node: ast.AST) -> str:
        text = "\n".join(self.lines[node.lineno - 1: node.end_lineno])
        return "%s lines %d-%d sha256 %s" % (self.rel, node.lineno, node.end_lineno, hashlib.sha256(text.encode()).hexdigest()[:16])


def base_names(cls: ast.ClassDef) -> typing.List[str]:
    out = []
    for b in cls.bases:
        if isinstance(b, ast.Name):
            out.append(b.id)
        elif isinstance(b, ast.Attribute):
            out.append(b.attr)
        else:
            raise Untranslatable("base class expression of %s" % cls.name)
    if cls.keywords:
        raise Untranslatable("class keywords of %s" % cls.name)
    return out


def method(cls: ast.ClassDef, name: str) -> typing.Optional[ast.FunctionDef]:
    found = [f for f in cls.body if isinstance(f, ast.FunctionDef) and f.name == name]
    if len(found) > 1:
        raise Untranslatable("%s.%s defined more than once" % (cls.name, name))
    return found[0] if found else None


def is_property(fn: ast.FunctionDef) -> bool:
    return any(isinstance(d, ast.Name) and d.id == "property" for d in fn.decorator_list)


def plain_decorators(fn: ast.FunctionDef) -> bool:
    for d in fn.decorator_list:
        if isinstance(d, ast.Name) and d.id == "property":
            continue
        if isinstance(d, ast.Attribute) and isinstance(d.value, ast.Name) and d.value.id == "abc" and d.attr == "abstractmethod":
            continue
        return False
    return True


class World:
    """The classes of the sources of this group and what is generated from them (an ordered table of Lean definitions)."""

    def __init__(self, repo: Path):
        self.repo = repo
        self.srcs: typing.Dict[str, Src] = {}
        self.where: typing.Dict[str, typing.Tuple[Src, ast.ClassDef]] = {}
        self.defs: "OrderedDict[str, typing.List[str]]" = OrderedDict()
        self.problems: typing.List[str] = []
        self.load_problem: typing.Optional[str] = None
        for rel in (PRIM, SER, ANY, EXPR, CONT, ATTR):
            try:
                s = Src(repo, rel)
            except (OSError, SyntaxError, ValueError) as ex:
                self.load_problem = "%s: cannot read / parse: %s" % (rel, ex)
                continue
            self.srcs[rel] = s
            if rel == ATTR:
                continue
            for name, c in s.classes.items():
                if name in self.where:
                    self.load_problem = "class %s is defined in %s and in %s" % (name, self.where[name][0].rel, rel)
                self.where[name] = (s, c)

    # --- hierarchy
    def mro(self, name: str) -> typing.List[str]:
        out = []
        seen = set()
        while True:
            if name in seen:
                raise Untranslatable("cyclic hierarchy at %s" % name)
            seen.add(name)
            if name not in self.where:
                raise Untranslatable("class %s not found" % name)
            out.append(name)
            bases = [b for b in base_names(self.where[name][1]) if b not in ("ABC", "object")]
            if not bases:
                return out
            if len(bases) > 1:
                raise Untranslatable("multiple inheritance of %s" % name)
            name = bases[0]

    def resolve(self, cls: str, member: str) -> typing.Optional[typing.Tuple[str, ast.FunctionDef]]:
        for c in self.mro(cls):
            f = method(self.where[c][1], member)
            if f is not None:
                return c, f
            for n in self.where[c][1].body:  # a class attribute of that name shadows inherited methods
                if isinstance(n, (ast.Assign, ast.AnnAssign)):
                    tg = n.targets if isinstance(n, ast.Assign) else [n.target]
                    if any(isinstance(t, ast.Name) and t.id == member for t in tg):
                        raise Untranslatable("%s.%s is a class attribute, not a method" % (c, member))
        return None

    def class_const(self, cls: str, name: str) -> int:
        for c in self.mro(cls):
            hits = []
            for n in self.where[c][1].body:
                if isinstance(n, ast.Assign) and any(isinstance(t, ast.Name) and t.id == name for t in n.targets):
                    hits.append(n.value)
                elif isinstance(n, ast.AnnAssign) and isinstance(n.target, ast.Name) and n.target.id == name:
                    hits.append(n.value)
                elif isinstance(n, (ast.FunctionDef, ast.ClassDef)) and n.name == name:
                    raise Untranslatable("%s.%s is not an integer constant" % (c, name))
            if len(hits) > 1:
                raise Untranslatable("%s.%s assigned more than once" % (c, name))
            if hits:
                v = hits[0]
                if isinstance(v, ast.Constant) and isinstance(v.value, int) and not isinstance(v.value, bool):
                    return v.value
                raise Untranslatable("%s.%s is not an integer literal" % (c, name))
        raise Untranslatable("class constant %s.%s not found" % (cls, name))

    def check_cast_mode_enum(self) -> None:
        s, c = self.where["PrimitiveType"]
        enums = [n for n in c.body if isinstance(n, ast.ClassDef) and n.name == "CastMode"]
        if len(enums) != 1:
            raise Untranslatable("PrimitiveType.CastMode not found")
        members = []
        for n in enums[0].body:
            if isinstance(n, ast.Assign) and len(n.targets) == 1 and isinstance(n.targets[0], ast.Name) and isinstance(n.value, ast.Constant):
                members.append((n.targets[0].id, n.value.value))
            elif isinstance(n, ast.Expr) and isinstance(n.value, ast.Constant):
                continue
            else:
                raise Untranslatable("member of PrimitiveType.CastMode")
        if sorted(m for m, _ in members) != ["SATURATED", "TRUNCATED"] or len({v for _, v in members}) != 2:
            raise Untranslatable("PrimitiveType.CastMode is not {SATURATED, TRUNCATED} with distinct values")

    # --- table of generated definitions
    def ensure(self, name: str, sig: str, build: typing.Callable[[], typing.Tuple[str, typing.List[str]]], monadic: bool = True,
               fallback: str = "") -> None:
        """`sig` = text between `def name` and `:=`.  `build` returns (header comment, body lines)."""
        if name in self.defs:
            return
        self.defs[name] = []  # placeholder: recursion guard
        try:
            head, body = build()
            lines = ["/- %s -/" % head, "def %s %s :=%s" % (name, sig, " do" if monadic else "")] + body
        except Untranslatable as ex:
            self.problems.append("%s: %s" % (name, ex))
            stub = "  throw (.other %s)" % lean_str("untranslatable: %s" % ex) if monadic else "  " + fallback
            lines = ["/- %s: UNTRANSLATABLE -/" % name, "def %s %s :=" % (name, sig), stub]
        del self.defs[name]
        self.defs[name] = lines  # after its dependencies


# ----------------------------------------------------------------------------------------------- function bodies

class FnTr:
    """Statement-by-statement translation of one function body into a `do` block of `Py.M`.  Expressions are typed, pure Lean terms; a
    sub-expression that may raise is hoisted into a monadic `let t ← …` in front of its statement (the fragment has no other effects);
    under `and` / `or` the hoisted operations stay inside the operand that is evaluated conditionally."""

    def __init__(self, world: World, kind: str, cls: typing.Optional[str], src: Src):
        self.w = world
        self.kind = kind  # "prim-init" | "prim-method" | "val-method" | "const-init"
        self.cls = cls
        self.src = src
        self.types: typing.Dict[str, str] = {}
        self.narrow: typing.Dict[str, str] = {}   # variable (or "self._value") -> established leaf class of a value
        self.frac_alias: typing.Set[str] = set()
        self.pre: typing.List[str] = []
        self.tmp = 0
        self.declared: typing.Set[str] = set()
        self.notes: typing.List[str] = []
        self.payload_type: typing.Optional[str] = None  # val-method: type of self._value
        self.outside: typing.Dict[str, ast.stmt] = {}  # prim-init: locals outside the slice (see outside_slice_locals)

    # --- helpers
    def bind(self, m: str) -> str:
        self.tmp += 1
        v = "t%d" % self.tmp
        self.pre.append("let %s ← %s" % (v, m))
        return v

    def as_frac(self, t: str, v: str) -> str:
        if t == "frac":
            return v
        if t == "int":
            return "((%s : Int) : Rat)" % v
        raise Untranslatable("a %s where a number is expected" % t)

    def class_of(self, n: ast.AST) -> str:
        """The name of the class an expression denotes (`X`, `_expression.X`, `fractions.Fraction`, `int`, ...)."""
        if isinstance(n, ast.Name):
            return "Fraction" if n.id in self.frac_alias else n.id
        if isinstance(n, ast.Attribute) and isinstance(n.value, ast.Name) and n.value.id in ("_expression", "fractions", "_any", "_primitive"):
            return n.attr
        raise Untranslatable("class expression %s" % ast.unparse(n))

    def value_key(self, n: ast.AST) -> typing.Optional[str]:
        if isinstance(n, ast.Name) and self.types.get(n.id) == "value":
            return n.id
        if self.kind == "const-init" and isinstance(n, ast.Attribute) and isinstance(n.value, ast.Name) and n.value.id == "self" and n.attr == "_value":
            return "self._value"
        return None

    # --- expressions: (type, lean term)
    def e(self, n: ast.AST) -> typing.Tuple[str, str]:
        if isinstance(n, ast.Constant):
            if isinstance(n.value, bool):
                return "bool", "true" if n.value else "false"
            if isinstance(n.value, int):
                return "int", "(%d : Int)" % n.value
            raise Untranslatable("constant %r" % (n.value,))
        if isinstance(n, ast.Name):
            if n.id in self.types:
                return self.types[n.id], lname(n.id)
            raise Untranslatable("name %s" % n.id)
        if isinstance(n, ast.Attribute):
            return self.attribute(n)
        if isinstance(n, ast.UnaryOp):
            if isinstance(n.op, ast.Not):
                return "bool", "(!%s)" % self.truth(n.operand)
            t, v = self.e(n.operand)
            if isinstance(n.op, ast.Invert) and t == "int":
                return t, "(Py.intInvert %s)" % v
            if t not in ("int", "frac"):
                raise Untranslatable("unary %s of a %s" % (type(n.op).__name__, t))
            if isinstance(n.op, ast.USub):
                return t, "(-%s)" % v
            if isinstance(n.op, ast.UAdd):
                return t, v
            raise Untranslatable("unary %s" % type(n.op).__name__)
        if isinstance(n, ast.BinOp):
            return self.binop(n)
        if isinstance(n, ast.BoolOp):
            return "bool", self.boolop(n)
        if isinstance(n, ast.IfExp):
            return self.ifexp(n)
        if isinstance(n, ast.Compare):
            return "bool", self.compare(n)
        if isinstance(n, ast.Call):
            return self.call(n)
        if isinstance(n, ast.Subscript):
            return self.subscript(n)
        raise Untranslatable("expression %s" % type(n).__name__)

    def truth(self, n: ast.AST) -> str:
        t, v = self.e(n)
        if t != "bool":
            raise Untranslatable("truth value of a %s" % t)
        return v

    def binop(self, n: ast.BinOp) -> typing.Tuple[str, str]:
        lt, lv = self.e(n.left)
        rt, rv = self.e(n.right)
        if lt not in ("int", "frac") or rt not in ("int", "frac"):
            raise Untranslatable("operator %s between %s and %s" % (type(n.op).__name__, lt, rt))
        both_int = lt == rt == "int"
        if isinstance(n.op, (ast.Add, ast.Sub, ast.Mult)):
            sym = {ast.Add: "+", ast.Sub: "-", ast.Mult: "*"}[type(n.op)]
            if both_int:
                return "int", "(%s %s %s)" % (lv, sym, rv)
            return "frac", "(%s %s %s)" % (self.as_frac(lt, lv), sym, self.as_frac(rt, rv))
        if isinstance(n.op, ast.FloorDiv) and both_int:
            return "int", self.bind("Py.intFloordiv %s %s" % (lv, rv))
        if isinstance(n.op, ast.LShift) and both_int:
            return "int", self.bind("Py.intShl %s %s" % (lv, rv))
        if isinstance(n.op, ast.RShift) and both_int:
            return "int", self.bind("Py.intShr %s %s" % (lv, rv))
        if isinstance(n.op, ast.Mod) and both_int:
            return "int", self.bind("Py.intMod %s %s" % (lv, rv))
        if isinstance(n.op, (ast.BitAnd, ast.BitOr, ast.BitXor)) and both_int:
            fn = {ast.BitAnd: "intAnd", ast.BitOr: "intOr", ast.BitXor: "intXor"}[type(n.op)]
            return "int", "(Py.%s %s %s)" % (fn, lv, rv)
        if isinstance(n.op, ast.Pow):
            if both_int:
                return "int", self.bind("Py.intPow %s %s" % (lv, rv))
            if lt == "frac":
                return "frac", self.bind("Py.fracPow %s %s" % (lv, self.as_frac(rt, rv)))
        raise Untranslatable("operator %s between %s and %s" % (type(n.op).__name__, lt, rt))

    def operand(self, n: ast.AST) -> typing.Tuple[typing.List[str], str]:
        """A boolean operand together with the hoisted operations it needs."""
        saved, self.pre = self.pre, []
        v = self.truth(n)
        mine, self.pre = self.pre, saved
        return mine, v

    def boolop(self, n: ast.BoolOp) -> str:
        is_or = isinstance(n.op, ast.Or)
        ops = [self.operand(v) for v in n.values]
        # from the right: `a or b` = if a then true else b, keeping b's raising operations inside the else branch
        pre_r, val_r = ops[-1]
        for pre_l, val_l in reversed(ops[:-1]):
            if not pre_r:
                val_r = "(%s %s %s)" % (val_l, "||" if is_or else "&&", val_r)
                pre_r = pre_l
            else:
                inner = "".join("\n    %s" % p.replace("\n", "\n    ") for p in pre_r) + "\n    pure %s" % val_r
                short = "pure true" if is_or else "pure false"
                cond = val_l if is_or else "(!%s)" % val_l
                self.tmp += 1
                t = "t%d" % self.tmp
                pre_r = pre_l + ["let %s ← (if %s then %s else do%s)" % (t, cond, short, inner)]
                val_r = t
        self.pre.extend(pre_r)
        return val_r

    def ifexp(self, n: ast.IfExp) -> typing.Tuple[str, str]:
        """`a if c else b`: only the selected operand is evaluated, so the operations an operand hoists stay in its branch."""
        c = self.truth(n.test)  # the condition is always evaluated: its operations are hoisted in front
        saved, self.pre = self.pre, []
        at, av = self.e(n.body)
        pre_a, self.pre = self.pre, []
        bt, bv = self.e(n.orelse)
        pre_b, self.pre = self.pre, saved
        if at != bt:
            if {at, bt} == {"int", "frac"}:
                av, bv, at = self.as_frac(at, av), self.as_frac(bt, bv), "frac"
            else:
                raise Untranslatable("conditional expression between %s and %s" % (at, bt))
        if not pre_a and not pre_b:
            return at, "(if %s then %s else %s)" % (c, av, bv)

        def block(pre: typing.List[str], v: str) -> str:
            return "do" + "".join("\n    %s" % p.replace("\n", "\n    ") for p in pre) + "\n    pure %s" % v
        return at, self.bind("(if %s then %s else %s)" % (c, block(pre_a, av), block(pre_b, bv)))

    def compare(self, n: ast.Compare) -> str:
        parts = []
        lt, lv = self.e(n.left)
        for i, (op, c) in enumerate(zip(n.ops, n.comparators)):
            before = len(self.pre)
            rt, rv = self.e(c)
            if i > 0 and len(self.pre) != before:
                # `a < b < c` does not evaluate `c` when `a < b` is false
                raise Untranslatable("chained comparison with raising operands")
            if isinstance(op, (ast.Eq, ast.NotEq)):
                if lt == rt and lt in ("int", "frac", "bool", "castmode"):
                    a, b = lv, rv
                elif {lt, rt} == {"int", "frac"}:
                    a, b = self.as_frac(lt, lv), self.as_frac(rt, rv)
                else:
                    raise Untranslatable("`==` between %s and %s" % (lt, rt))
                parts.append("(%s %s %s)" % (a, "==" if isinstance(op, ast.Eq) else "!=", b))
            else:
                sym = {ast.LtE: "≤", ast.Lt: "<", ast.GtE: "≥", ast.Gt: ">"}.get(type(op))
                if sym is None or lt not in ("int", "frac") or rt not in ("int", "frac"):
                    raise Untranslatable("comparison %s between %s and %s" % (type(op).__name__, lt, rt))
                if lt == rt:
                    a, b = lv, rv
                else:
                    a, b = self.as_frac(lt, lv), self.as_frac(rt, rv)
                parts.append("decide (%s %s %s)" % (a, sym, b))
            lt, lv = rt, rv
        return parts[0] if len(parts) == 1 and parts[0].startswith("(") else "(" + " && ".join(parts) + ")"

    def attribute(self, n: ast.Attribute) -> typing.Tuple[str, str]:
        # PrimitiveType.CastMode.SATURATED
        if (isinstance(n.value, ast.Attribute) and n.value.attr == "CastMode" and isinstance(n.value.value, ast.Name)
                and (n.value.value.id in self.w.where or n.value.value.id == "self")):
            owner = self.cls if n.value.value.id == "self" else n.value.value.id
            if owner is None or "PrimitiveType" not in self.w.mro(owner):
                raise Untranslatable("%s" % ast.unparse(n))
            self.w.check_cast_mode_enum()
            if n.attr not in ("SATURATED", "TRUNCATED"):
                raise Untranslatable("cast mode %s" % n.attr)
            return "castmode", "Py.CastMode.%s" % n.attr
        if isinstance(n.value, ast.Name) and n.value.id == "self":
            return self.self_attr(n.attr)
        if isinstance(n.value, ast.Name) and n.value.id in self.w.where and n.value.id not in self.types:
            return "int", "(%d : Int)" % self.w.class_const(n.value.id, n.attr)  # class constant
        t, v = self.e(n.value)
        if t == "range" and n.attr in ("min", "max"):
            return "frac", "%s.%d" % (v, 1 if n.attr == "min" else 2)
        if t == "frac" and n.attr == "denominator":
            return "int", "(Py.fracDenominator %s)" % v
        if t == "frac" and n.attr == "numerator":
            return "int", "(Py.fracNumerator %s)" % v
        if t == "ty":
            return self.ty_member(v, n.attr)
        if t == "value":
            return self.value_member(n.value, v, n.attr, call=False)
        raise Untranslatable("attribute .%s of a %s" % (n.attr, t))

    def self_attr(self, a: str) -> typing.Tuple[str, str]:
        if self.kind in ("prim-init", "prim-method"):
            if a in TRACKED_ATTRS:
                f, t = TRACKED_ATTRS[a]
                return t, self.bind("Py.attr self.%s" % f)
            assert self.cls
            try:
                return "int", "(%d : Int)" % self.w.class_const(self.cls, a)
            except Untranslatable:
                pass
            r = self.w.resolve(self.cls, a)
            if r is not None and is_property(r[1]):
                name, rt = prim_method(self.w, r[0], a)
                return rt, self.bind("%s self" % name)
            raise Untranslatable("self.%s" % a)
        if self.kind == "val-method":
            if a == "_value" and self.payload_type:
                return self.payload_type, "value"
            raise Untranslatable("self.%s" % a)
        if self.kind == "const-init":
            if a == "_value":
                if "self_value" not in self.declared:
                    raise Untranslatable("self._value read before it is assigned")
                return "value", "self_value"
            if a == "data_type":
                check_data_type_property(self.w)
                return "ty", "data_type"
            raise Untranslatable("self.%s" % a)
        raise Untranslatable("self.%s" % a)

    def ty_member(self, v: str, a: str) -> typing.Tuple[str, str]:
        name, rt = ty_dispatch(self.w, a)
        return rt, self.bind("%s %s" % (name, v))

    def value_member(self, node: ast.AST, v: str, a: str, call: bool) -> typing.Tuple[str, str]:
        key = self.value_key(node)
        cls = self.narrow.get(key) if key else None
        if cls is None:
            raise Untranslatable(".%s of a value whose class is not established by an enclosing isinstance" % a)
        r = self.w.resolve(cls, a)
        if r is None:
            raise Untranslatable("%s has no member %s" % (cls, a))
        if is_property(r[1]) == call:
            raise Untranslatable("%s.%s: property / method mismatch" % (cls, a))
        name, rt = val_method(self.w, cls, r[0], a)
        p = self.bind("Py.Value.%s %s" % (VAL_PAYLOAD[cls][1], v))
        return rt, self.bind("%s %s" % (name, p))

    def subscript(self, n: ast.Subscript) -> typing.Tuple[str, str]:
        if isinstance(n.value, ast.Dict):
            entries = []
            vt = None
            for k, val in zip(n.value.keys, n.value.values):
                if k is None:
                    raise Untranslatable("dict unpacking")
                kt, kv = self.e(k)
                t, v = self.e(val)
                if kt != "int" or t not in ("int", "frac"):
                    raise Untranslatable("dict display with %s keys and %s values" % (kt, t))
                vt = t if vt in (None, t) else "frac"
                entries.append((kv, t, v))
            if vt is None:
                raise Untranslatable("empty dict display")
            it, iv = self.e(n.slice)
            if it != "int":
                raise Untranslatable("dict subscript of type %s" % it)
            items = ", ".join("(%s, %s)" % (kv, v if t == vt else self.as_frac(t, v)) for kv, t, v in entries)
            return vt, self.bind("Py.dictIndex [%s] %s" % (items, iv))
        raise Untranslatable("subscript %s" % ast.unparse(n)[:60])

    def isinstance_(self, n: ast.Call) -> str:
        if len(n.args) != 2 or n.keywords:
            raise Untranslatable("isinstance arity")
        classes = [self.class_of(c) for c in (n.args[1].elts if isinstance(n.args[1], ast.Tuple) else [n.args[1]])]
        t, v = self.e(n.args[0])
        if t == "value":
            for c in classes:
                if c not in self.w.where or "Any" not in self.w.mro(c):
                    raise Untranslatable("isinstance of a value against %s" % c)
            return "(" + " || ".join('Py.Value.isinstance Gen.Cst.Expression.mro %s "%s"' % (v, c) for c in classes) + ")"
        if t == "ty":
            for c in classes:
                if c not in self.w.srcs[PRIM].classes:
                    raise Untranslatable("isinstance of a type against %s, which is not a class of %s" % (c, PRIM))
            return "(" + " || ".join('Py.Ty.isinstance Gen.Cst.Primitive.mro %s "%s"' % (v, c) for c in classes) + ")"
        builtin = {"int": "int", "frac": "Fraction", "bool": "bool"}
        if t in builtin:
            if not all(c in ("int", "float", "Fraction", "bool", "str") for c in classes):
                raise Untranslatable("isinstance of a %s against %s" % (t, classes))
            return "true" if builtin[t] in classes or (t == "bool" and "int" in classes) else "false"
        raise Untranslatable("isinstance of a %s" % t)

    def call(self, n: ast.Call) -> typing.Tuple[str, str]:
        f = n.func
        if isinstance(f, ast.Name) and f.id == "isinstance":
            return "bool", self.isinstance_(n)
        if isinstance(f, ast.Name) and f.id == "int" and len(n.args) == 1 and not n.keywords:
            t, v = self.e(n.args[0])
            if t == "int":
                return t, v
            raise Untranslatable("int() of a %s" % t)
        if isinstance(f, ast.Name) and f.id == "len" and len(n.args) == 1 and not n.keywords:
            t, v = self.e(n.args[0])
            if t in ("bytes", "str"):
                return "int", "((%s).length : Int)" % v
            raise Untranslatable("len of a %s" % t)
        if isinstance(f, ast.Name) and f.id == "ord" and len(n.args) == 1 and not n.keywords:
            t, v = self.e(n.args[0])
            if t == "bytes":
                return "int", self.bind("Py.ordBytes %s" % v)
            raise Untranslatable("ord of a %s" % t)
        cname = None
        try:
            cname = self.class_of(f)
        except Untranslatable:
            pass
        if cname == "Fraction" and len(n.args) == 1 and not n.keywords:
            t, v = self.e(n.args[0])
            return "frac", self.as_frac(t, v)
        if cname == "ValueRange" and not n.args and sorted(k.arg or "" for k in n.keywords) == ["max", "min"]:
            check_value_range(self.w)
            kw = {k.arg: k.value for k in n.keywords}
            # keyword arguments are evaluated in the order they are written
            vals = {}
            for k in n.keywords:
                t, v = self.e(k.value)
                vals[k.arg] = self.as_frac(t, v)
            _ = kw
            return "range", "(%s, %s)" % (vals["min"], vals["max"])
        if cname == "Rational" and len(n.args) == 1 and not n.keywords and self.kind == "const-init":
            t, v = self.e(n.args[0])
            if t != "int":
                raise Untranslatable("Rational(%s)" % t)
            return "value", self.bind("%s %s" % (rational_new(self.w), v))
        if isinstance(f, ast.Attribute):
            # s.encode("utf8", errors="surrogatepass")
            if f.attr == "encode":
                t, v = self.e(f.value)
                if t != "str":
                    raise Untranslatable("encode of a %s" % t)
                args = [a.value for a in n.args if isinstance(a, ast.Constant)]
                kws = {k.arg: k.value.value for k in n.keywords if isinstance(k.value, ast.Constant)}
                if len(args) != len(n.args) or len(kws) != len(n.keywords):
                    raise Untranslatable("encode with non-constant arguments")
                enc = args[0] if args else kws.pop("encoding", "utf-8")
                errors = args[1] if len(args) > 1 else kws.pop("errors", "strict")
                if len(args) > 2 or kws or not isinstance(enc, str) or enc.lower().replace("_", "-") not in ("utf8", "utf-8"):
                    raise Untranslatable("encode(%s)" % ast.unparse(n)[:60])
                if errors == "surrogatepass":
                    return "bytes", "(Py.encodeUtf8Surrogatepass %s)" % v
                if errors == "strict":
                    return "bytes", self.bind("Py.encodeUtf8Strict %s" % v)
                raise Untranslatable("encode with errors=%r" % (errors,))
            t, v = self.e(f.value)
            if t == "value" and not n.args and not n.keywords:
                return self.value_member(f.value, v, f.attr, call=True)
        raise Untranslatable("call %s" % ast.unparse(f))

    # --- statements
    def flush(self, out: typing.List[str], ind: str) -> None:
        for p in self.pre:
            out.extend(ind + l for l in p.split("\n"))
        self.pre = []

    def assign_local(self, name: str, t: str, v: str, out: typing.List[str], ind: str, mut: typing.Set[str]) -> None:
        ln = lname(name)
        if name in self.types and self.types[name] != t:
            raise Untranslatable("local %s changes its type from %s to %s" % (name, self.types[name], t))
        if ln in self.declared:
            if ln not in mut:
                raise Untranslatable("re-assignment of %s" % name)
            out.append("%s%s := %s" % (ind, ln, v))
        else:
            out.append("%s%s %s := %s" % (ind, "let mut" if ln in mut else "let", ln, v))
            self.declared.add(ln)
        self.types[name] = t

    def super_init(self, s: ast.Call, out: typing.List[str], ind: str) -> None:
        if self.kind == "const-init":
            check_data_type_property(self.w)
            self.notes.append("`super().__init__` (Attribute.__init__: name rules, serializability of the type) is not part of the slice")
            return
        assert self.kind == "prim-init" and self.cls
        chain = self.w.mro(self.cls)[1:]
        parent = next((c for c in chain if method(self.w.where[c][1], "__init__") is not None), None)
        if parent is None or self.w.where[parent][0].rel != PRIM:
            # the root of the hierarchy of _primitive.py: nothing above assigns attributes of this group
            if s.args or s.keywords:
                raise Untranslatable("arguments to the constructor of %s" % parent)
            if parent is not None:
                check_trivial_init(self.w, parent)
            val = "({} : Py.Obj)"
        else:
            name, params = prim_init(self.w, parent)
            given: typing.Dict[str, typing.Tuple[str, str]] = {}
            if len(s.args) > len(params):
                raise Untranslatable("too many constructor arguments")
            for (pn, _), a in zip(params, s.args):
                given[pn] = self.e(a)
            for k in s.keywords:
                if k.arg is None or k.arg in given or k.arg not in [p for p, _ in params]:
                    raise Untranslatable("keyword argument %s" % k.arg)
                given[k.arg] = self.e(k.value)
            argv = []
            for pn, pt in params:
                if pn not in given:
                    raise Untranslatable("missing constructor argument %s" % pn)
                t, v = given[pn]
                if t != pt:
                    raise Untranslatable("constructor argument %s: %s given, %s expected" % (pn, t, pt))
                argv.append(v)
            val = None
            call = "%s %s" % (name, " ".join(argv))
        self.flush(out, ind)
        if "self" in self.declared:
            raise Untranslatable("second super().__init__")
        self.declared.add("self")
        if val is not None:
            out.append("%slet mut self := %s" % (ind, val))
        else:
            out.append("%slet mut self ← %s" % (ind, call))

    def stmts(self, body: typing.List[ast.stmt], ind: str, out: typing.List[str], mut: typing.Set[str]) -> None:
        emitted = False
        for s in body:
            if isinstance(s, ast.Expr) and isinstance(s.value, ast.Constant):
                continue  # docstring
            if isinstance(s, ast.Pass):
                continue
            n0 = len(out)
            self.stmt(s, ind, out, mut)
            emitted = emitted or len(out) > n0
        if not emitted:
            out.append("%spure ()" % ind)

    def stmt(self, s: ast.stmt, ind: str, out: typing.List[str], mut: typing.Set[str]) -> None:
        if (isinstance(s, ast.Expr) and isinstance(s.value, ast.Call) and isinstance(s.value.func, ast.Attribute)
                and s.value.func.attr == "__init__" and isinstance(s.value.func.value, ast.Call)
                and isinstance(s.value.func.value.func, ast.Name) and s.value.func.value.func.id == "super" and not s.value.func.value.args):
            self.super_init(s.value, out, ind)
        elif isinstance(s, ast.Raise):
            exc = s.exc.func if isinstance(s.exc, ast.Call) else s.exc
            if not isinstance(exc, ast.Name) or (s.cause is not None and not (isinstance(s.cause, ast.Constant) and s.cause.value is None)):
                raise Untranslatable("raise %s" % (ast.unparse(s.exc) if s.exc else ""))
            out.append("%sthrow (.other %s)" % (ind, lean_str(exc.id)))
        elif isinstance(s, ast.If):
            c = self.truth(s.test)
            self.flush(out, ind)
            key, cls = self.narrowing(s.test)
            out.append("%sif %s then" % (ind, c))
            saved = dict(self.narrow)
            if key:
                self.narrow[key] = cls
            self.stmts(s.body, ind + "  ", out, mut)
            self.narrow = dict(saved)
            if s.orelse:
                out.append("%selse" % ind)
                self.stmts(s.orelse, ind + "  ", out, mut)
                self.narrow = dict(saved)
            for k in assigned_keys(s):
                self.narrow.pop(k, None)
        elif isinstance(s, ast.Assert):
            c = self.truth(s.test)
            self.flush(out, ind)
            out.append("%sPy.assert %s" % (ind, c))
        elif isinstance(s, ast.Return):
            if s.value is None:
                raise Untranslatable("bare return")
            t, v = self.e(s.value)
            self.flush(out, ind)
            if t != self.ret:
                if self.ret == "frac" and t == "int":
                    v = self.as_frac(t, v)
                else:
                    raise Untranslatable("returns a %s where a %s is expected" % (t, self.ret))
            out.append("%sreturn %s" % (ind, v))
        elif isinstance(s, ast.Delete):
            for t in s.targets:
                if not isinstance(t, ast.Name) or t.id not in self.types:
                    raise Untranslatable("del %s" % ast.unparse(t))
                del self.types[t.id]
                self.narrow.pop(t.id, None)
        elif isinstance(s, (ast.Assign, ast.AnnAssign)):
            targets = s.targets if isinstance(s, ast.Assign) else [s.target]
            if len(targets) != 1 or s.value is None:
                raise Untranslatable("assignment form")
            tg = targets[0]
            if isinstance(tg, ast.Name) and self.outside.get(tg.id) is s:
                self.notes.append("the local %s feeds only attributes that are not part of the slice" % tg.id)
                return
            if isinstance(tg, ast.Name):
                # an alias of the Fraction constructor
                if isinstance(s.value, ast.Attribute) and isinstance(s.value.value, ast.Name) and s.value.value.id == "fractions" \
                        and s.value.attr == "Fraction":
                    if tg.id in self.types:
                        raise Untranslatable("alias %s shadows a local" % tg.id)
                    self.frac_alias.add(tg.id)
                    return
                t, v = self.e(s.value)
                self.flush(out, ind)
                self.frac_alias.discard(tg.id)
                self.assign_local(tg.id, t, v, out, ind, mut)
                self.narrow.pop(tg.id, None)
            elif isinstance(tg, ast.Attribute) and isinstance(tg.value, ast.Name) and tg.value.id == "self":
                self.assign_self(tg.attr, s.value, out, ind, mut)
            else:
                raise Untranslatable("assignment target %s" % ast.unparse(tg))
        elif isinstance(s, ast.Try):
            self.try_(s, ind, out, mut)
        else:
            raise Untranslatable("statement %s" % type(s).__name__)

    def assign_self(self, a: str, value: ast.AST, out: typing.List[str], ind: str, mut: typing.Set[str]) -> None:
        if self.kind == "prim-init":
            if a in IGNORED_ATTRS:
                self.notes.append("the attribute %s is not part of the slice" % a)
                return
            if a not in TRACKED_ATTRS:
                raise Untranslatable("assignment to self.%s" % a)
            if "self" not in self.declared:
                raise Untranslatable("self.%s assigned before super().__init__" % a)
            f, ft = TRACKED_ATTRS[a]
            t, v = self.e(value)
            if ft == "frac" and t == "int":
                t, v = "frac", self.as_frac(t, v)
            if t != ft:
                raise Untranslatable("self.%s: a %s assigned, %s expected" % (a, t, ft))
            self.flush(out, ind)
            out.append("%sself := { self with %s := some %s }" % (ind, f, v))
        elif self.kind == "const-init" and a == "_value":
            t, v = self.e(value)
            if t != "value":
                raise Untranslatable("self._value: a %s assigned" % t)
            self.flush(out, ind)
            if "self_value" in self.declared:
                out.append("%sself_value := %s" % (ind, v))
            else:
                out.append("%slet mut self_value := %s" % (ind, v))
                self.declared.add("self_value")
            self.narrow.pop("self._value", None)
        else:
            raise Untranslatable("assignment to self.%s" % a)

    def narrowing(self, test: ast.AST) -> typing.Tuple[typing.Optional[str], str]:
        """`isinstance(x, C)` with a value `x` and a single leaf class `C` establishes the class of `x` in the body."""
        if isinstance(test, ast.Call) and isinstance(test.func, ast.Name) and test.func.id == "isinstance" and len(test.args) == 2:
            key = self.value_key(test.args[0])
            if key and not isinstance(test.args[1], ast.Tuple):
                try:
                    c = self.class_of(test.args[1])
                except Untranslatable:
                    return None, ""
                if c in VAL_PAYLOAD:
                    return key, c
        return None, ""

    def try_(self, s: ast.Try, ind: str, out: typing.List[str], mut: typing.Set[str]) -> None:
        if s.orelse or s.finalbody or len(s.handlers) != 1:
            raise Untranslatable("try statement form")
        h = s.handlers[0]
        if not isinstance(h.type, ast.Name) or h.type.id != "KeyError" or h.name is not None:
            raise Untranslatable("except clause %s" % (ast.unparse(h.type) if h.type else "(bare)"))
        if self.kind != "prim-init" or "self" not in self.declared:
            raise Untranslatable("try statement outside a constructor")
        for n in ast.walk(ast.Module(body=s.body, type_ignores=[])):
            if isinstance(n, (ast.Return, ast.Break, ast.Continue, ast.Try)) and n is not s:
                raise Untranslatable("%s inside try" % type(n).__name__)
        before = set(self.declared)
        self.flush(out, ind)
        body: typing.List[str] = []
        self.stmts(s.body, ind + "    ", body, mut)
        self.flush(body, ind + "    ")
        leaked = self.declared - before
        # locals first bound inside the try body are not visible after it in the translation
        for v in leaked:
            self.declared.discard(v)
        for k in [k for k in self.types if lname(k) in leaked]:
            del self.types[k]
        handler: typing.List[str] = []
        sub_pre, self.pre = self.pre, []
        self.stmts(h.body, ind + "    ", handler, mut)
        self.pre = sub_pre
        out.append("%sself ← Py.tryExcept (do" % ind)
        out.append("%s    let mut self := self" % ind)
        out.extend(body)
        out.append("%s    pure self) Py.Err.isKeyError (do" % ind)
        out.extend(handler)
        out[-1] = out[-1] + ")"

    ret = "unit"


def outside_slice_locals(fn: ast.FunctionDef) -> typing.Dict[str, ast.stmt]:
    """Slice of a constructor by data flow: a local that is bound exactly once, by a plain top-level assignment, and whose every read
    lies inside a statement that is itself outside the slice (the assignment of an attribute of IGNORED_ATTRS, or the assignment of
    another such local) has no influence on the tracked attributes, the guards or the exceptions the slice translates.  It has the
    status of the ignored attribute it feeds and is listed in the header of the generated definition."""
    params = {a.arg for a in fn.args.args + fn.args.kwonlyargs + fn.args.posonlyargs}
    if fn.args.vararg:
        params.add(fn.args.vararg.arg)
    if fn.args.kwarg:
        params.add(fn.args.kwarg.arg)
    bindings: typing.Dict[str, int] = {}
    for n in ast.walk(fn):
        if isinstance(n, ast.Name) and isinstance(n.ctx, (ast.Store, ast.Del)):
            bindings[n.id] = bindings.get(n.id, 0) + 1
        elif isinstance(n, (ast.Global, ast.Nonlocal)):
            for x in n.names:
                bindings[x] = bindings.get(x, 0) + 2
        elif isinstance(n, ast.ExceptHandler) and n.name:
            bindings[n.name] = bindings.get(n.name, 0) + 2
        elif isinstance(n, (ast.FunctionDef, ast.ClassDef, ast.Lambda)) and n is not fn:
            for x in ast.walk(n):  # nested scopes: do not reason about them
                if isinstance(x, ast.Name):
                    bindings[x.id] = bindings.get(x.id, 0) + 2
    candidates: typing.Dict[str, ast.stmt] = {}
    for st in fn.body:
        tg = None
        if isinstance(st, ast.Assign) and len(st.targets) == 1:
            tg = st.targets[0]
        elif isinstance(st, ast.AnnAssign) and st.value is not None:
            tg = st.target
        if isinstance(tg, ast.Name) and tg.id not in params and bindings.get(tg.id) == 1:
            candidates[tg.id] = st
    outside: typing.List[ast.stmt] = []
    for n in ast.walk(fn):
        if isinstance(n, (ast.Assign, ast.AnnAssign)):
            tgs = n.targets if isinstance(n, ast.Assign) else [n.target]
            if len(tgs) == 1 and isinstance(tgs[0], ast.Attribute) and isinstance(tgs[0].value, ast.Name) and tgs[0].value.id == "self" \
                    and tgs[0].attr in IGNORED_ATTRS:
                outside.append(n)
    loads: typing.Dict[str, typing.List[ast.Name]] = {}
    for n in ast.walk(fn):
        if isinstance(n, ast.Name) and isinstance(n.ctx, ast.Load):
            loads.setdefault(n.id, []).append(n)
    dropped: typing.Dict[str, ast.stmt] = {}
    changed = True
    while changed:
        changed = False
        covered = {id(x) for st in outside + list(dropped.values()) for x in ast.walk(st)}
        for name, st in candidates.items():
            if name not in dropped and all(id(l) in covered for l in loads.get(name, [])):
                dropped[name] = st
                changed = True
    # a local that nothing reads at all is kept in the slice (its right-hand side is translated, or refused)
    return {k: v for k, v in dropped.items() if loads.get(k)}


def assigned_keys(s: ast.stmt) -> typing.Set[str]:
    out: typing.Set[str] = set()
    for n in ast.walk(s):
        if isinstance(n, (ast.Assign, ast.AnnAssign)):
            for t in (n.targets if isinstance(n, ast.Assign) else [n.target]):
                if isinstance(t, ast.Name):
                    out.add(t.id)
                elif isinstance(t, ast.Attribute) and isinstance(t.value, ast.Name) and t.value.id == "self":
                    out.add("self." + t.attr)
    return out


def count_assignments(body: typing.List[ast.stmt]) -> typing.Dict[str, int]:
    cnt: typing.Dict[str, int] = {}
    for n in ast.walk(ast.Module(body=body, type_ignores=[])):
        if isinstance(n, (ast.Assign, ast.AnnAssign)):
            for t in (n.targets if isinstance(n, ast.Assign) else [n.target]):
                if isinstance(t, ast.Name):
                    cnt[t.id] = cnt.get(t.id, 0) + 1
    return cnt


def plain_params(fn: ast.FunctionDef, n_min: int) -> typing.List[str]:
    a = fn.args
    if a.vararg or a.kwarg or a.kwonlyargs or a.posonlyargs or len(a.args) < n_min:
        raise Untranslatable("signature of %s" % fn.name)
    return [x.arg for x in a.args]


# ----------------------------------------------------------------------------------------------- checks of what the slice relies on

def check_value_range(w: World) -> None:
    """`ValueRange = typing.NamedTuple("ValueRange", [("min", …), ("max", …)])`: `.min` is the first component, `.max` the second."""
    for n in w.srcs[PRIM].tree.body:
        if isinstance(n, ast.Assign) and len(n.targets) == 1 and isinstance(n.targets[0], ast.Name) and n.targets[0].id == "ValueRange":
            v = n.value
            if (isinstance(v, ast.Call) and ast.unparse(v.func) in ("typing.NamedTuple", "NamedTuple") and len(v.args) == 2
                    and isinstance(v.args[1], ast.List)):
                names = [e.elts[0].value for e in v.args[1].elts
                         if isinstance(e, ast.Tuple) and len(e.elts) == 2 and isinstance(e.elts[0], ast.Constant)]
                if names == ["min", "max"] and len(v.args[1].elts) == 2:
                    return
            raise Untranslatable("definition of ValueRange")
    raise Untranslatable("ValueRange not found")


def check_trivial_init(w: World, cls: str) -> None:
    """A constructor above the classes of `_primitive.py` may only pass the call on."""
    fn = method(w.where[cls][1], "__init__")
    if fn is None:
        return
    for s in fn.body:
        if isinstance(s, ast.Expr) and isinstance(s.value, ast.Constant):
            continue
        if isinstance(s, ast.Pass):
            continue
        if isinstance(s, ast.Expr) and ast.unparse(s.value) == "super().__init__()":
            continue
        raise Untranslatable("%s.__init__ is not trivial: %s" % (cls, ast.unparse(s)[:60]))
    nxt = [c for c in w.mro(cls)[1:] if method(w.where[c][1], "__init__") is not None]
    if nxt:
        check_trivial_init(w, nxt[0])


def check_data_type_property(w: World) -> None:
    """`self.data_type` of a Constant is the constructor's argument: `Attribute.__init__` stores it, the property returns it."""
    src = w.srcs[ATTR]
    attr = src.classes.get("Attribute")
    const = src.classes.get("Constant")
    if attr is None or const is None or base_names(const) != ["Attribute"]:
        raise Untranslatable("Constant is not a direct subclass of Attribute")
    init = method(attr, "__init__")
    prop = method(attr, "data_type")
    if init is None or prop is None or not is_property(prop) or method(const, "data_type") is not None:
        raise Untranslatable("Attribute.data_type")
    params = plain_params(init, 2)
    stores = [s for s in ast.walk(init) if isinstance(s, (ast.Assign, ast.AnnAssign, ast.AugAssign)) and "_data_type" in ast.unparse(
        s.targets[0] if isinstance(s, ast.Assign) else s.target)]
    ok_store = (len(stores) == 1 and isinstance(stores[0], ast.Assign) and stores[0] in init.body
                and ast.unparse(stores[0]) == "self._data_type = %s" % params[1])
    rets = [s for s in prop.body if not (isinstance(s, ast.Expr) and isinstance(s.value, ast.Constant))]
    ok_prop = len(rets) == 1 and isinstance(rets[0], ast.Return) and rets[0].value is not None and ast.unparse(rets[0].value) == "self._data_type"
    cinit = method(const, "__init__")
    ok_call = False
    if cinit is not None:
        cparams = plain_params(cinit, 2)
        for s in cinit.body:
            if isinstance(s, ast.Expr) and isinstance(s.value, ast.Call) and ast.unparse(s.value.func) == "super().__init__":
                ok_call = bool(s.value.args) and isinstance(s.value.args[0], ast.Name) and s.value.args[0].id == cparams[1]
    if not (ok_store and ok_prop and ok_call):
        raise Untranslatable("self.data_type is not the constructor's argument (Attribute.__init__ / Attribute.data_type changed)")


def check_other_types(w: World) -> typing.List[str]:
    """No class outside `_primitive.py` derives from a class of `_primitive.py` (`Py.Ty.other` answers `False` to every isinstance)."""
    out = []
    prim = set(w.srcs[PRIM].classes) if PRIM in w.srcs else set()
    for rel in OTHER_TYPES:
        try:
            s = Src(w.repo, rel)
        except (OSError, SyntaxError, ValueError) as ex:
            out.append("%s: cannot read / parse: %s" % (rel, ex))
            continue
        for c in s.classes.values():
            try:
                hit = [b for b in base_names(c) if b in prim]
            except Untranslatable as ex:
                out.append("%s: %s" % (rel, ex))
                continue
            if hit:
                out.append("%s: class %s derives from %s of %s" % (rel, c.name, hit[0], PRIM))
    return out


# ----------------------------------------------------------------------------------------------- generated definitions

def mro_table(w: World, name: str, lean_cls: str, classes: typing.List[str], what: str) -> None:
    def build():
        lines = ["  fun c =>", "  match c with"]
        for c in classes:
            lines.append("  | .%s => [%s]" % (c, ", ".join('"%s"' % x for x in w.mro(c))))
        return what, lines
    w.ensure(name, ": %s → List String" % lean_cls, build, monadic=False, fallback="fun _ => []")


def prim_init(w: World, cls: str) -> typing.Tuple[str, typing.List[typing.Tuple[str, str]]]:
    """The generated constructor body of a class of `_primitive.py` (own `__init__`, or the nearest inherited one)."""
    owner = next((c for c in w.mro(cls) if method(w.where[c][1], "__init__") is not None), None)
    if owner is None or w.where[owner][0].rel != PRIM:
        raise Untranslatable("%s has no constructor in %s" % (cls, PRIM))
    src, cdef = w.where[owner]
    fn = method(cdef, "__init__")
    assert fn is not None
    pnames = plain_params(fn, 1)[1:]
    if fn.args.defaults or fn.decorator_list:
        raise Untranslatable("signature of %s.__init__" % owner)
    known = {"bit_length": "int", "cast_mode": "castmode"}
    params = []
    for p in pnames:
        if p not in known:
            raise Untranslatable("constructor parameter %s of %s" % (p, owner))
        params.append((p, known[p]))
    name = "Gen.Cst.%s.init" % owner
    sig = " ".join("(%s : %s)" % (lname(p), LEAN_TY[t]) for p, t in params) + " : Py.M Py.Obj"

    def build():
        tr = FnTr(w, "prim-init", owner, src)
        tr.outside = outside_slice_locals(fn)
        for p, t in params:
            tr.types[p] = t
        body: typing.List[str] = []
        mut = {lname(k) for k, v in count_assignments(fn.body).items() if v > 1}
        tr.stmts(fn.body, "  ", body, mut)
        if "self" not in tr.declared:
            raise Untranslatable("%s.__init__ does not call super().__init__" % owner)
        body.append("  pure self")
        head = "%s.__init__  %s" % (owner, src.span(fn))
        if tr.notes:
            head += "\n   " + "\n   ".join(sorted(set(tr.notes)))
        return head, body
    w.ensure(name, sig.strip(), build)
    return name, params


def prim_new(w: World, cls: str) -> None:
    name = "Gen.Cst.%s.new" % cls
    try:
        iname, params = prim_init(w, cls)
        sig = " ".join("(%s : %s)" % (lname(p), LEAN_TY[t]) for p, t in params) + " : Py.M Py.Ty"
        args = " ".join(lname(p) for p, _ in params)

        def build():
            return "%s(...): the object of class %s" % (cls, cls), ["  let self ← %s %s" % (iname, args), "  pure (.prim .%s self)" % cls]
        w.ensure(name, sig.strip(), build)
    except Untranslatable as ex:
        fixed = {"BooleanType": "", "ByteType": "", "UTF8Type": ""}
        sig = ": Py.M Py.Ty" if cls in fixed else "(bit_length : Int) (cast_mode : Py.CastMode) : Py.M Py.Ty"

        def fail():
            raise Untranslatable(str(ex))
        w.ensure(name, sig, fail)


def prim_method(w: World, owner: str, member: str) -> typing.Tuple[str, str]:
    """A property of a class of `_primitive.py`, over the attributes of the object."""
    src, cdef = w.where[owner]
    if src.rel != PRIM:
        raise Untranslatable("%s.%s is outside %s" % (owner, member, PRIM))
    fn = method(cdef, member)
    assert fn is not None
    ret = {"bit_length": "int", "inclusive_value_range": "range"}.get(member)
    if ret is None:
        raise Untranslatable("member %s" % member)
    if not is_property(fn) or not plain_decorators(fn) or plain_params(fn, 1) != ["self"]:
        raise Untranslatable("%s.%s is not a plain property" % (owner, member))
    name = "Gen.Cst.%s.%s" % (owner, member)

    def build():
        tr = FnTr(w, "prim-method", owner, src)
        tr.ret = ret
        tr.declared.add("self")
        body: typing.List[str] = []
        tr.stmts(fn.body, "  ", body, set())
        return "%s.%s  %s" % (owner, member, src.span(fn)), body
    w.ensure(name, "(self : Py.Obj) : Py.M %s" % LEAN_TY[ret], build)
    return name, ret


def ty_dispatch(w: World, member: str) -> typing.Tuple[str, str]:
    """`t.member` on a serializable type of unknown class: the definition the class of the object resolves it to."""
    ret = {"bit_length": "int", "inclusive_value_range": "range"}.get(member)
    if ret is None:
        raise Untranslatable("member .%s of a type" % member)
    name = "Gen.Cst.Ty.%s" % member

    def build():
        lines = ["  match t with"]
        for c in PRIM_CLS:
            r = w.resolve(c, member)
            if r is None:
                lines.append('  | .prim .%s self => throw (.other "AttributeError")' % c)
            else:
                n, _ = prim_method(w, r[0], member)
                lines.append("  | .prim .%s self => %s self" % (c, n))
        lines.append('  | .other _ => throw (.other "untranslated: .%s of a type that is not defined in _primitive.py")' % member)
        return "virtual dispatch of .%s over the classes of %s" % (member, PRIM), lines
    # dependencies first
    for c in PRIM_CLS:
        try:
            r = w.resolve(c, member)
            if r is not None:
                prim_method(w, r[0], member)
        except Untranslatable:
            pass
    w.ensure(name, "(t : Py.Ty) : Py.M %s" % LEAN_TY[ret], build)
    return name, ret


def val_method(w: World, cls: str, owner: str, member: str) -> typing.Tuple[str, str]:
    """A method / property of an expression value class, over its payload `self._value`."""
    src, cdef = w.where[owner]
    fn = method(cdef, member)
    assert fn is not None
    pt = VAL_PAYLOAD[cls][0]
    ret = {"is_integer": "bool", "native_value": pt}.get(member)
    if ret is None:
        raise Untranslatable("member %s of %s" % (member, cls))
    if not plain_decorators(fn) or plain_params(fn, 1) != ["self"]:
        raise Untranslatable("%s.%s: signature / decorators" % (owner, member))
    check_payload(w, cls)
    name = "Gen.Cst.%s.%s" % (cls, member)

    def build():
        tr = FnTr(w, "val-method", owner, src)
        tr.payload_type = pt
        tr.ret = ret
        body: typing.List[str] = []
        tr.stmts(fn.body, "  ", body, set())
        return "%s.%s  %s" % (owner, member, src.span(fn)), body
    w.ensure(name, "(value : %s) : Py.M %s" % (LEAN_TY[pt], LEAN_TY[ret]), build)
    return name, ret


def check_payload(w: World, cls: str) -> None:
    """`self._value` of a Boolean / Rational / String is what the constructor was given (converted by `Fraction` for a Rational)."""
    src, cdef = w.where[cls]
    init = method(cdef, "__init__")
    if init is None:
        raise Untranslatable("%s.__init__ not found" % cls)
    p = plain_params(init, 2)[1]
    stores = [s for s in ast.walk(init) if isinstance(s, (ast.Assign, ast.AnnAssign, ast.AugAssign))
              and ast.unparse(s.targets[0] if isinstance(s, ast.Assign) else s.target) == "self._value"]
    want = {"Rational": "fractions.Fraction(%s)" % p}.get(cls, p)
    if len(stores) != 1 or stores[0] not in init.body or stores[0].value is None or ast.unparse(stores[0].value) != want:
        raise Untranslatable("%s.__init__ does not store its argument as self._value" % cls)
    others = [f.name for f in cdef.body if isinstance(f, ast.FunctionDef) and f.name != "__init__" and any(
        isinstance(s, (ast.Assign, ast.AnnAssign, ast.AugAssign)) and "self._value" in ast.unparse(s.targets[0] if isinstance(s, ast.Assign) else s.target)
        for s in ast.walk(f))]
    if others:
        raise Untranslatable("%s.%s assigns self._value" % (cls, others[0]))


def rational_new(w: World) -> str:
    """`Rational(<int>)`: the guards of `Rational.__init__` for an `int` argument, and the stored Fraction."""
    name = "Gen.Cst.Rational.new"
    src, cdef = w.where["Rational"]

    def build():
        fn = method(cdef, "__init__")
        if fn is None or fn.args.defaults or fn.decorator_list:
            raise Untranslatable("Rational.__init__")
        params = plain_params(fn, 2)
        if len(params) != 2:
            raise Untranslatable("signature of Rational.__init__")
        tr = FnTr(w, "val-init", "Rational", src)
        tr.types[params[1]] = "int"
        body: typing.List[str] = []
        stored = None
        for s in fn.body:
            if isinstance(s, (ast.Assign, ast.AnnAssign)) and ast.unparse(s.targets[0] if isinstance(s, ast.Assign) else s.target) == "self._value":
                if stored is not None or s.value is None:
                    raise Untranslatable("Rational.__init__ assigns self._value twice")
                t, v = tr.e(s.value)
                tr.flush(body, "  ")
                if t != "frac":
                    raise Untranslatable("Rational._value is a %s" % t)
                stored = "self_value"
                body.append("  let self_value := %s" % v)
            else:
                tr.stmt(s, "  ", body, set())
        if stored is None:
            raise Untranslatable("Rational.__init__ does not assign self._value")
        body.append("  pure (.Rational self_value)")
        return "Rational.__init__ on an int  %s" % src.span(fn), body
    w.ensure(name, "(value : Int) : Py.M Py.Value", build)
    return name


def constant_init(w: World) -> None:
    name = "Gen.Cst.Constant.init"
    sig = "(data_type : Py.Ty) (value : Py.Value) : Py.M Py.Value"

    def build():
        src = w.srcs[ATTR]
        cdef = src.classes.get("Constant")
        if cdef is None:
            raise Untranslatable("class Constant not found")
        fn = method(cdef, "__init__")
        if fn is None or fn.decorator_list:
            raise Untranslatable("Constant.__init__ not found")
        params = plain_params(fn, 4)
        if params[1:4] != ["data_type", "name", "value"]:
            raise Untranslatable("parameters of Constant.__init__: %s" % params)
        tr = FnTr(w, "const-init", None, src)
        tr.types["data_type"] = "ty"
        tr.types["value"] = "value"
        body: typing.List[str] = []
        mut = {lname(k) for k, v in count_assignments(fn.body).items() if v > 1}
        tr.stmts(fn.body, "  ", body, mut)
        if "self_value" not in tr.declared:
            raise Untranslatable("Constant.__init__ does not assign self._value")
        others = [f.name for f in cdef.body if isinstance(f, ast.FunctionDef) and f.name != "__init__" and any(
            isinstance(s, (ast.Assign, ast.AnnAssign, ast.AugAssign, ast.Delete)) and "self._value" in ast.unparse(s) for s in ast.walk(f))]
        if others:
            raise Untranslatable("Constant.%s assigns self._value" % others[0])
        vp = method(cdef, "value")
        rets = [s for s in (vp.body if vp else []) if not (isinstance(s, ast.Expr) and isinstance(s.value, ast.Constant))]
        if vp is None or not is_property(vp) or len(rets) != 1 or not isinstance(rets[0], ast.Return) or rets[0].value is None \
                or ast.unparse(rets[0].value) != "self._value":
            raise Untranslatable("Constant.value is not `return self._value`")
        body.append("  pure self_value")
        head = "Constant.__init__ (result: what Constant.value returns)  %s" % src.span(fn)
        if tr.notes:
            head += "\n   " + "\n   ".join(sorted(set(tr.notes)))
        return head, body
    w.ensure(name, sig, build)


def translate_constant(repo: Path) -> typing.Tuple[str, typing.List[str]]:
    head = ["import PyConst",
            "/-! GENERATED by tools/py2lean.py (constant group: %s, %s, %s) -- do not edit. -/" % (ATTR, PRIM, EXPR),
            "set_option linter.unusedVariables false", ""]
    w = World(repo)
    if w.load_problem:
        w.problems.append(w.load_problem)
        w.where = {}
    w.problems += check_other_types(w)
    guard = (lambda f: f) if not w.load_problem else None

    def fail_all(what: str):
        def b():
            raise Untranslatable(what)
        return b

    if guard is None:
        why = w.load_problem or ""
        w.ensure("Gen.Cst.Primitive.mro", ": Py.PrimCls → List String", fail_all(why), monadic=False, fallback="fun _ => []")
        w.ensure("Gen.Cst.Expression.mro", ": Py.ValCls → List String", fail_all(why), monadic=False, fallback="fun _ => []")
        for c in PRIM_CLS:
            sig = ": Py.M Py.Ty" if c in ("BooleanType", "ByteType", "UTF8Type") else "(bit_length : Int) (cast_mode : Py.CastMode) : Py.M Py.Ty"
            w.ensure("Gen.Cst.%s.new" % c, sig, fail_all(why))
        w.ensure("Gen.Cst.Constant.init", "(data_type : Py.Ty) (value : Py.Value) : Py.M Py.Value", fail_all(why))
        w.problems = [p for p in w.problems if p == why or not p.endswith(why)] or [why]
    else:
        mro_table(w, "Gen.Cst.Primitive.mro", "Py.PrimCls", PRIM_CLS, "method resolution order of the concrete classes of %s" % PRIM)
        mro_table(w, "Gen.Cst.Expression.mro", "Py.ValCls", VAL_CLS, "method resolution order of the classes an initialiser value can have (%s, %s, %s)" % (EXPR, CONT, SER))
        for c in PRIM_CLS:
            prim_new(w, c)
        constant_init(w)
    out = list(head)
    for lines in w.defs.values():
        out += lines + [""]
    return "\n".join(out), w.problems
