#!/bin/sh
# tools/all_thorough.sh [seed] [props...]: run every thorough check against /repo; print one line per property
cd /verif
seed=${1:-0}; [ $# -gt 0 ] && shift
props=${*:-C01 C02 C03 C04 C05 C06 C07 C08 C09 C10 C11 C12 C13 C14 C15 C16 C17 C18 C19}
for p in $props; do
  s=$(date +%s); VERIF_SEED=$seed ./check $p --tier thorough > /tmp/allt_$p.log 2>&1; rc=$?; e=$(date +%s)
  echo "$p rc=$rc $((e-s))s viol=$(grep -c '^VIOLATION' /tmp/allt_$p.log) known=$(grep -c '^KNOWN-FINDING' /tmp/allt_$p.log)"
done
