#!/usr/bin/env python3
"""tools/keep_seed.py <ID> <n> <detected-by: comma separated props> <needs: text> -- store a verified seeded change under seeded/."""
import json, shutil, subprocess, sys
from pathlib import Path
pid, n, detected, needs = sys.argv[1], sys.argv[2], sys.argv[3], sys.argv[4]
src = Path("/tmp/seed/%s-out/%s" % (pid, n))
dst = Path("/verif/seeded/%s-%s" % (pid, n))
dst.mkdir(parents=True, exist_ok=True)
for f in ("patch.diff", "demo.py", "notes.txt"):
    shutil.copy(src / f, dst / f)
ver = json.loads(subprocess.run(["/verif/tools/verify_seed.sh", pid, n], capture_output=True, text=True).stdout.strip().splitlines()[-1])
checks = {}
for prop in [d for d in detected.split(",") if d]:
    r = subprocess.run(["/verif/tools/try_seed.sh", str(src / "patch.diff"), prop], capture_output=True, text=True)
    lines = [l for l in r.stdout.splitlines() if l.startswith("VIOLATION") or l.startswith("rc=")]
    checks[prop] = lines
meta = {
    "property": pid,
    "breaks": (src / "notes.txt").read_text().strip().splitlines()[0][:300],
    "needs_to_manifest": needs,
    "verified": ver,
    "ran": ["tools/verify_seed.sh %s %s  (apply in scratch worktree, pytest, demo with/without)" % (pid, n)] +
           ["tools/try_seed.sh seeded/%s-%s/patch.diff %s  (quick check against a scratch copy of /repo with the patch)" % (pid, n, p) for p in checks],
    "check_results": checks,
}
(dst / "meta.json").write_text(json.dumps(meta, indent=1) + "\n")
print(json.dumps(meta, indent=1))
