"""
Fifth target group of py2lean: the CODEC FUNCTIONS of pydsdl/_serdes.py (`deserialize`, `_deserialize_*`, `serialize`, `_serialize_*`,
`_default_value`).  Output: lean/Gen/Codec.lean (imports Gen.Serdes: the reader / writer state structures and their generated methods).

What is different from the other groups:

  * the targets are module-level functions that call each other recursively over a tree of *schema objects*.  Every function of a
    call cycle gets a fuel argument (`…_rec`; one unit per Python frame, `RecursionError` when it runs out) and the cycle becomes a
    `mutual` block; the function proper starts it with `Py.recursionLimit`.  Calls inside the cycle pass the remaining fuel;
  * schema objects and their fields are `Py.Obj` (lean/PyLib/Codec.lean).  Attribute access is dynamic as in Python: `x.attr` becomes the
    monadic accessor `Py.Obj.attr x` (AttributeError when the class has no such attribute), `isinstance(x, C)` becomes
    `Py.isinstance x .C` along the class hierarchy -- the translator does not reason about which branch knows which class;
  * Python values (`_Value`, `_Obj`) are `Py.Value`; a local whose Python value is an int / bool / list / dict / bytes is kept in the
    corresponding Lean type and wrapped (`Py.Value.int`, `.dict`, …) where it flows into a `_Value` position;
  * ints: a non-negative quantity (widths, counts, raw field values read by `read_bits`) is `Nat`; a difference is an `Int`
    (`a - b` never truncates); a shift count given as a difference is checked (`Py.shiftCount`, ValueError when negative);
  * `_BitReader` / `_BitWriter` objects are state values threaded explicitly (several per function: parameter, bounded sub-reader,
    temporary writer).  A function that changes the state of a parameter object returns the new state next to its result.
    Aliasing of such objects (`x = reader`) is rejected;
  * `raise C(msg)`: the message is evaluated for its effects only (every sub-expression is translated and may raise), then dropped;
    `C` must be ValueError, TypeError or one of the SerDesError subclasses of the module;
  * a local first assigned in several branches of an `if` / `elif` chain and used afterwards is declared in front of it; every
    branch through which control can continue must assign it (otherwise the function is rejected);
  * serializing side: a `_Value` is inspected dynamically (`Py.Value.isinstance`, `.len`, `.iter`, `.toList`, `.encodeUtf8`,
    `.decodeUtf8`, `.keys`, `.getItem`, `.getD`, `.toInt`, `.roundToInt`, `.isFinite`, truth value); a re-assigned parameter becomes a
    mutable local; `x = None` declares an `Option` local whose other values are loop variables (`Py.optGet` where the value is
    needed); `for i, x in enumerate(l)` / `break` become `Py.forEachB` over `Py.enumerate`; list / set comprehensions become `mapM`;
    `key not in names`, `v is _DEFAULT_SENTINEL` (only when the module defines that name once, as `object()`), `max` / `min`,
    `&` on ints (`Py.iand`), `write_bits(<int>)` through the checked conversion `Py.toNat`;
  * OPAQUE REGIONS: in a function listed in OPAQUE_RESULTS a maximal run of consecutive statements that cannot be translated,
    touches no reader / writer and calls no translated function, and whose only effect on the following code is the value of the one
    listed local, becomes `let <local> ← Py.opaqueBytes <key> [<locals it reads>]` -- an uninterpreted function keyed by a hash of the
    region's text (`Gen.Codec.opaque_key_…`).  This is how the float conversion of `_serialize_primitive` (float(), saturation,
    struct.pack and its OverflowError handling) stays outside the fragment without being guessed;
  * EXTERNAL functions (`_normalize_relaxed_value`) are uninterpreted (`Py.externalValue`).

Robustness against behaviour-preserving refactorings (all general, none keyed to a particular edit):
  * HELPERS: every module-level function reachable from the targets through the call graph (found by call, not by name) is translated
    like a target (annotations: unions of schema classes are schema objects, `int` is `Int`, `_BitReader` / `_BitWriter` results are
    objects); a non-recursive helper gets `attribute [codec_helper]`, the simp set the bridge proofs unfold;
  * a call that yields a fresh reader / writer may be passed directly as an object argument (it is bound to a local of its own);
  * DESUGARING (class Desugar): comprehensions whose element changes a reader / writer, dict comprehensions, `bytes(<generator>)`
    and `next((… for … if …), default)` are rewritten into the accumulate-in-a-loop / search-loop-with-break form before translation, so
    both spellings give the same Lean term;
  * CANONICAL COMPARISONS: `a > b` is emitted as `b < a`, `a >= b` as `b ≤ a`, `not (a <= b)` as `b < a`, trivially true links
    `0 <= <non-negative>` of a chain are dropped (their operands are still evaluated);
  * module-level constant `{int: str}` tables that are assigned once and only read: `TABLE.get(k)` is `Py.constLookup`;
  * `", ".join(<names>)`, `{x!r}` in messages are evaluated for their effects like the rest of a message.

Everything else makes the function a definition that always fails (never guess) and is reported as `py2lean: [Gen.Codec] …`.
"""
from __future__ import annotations

import ast
import hashlib
import typing
from pathlib import Path

from py2lean_serdes import (CLASSES, ClassInfo, Untranslatable, assigned_names, contains, count_assignments, lname, paren)

SOURCE = "pydsdl/_serdes.py"

# in the order in which they are tried; a missing function is a problem
TARGETS = [
    "_deserialize_primitive", "_deserialize_array", "_deserialize_element", "_deserialize_composite", "_deserialize_field_value",
    "deserialize",
    "_default_value", "_serialize_primitive", "_serialize_array", "_serialize_element", "_serialize_composite", "_serialize_field_value",
    "serialize",
]

# module-level functions outside the translated fragment: uninterpreted (name -> (parameter types, result type))
EXTERNAL = {"_normalize_relaxed_value": (["schema", "value"], "value")}

# opaque regions (see FTr.opaque_region): the type of the one local through which a region acts on what follows
OPAQUE_RESULTS = {"_serialize_primitive": {"packed": "bytes"}}

VALUE_CLASSES = {"bool", "int", "float", "str", "bytes", "bytearray", "list", "tuple", "dict"}

SCHEMA_CLASSES = {
    "SerializableType", "PrimitiveType", "BooleanType", "ArithmeticType", "IntegerType", "SignedIntegerType", "UnsignedIntegerType",
    "ByteType", "UTF8Type", "FloatType", "VoidType", "ArrayType", "FixedLengthArrayType", "VariableLengthArrayType", "CompositeType",
    "StructureType", "UnionType", "DelimitedType", "ServiceType", "Field", "PaddingField",
}

# attribute -> type of the value
ATTRS = {
    "bit_length": "nat", "cast_mode": "cast", "element_type": "schema", "capacity": "nat", "length_field_type": "schema",
    "inner_type": "schema", "delimiter_header_type": "schema", "tag_field_type": "schema", "fields": "schemalist",
    "fields_except_padding": "schemalist", "alignment_requirement": "nat", "data_type": "schema", "name": "str", "full_name": "str",
    "inclusive_value_range": "range",
}

ERRORS = {
    "ValueError": ".valueError", "TypeError": ".typeError",
    "ArrayLengthError": '(.other "ArrayLengthError")', "UnionFieldError": '(.other "UnionFieldError")',
    "UnionTagError": '(.other "UnionTagError")', "DelimiterHeaderError": '(.other "DelimiterHeaderError")',
}
SERDES_ERRORS = {"ArrayLengthError", "UnionFieldError", "UnionTagError", "DelimiterHeaderError"}

LEAN_TY = {
    "nat": "Nat", "int": "Int", "bool": "Bool", "bytes": "List Nat", "str": "String", "schema": "Py.Obj", "schemalist": "List Py.Obj",
    "value": "Py.Value", "valuelist": "List Py.Value", "dict": "List (String × Py.Value)", "cast": "Py.CastMode", "none": "Unit",
    "obj:_BitReader": "Gen.ReaderS", "obj:_BitWriter": "Gen.WriterS", "range": "Int × Int", "strlist": "List String",
    "optnat": "Option Nat", "optschema": "Option Py.Obj", "optstr": "Option String",
}
DUMMY = {
    "nat": "(0 : Nat)", "int": "(0 : Int)", "bool": "false", "bytes": "([] : List Nat)", "str": '""', "schema": "(default : Py.Obj)",
    "value": "Py.Value.none", "valuelist": "([] : List Py.Value)", "dict": "([] : List (String × Py.Value))",
    "schemalist": "([] : List Py.Obj)", "range": "((0 : Int), (0 : Int))", "strlist": "([] : List String)",
}


def is_obj(t: str) -> bool:
    return t.startswith("obj:")


def lean_fn(name: str) -> str:
    return "Gen.Codec." + name.lstrip("_")


def ann_type(a: typing.Optional[ast.AST], what: str) -> str:
    if a is None:
        raise Untranslatable("missing annotation of %s" % what)
    s = ast.unparse(a)
    tbl = {
        "_BitReader": "obj:_BitReader", "_BitWriter": "obj:_BitWriter", "_Value": "value", "_Obj": "value", "None": "none",
        "bool": "bool", "bytes": "bytes", "bytes | bytearray | memoryview": "bytes", "int": "int", "str": "str",
        "CompositeType": "schema", "ArrayType": "schema", "PrimitiveType | VoidType": "schema", "SerializableType": "schema",
        "typing.Any": "schema",  # every `typing.Any` parameter of the targets is a schema object (checked: see check_any_params)
    }
    if s in tbl:
        return tbl[s]
    parts = [x.strip() for x in s.split("|")]
    if parts and all(x in SCHEMA_CLASSES for x in parts):
        return "schema"
    raise Untranslatable("annotation %s of %s" % (s, what))


class FnInfo:
    def __init__(self, node: ast.FunctionDef):
        self.node = node
        self.name = node.name
        a = node.args
        if a.vararg or a.kwarg or a.posonlyargs:
            raise Untranslatable("parameter list")
        if any(d is None for d in a.kw_defaults):
            raise Untranslatable("keyword-only parameter without default")
        if node.decorator_list:
            raise Untranslatable("decorator")
        self.params: typing.List[typing.Tuple[str, str]] = []
        for p in list(a.args) + list(a.kwonlyargs):
            self.params.append((p.arg, ann_type(p.annotation, p.arg)))
        self.ret = ann_type(node.returns, "the result")
        self.check_any_params()
        self.calls: typing.Set[str] = set()  # targets called
        self.mutated: typing.List[str] = []  # object parameters whose state the function changes, in parameter order
        self.recursive = False
        self.scc: typing.FrozenSet[str] = frozenset()

    def check_any_params(self) -> None:
        """A parameter annotated `typing.Any` is taken for a schema object only when the function tests it against schema classes only."""
        for p in list(self.node.args.args) + list(self.node.args.kwonlyargs):
            if p.annotation is not None and ast.unparse(p.annotation) == "typing.Any":
                seen = False
                for n in ast.walk(self.node):
                    if (isinstance(n, ast.Call) and isinstance(n.func, ast.Name) and n.func.id == "isinstance" and len(n.args) == 2
                            and isinstance(n.args[0], ast.Name) and n.args[0].id == p.arg):
                        names = class_names(n.args[1])
                        if names is None or not all(c in SCHEMA_CLASSES for c in names):
                            raise Untranslatable("parameter %s: typing.Any tested against non-schema classes" % p.arg)
                        seen = True
                if not seen:
                    raise Untranslatable("parameter %s: typing.Any without isinstance tests" % p.arg)

    def obj_params(self) -> typing.List[typing.Tuple[str, str]]:
        return [(p, t) for p, t in self.params if is_obj(t)]

    def result_type(self) -> str:
        parts = ([] if self.ret == "none" else [LEAN_TY[self.ret]]) + [LEAN_TY[dict(self.params)[p]] for p in self.mutated]
        if not parts:
            return "Unit"
        return parts[0] if len(parts) == 1 else "(" + " × ".join(parts) + ")"


def class_names(n: ast.AST) -> typing.Optional[typing.List[str]]:
    if isinstance(n, ast.Name):
        return [n.id]
    if isinstance(n, ast.Tuple) and all(isinstance(x, ast.Name) for x in n.elts):
        return [x.id for x in n.elts]  # type: ignore[attr-defined]
    return None


def branch_assigned(body: typing.List[ast.stmt]) -> typing.Tuple[typing.Set[str], bool]:
    """(locals definitely assigned when control leaves the block normally, block cannot be left normally)."""
    out: typing.Set[str] = set()
    for s in body:
        if isinstance(s, (ast.Return, ast.Raise)):
            return out, True
        if isinstance(s, ast.Assign) and len(s.targets) == 1 and isinstance(s.targets[0], ast.Name):
            out.add(s.targets[0].id)
        elif isinstance(s, ast.If):
            a, sa = branch_assigned(s.body)
            b, sb = branch_assigned(s.orelse) if s.orelse else (set(), False)
            if sa and sb:
                return out, True
            out |= b if sa else a if sb else (a & b)
    return out, False


class FTr:
    """Translates the body of one function."""

    def __init__(self, fns: typing.Dict[str, FnInfo], classes: typing.Dict[str, ClassInfo], fi: FnInfo):
        self.fns = fns
        self.classes = classes
        self.fi = fi
        self.types: typing.Dict[str, str] = {}
        self.pre: typing.List[str] = []
        self.tmp = 0
        self.mut: typing.Set[str] = set()
        self.last_cmp: typing.Optional[typing.Tuple[str, str, str]] = None
        self.sentinel_ok = False   # the module defines `_DEFAULT_SENTINEL = object()`
        self.opt_types: typing.Dict[str, str] = {}  # locals initialised with None -> type of their other values
        self.in_break_loop = False
        self.loop_state: str = ""
        self.src_lines: typing.List[str] = []

    def clone(self) -> "FTr":
        c = FTr(self.fns, self.classes, self.fi)
        c.types, c.tmp, c.mut = dict(self.types), self.tmp, set(self.mut)
        c.sentinel_ok, c.opt_types, c.in_break_loop, c.loop_state, c.src_lines = (
            self.sentinel_ok, self.opt_types, self.in_break_loop, self.loop_state, self.src_lines)
        return c

    def fresh(self) -> str:
        self.tmp += 1
        return "t%d" % self.tmp

    def bind(self, m: str) -> str:
        v = self.fresh()
        self.pre.append("let %s ← %s" % (v, m))
        return v

    # ------------------------------------------------------------------ coercions
    def to_value(self, v: str, t: str) -> str:
        if t == "value":
            return v
        wrap = {"nat": "(Py.Value.int (Int.ofNat %s))", "int": "(Py.Value.int %s)", "bool": "(Py.Value.bool %s)", "none": "Py.Value.none",
                "valuelist": "(Py.Value.list %s)", "dict": "(Py.Value.dict %s)", "bytes": "(Py.Value.bytes %s)",
                "str": "(Py.Value.ofString %s)"}.get(t)
        if wrap is None:
            raise Untranslatable("%s used as a Python value" % t)
        return wrap % v if "%s" in wrap else wrap

    def coerce(self, v: str, t: str, want: str) -> str:
        if t == want:
            return v
        if want == "value":
            return self.to_value(v, t)
        if t == "nat" and want == "int":
            return "(Int.ofNat %s)" % v
        if t == "optnat" and want == "nat":
            return self.bind("Py.optGet %s" % v)
        if t == "optschema" and want == "schema":
            return self.bind("Py.optGet %s" % v)
        if t == "optstr" and want == "str":
            return self.bind("Py.optGet %s" % v)
        raise Untranslatable("%s where %s is expected" % (t, want))

    def nat_arg(self, n: ast.AST) -> str:
        v, t = self.e(n)
        if t == "optnat":
            return self.bind("Py.optGet %s" % v)
        if t != "nat":
            raise Untranslatable("%s where a non-negative int is needed (%s)" % (t, ast.unparse(n)))
        return v

    # ------------------------------------------------------------------ expressions: (lean term, type)
    def e(self, n: ast.AST) -> typing.Tuple[str, str]:
        if isinstance(n, ast.Constant):
            if n.value is None:
                return "()", "none"
            if isinstance(n.value, bool):
                return ("true" if n.value else "false"), "bool"
            if isinstance(n.value, int) and n.value >= 0:
                return "(%d : Nat)" % n.value, "nat"
            if isinstance(n.value, str):
                return lean_str(n.value), "str"
            if isinstance(n.value, float) and n.value == 0.0 and str(n.value) == "0.0":
                return "(Py.Value.float 0)", "value"  # +0.0: the all-zero pattern in every IEEE-754 format
            if isinstance(n.value, bytes):
                return "([%s] : List Nat)" % ", ".join(str(b) for b in n.value), "bytes"
            raise Untranslatable("constant %r" % (n.value,))
        if isinstance(n, ast.JoinedStr):
            # a message: evaluated for its effects, the text is dropped
            for part in n.values:
                if isinstance(part, ast.FormattedValue):
                    if part.format_spec is not None:
                        raise Untranslatable("format specification")
                    _, tpart = self.e(part.value)
                    if part.conversion != -1 and tpart not in ("str", "nat", "int", "bool"):
                        raise Untranslatable("conversion !%s of %s" % (chr(part.conversion), tpart))
                elif not isinstance(part, ast.Constant):
                    raise Untranslatable("f-string part")
            return '""', "str"
        if isinstance(n, ast.Name):
            if n.id in self.types:
                return lname(n.id), self.types[n.id]
            if n.id == "_DEFAULT_SENTINEL" and self.sentinel_ok:
                return "Py.Value.sentinel", "value"
            raise Untranslatable("unknown name %s" % n.id)
        if isinstance(n, ast.Attribute):
            return self.attribute(n)
        if isinstance(n, ast.BinOp):
            return self.binop(n)
        if isinstance(n, ast.UnaryOp) and isinstance(n.op, ast.Not) and isinstance(n.operand, ast.Compare):
            return self.compare(n.operand, negate=True)
        if isinstance(n, ast.UnaryOp) and isinstance(n.op, ast.Not):
            a, ta = self.e(n.operand)
            if ta != "bool":
                raise Untranslatable("not on %s" % ta)
            return "(!%s)" % a, "bool"
        if isinstance(n, ast.Compare):
            return self.compare(n)
        if isinstance(n, ast.BoolOp):
            before = len(self.pre)
            vals = [self.e(v) for v in n.values]
            if len(self.pre) != before or any(t != "bool" for _, t in vals):
                raise Untranslatable("short-circuit operator with raising or non-boolean operands")
            return "(" + (" && " if isinstance(n.op, ast.And) else " || ").join(v for v, _ in vals) + ")", "bool"
        if isinstance(n, ast.IfExp):
            return self.ifexp(n)
        if isinstance(n, ast.Subscript):
            v0 = n.value
            if (isinstance(v0, ast.Call) and ast.unparse(v0.func) == "struct.unpack" and len(v0.args) == 2 and not v0.keywords
                    and isinstance(n.slice, ast.Constant) and n.slice.value == 0):
                fmt, tf = self.e(v0.args[0])
                if tf == "optstr":
                    fmt, tf = self.bind("Py.optGet %s" % fmt), "str"
                b, tb = self.e(v0.args[1])
                if tf != "str" or tb != "bytes":
                    raise Untranslatable("struct.unpack on %s, %s" % (tf, tb))
                return self.bind("Py.structUnpackFloat %s %s" % (fmt, b)), "value"
            base, bt = self.e(n.value)
            if isinstance(n.slice, ast.Slice):
                raise Untranslatable("slice")
            if bt == "schemalist":
                i = self.nat_arg(n.slice)
                return self.bind("Py.index %s %s" % (base, i)), "schema"
            if bt == "value":
                k, tk = self.e(n.slice)
                if tk != "str":
                    raise Untranslatable("subscript of a value with %s" % tk)
                return self.bind("Py.Value.getItem %s %s" % (base, k)), "value"
            raise Untranslatable("subscript of %s" % bt)
        if isinstance(n, ast.Dict):
            if len(n.keys) == 0:
                return "([] : List (String × Py.Value))", "dict"
            if len(n.keys) == 1 and n.keys[0] is not None:
                k, tk = self.e(n.keys[0])
                v, tv = self.e(n.values[0])
                if tk != "str":
                    raise Untranslatable("dict key of type %s" % tk)
                return "[(%s, %s)]" % (k, self.to_value(v, tv)), "dict"
            raise Untranslatable("dict display")
        if isinstance(n, ast.List) and not n.elts:
            return "([] : List Py.Value)", "valuelist"
        if isinstance(n, (ast.ListComp, ast.SetComp, ast.GeneratorExp)):
            return self.comprehension(n)
        if isinstance(n, ast.Call):
            return self.call(n)
        raise Untranslatable(type(n).__name__)

    def attribute(self, n: ast.Attribute) -> typing.Tuple[str, str]:
        s = ast.unparse(n)
        if s == "PrimitiveType.CastMode.SATURATED":
            return "Py.CastMode.saturated", "cast"
        if s == "PrimitiveType.CastMode.TRUNCATED":
            return "Py.CastMode.truncated", "cast"
        # type(x).__name__ : total
        if (n.attr == "__name__" and isinstance(n.value, ast.Call) and isinstance(n.value.func, ast.Name) and n.value.func.id == "type"
                and len(n.value.args) == 1 and not n.value.keywords):
            self.e(n.value.args[0])
            return '""', "str"
        base, bt = self.e(n.value)
        if bt == "range" and n.attr in ("min", "max"):
            return "(%s).%d" % (base, 1 if n.attr == "min" else 2), "int"
        if bt == "optschema":
            base, bt = self.bind("Py.optGet %s" % base), "schema"
        if bt == "schema":
            if n.attr not in ATTRS:
                raise Untranslatable("attribute .%s of a schema object" % n.attr)
            return self.bind("Py.Obj.%s %s" % (n.attr, base)), ATTRS[n.attr]
        if is_obj(bt):
            ci = self.classes.get(bt[4:])
            if ci is not None and n.attr in ci.fns and ci.is_property(n.attr) and n.attr not in ci.mutating:
                _, ret = ci.signature(n.attr)
                return self.bind("%s %s" % (ci.lean_name(n.attr), base)), {"int": "nat"}.get(ret, ret)
        raise Untranslatable("attribute %s" % s)

    def truth(self, n: ast.AST) -> str:
        """a condition: a bool, or the truth value of a Python value"""
        c, tc = self.e(n)
        if tc == "value":
            return "(Py.Value.truthy %s)" % c
        if tc != "bool":
            raise Untranslatable("condition of type %s" % tc)
        return c

    def ifexp(self, n: ast.IfExp) -> typing.Tuple[str, str]:
        c = self.truth(n.test)
        sa, sb = self.clone(), self.clone()
        a, ta = sa.e(n.body)
        sb.tmp = sa.tmp
        b, tb = sb.e(n.orelse)
        self.tmp = sb.tmp
        if ta != tb:
            raise Untranslatable("conditional expression of types %s / %s" % (ta, tb))
        if not sa.pre and not sb.pre:
            return "(if %s then %s else %s)" % (c, a, b), ta

        def blk(tr: "FTr", v: str) -> str:
            return "(do\n§" + "\n§".join(x.replace("§", "§  ") for x in tr.pre + ["pure %s" % v]) + ")"
        return self.bind("(if %s then %s else %s)" % (c, blk(sa, a), blk(sb, b))), ta

    def binop(self, n: ast.BinOp) -> typing.Tuple[str, str]:
        a, ta = self.e(n.left)
        if isinstance(n.op, ast.LShift) or isinstance(n.op, ast.RShift):
            sym = "<<<" if isinstance(n.op, ast.LShift) else ">>>"
            b, tb = self.e(n.right)
            if ta != "nat":
                raise Untranslatable("shift of %s" % ta)
            if tb == "int":
                b = self.bind("Py.shiftCount %s" % b)
            elif tb != "nat":
                raise Untranslatable("shift by %s" % tb)
            return "(%s %s %s)" % (a, sym, b), "nat"
        b, tb = self.e(n.right)
        if ta == tb == "str" and isinstance(n.op, ast.Add):
            return "(%s ++ %s)" % (a, b), "str"
        if ta == tb == "bytes" and isinstance(n.op, ast.Add):
            return "(%s ++ %s)" % (a, b), "bytes"
        if ta not in ("nat", "int") or tb not in ("nat", "int"):
            raise Untranslatable("operator %s on %s, %s" % (type(n.op).__name__, ta, tb))
        if isinstance(n.op, ast.Sub):
            return "(%s - %s)" % (self.coerce(a, ta, "int"), self.coerce(b, tb, "int")), "int"
        if isinstance(n.op, (ast.Add, ast.Mult)):
            sym = "+" if isinstance(n.op, ast.Add) else "*"
            if ta == tb == "nat":
                return "(%s %s %s)" % (a, sym, b), "nat"
            return "(%s %s %s)" % (self.coerce(a, ta, "int"), sym, self.coerce(b, tb, "int")), "int"
        if isinstance(n.op, ast.BitAnd) and "int" in (ta, tb):
            return "(Py.iand %s %s)" % (self.coerce(a, ta, "int"), self.coerce(b, tb, "int")), "int"
        if ta == tb == "nat":
            pure = {ast.BitAnd: "&&&", ast.BitOr: "|||"}.get(type(n.op))
            if pure is not None:
                return "(%s %s %s)" % (a, pure, b), "nat"
            if isinstance(n.op, (ast.FloorDiv, ast.Mod)):
                lit = isinstance(n.right, ast.Constant) and isinstance(n.right.value, int) and not isinstance(n.right.value, bool) and n.right.value > 0
                if lit:
                    return "(%s %s %s)" % (a, "/" if isinstance(n.op, ast.FloorDiv) else "%", b), "nat"
                return self.bind("Py.%s %s %s" % ("floordiv" if isinstance(n.op, ast.FloorDiv) else "mod", a, b)), "nat"
        raise Untranslatable("operator %s on %s, %s" % (type(n.op).__name__, ta, tb))

    def compare(self, n: ast.Compare, negate: bool = False) -> typing.Tuple[str, str]:
        """Comparisons are emitted in a canonical form: `<` / `≤` only (`a > b` is `b < a`), trivially true links of a chain
        (`0 <= <non-negative>`) dropped, a negated integer comparison as the complementary comparison."""
        self.last_cmp = None
        v, t = self.compare0(n)
        if not negate:
            return v, t
        if self.last_cmp is not None:  # a single integer comparison l < r / l ≤ r: its complement (a total order)
            l, sym, r = self.last_cmp
            return "decide (%s %s %s)" % (r, "≤" if sym == "<" else "<", l), t
        return "(!%s)" % v, t

    def compare0(self, n: ast.Compare) -> typing.Tuple[str, str]:
        parts = []
        # -float("inf") < x < float("inf")
        if (len(n.ops) == 2 and all(isinstance(o, ast.Lt) for o in n.ops) and ast.unparse(n.left) == "-float('inf')"
                and ast.unparse(n.comparators[1]) == "float('inf')"):
            x, tx = self.e(n.comparators[0])
            if tx != "value":
                raise Untranslatable("finiteness test on %s" % tx)
            return self.bind("Py.Value.isFinite %s" % x), "bool"
        if len(n.ops) == 1 and isinstance(n.ops[0], (ast.Is, ast.IsNot)):
            x, tx = self.e(n.left)
            c = n.comparators[0]
            neg = isinstance(n.ops[0], ast.IsNot)
            if isinstance(c, ast.Constant) and c.value is None and tx in ("optnat", "optschema", "optstr"):
                return "(%s).%s" % (x, "isSome" if neg else "isNone"), "bool"
            if isinstance(c, ast.Name) and c.id == "_DEFAULT_SENTINEL" and self.sentinel_ok and tx == "value":
                t = "(Py.Value.isSentinel %s)" % x
                return ("(!%s)" % t if neg else t), "bool"
            raise Untranslatable("identity test %s" % ast.unparse(n))
        if len(n.ops) == 1 and isinstance(n.ops[0], (ast.In, ast.NotIn)):
            x, tx = self.e(n.left)
            c, tc = self.e(n.comparators[0])
            if tx == "str" and tc == "strlist":
                t = "((%s).contains %s)" % (c, x)
                return ("(!%s)" % t if isinstance(n.ops[0], ast.NotIn) else t), "bool"
            raise Untranslatable("membership test of %s in %s" % (tx, tc))
        left, tl = self.e(n.left)
        cmps: typing.List[typing.Tuple[str, str, str]] = []
        always = True  # every comparison so far is trivially true: the next operand is evaluated in any case
        for op, c in zip(n.ops, n.comparators):
            before = len(self.pre)
            r, tr = self.e(c)
            if len(self.pre) != before and not always:
                raise Untranslatable("comparison chain whose later operand may raise")
            sym = {ast.Eq: "==", ast.NotEq: "!=", ast.LtE: "≤", ast.Lt: "<", ast.GtE: "≥", ast.Gt: ">"}.get(type(op))
            if sym is None:
                raise Untranslatable("comparison %s" % type(op).__name__)
            if tl in ("nat", "int") and tr in ("nat", "int"):
                if tl != tr:
                    left, r = self.coerce(left, tl, "int"), self.coerce(r, tr, "int")
                trivial = sym == "≤" and left == "(0 : Nat)" and tr == "nat"
                if sym in ("==", "!="):
                    parts.append("(%s %s %s)" % (left, sym, r))
                elif trivial:
                    pass  # 0 <= <non-negative>: always true, the operands have been evaluated above
                elif sym in ("<", "≤"):
                    parts.append("decide (%s %s %s)" % (left, sym, r))
                    cmps.append((left, sym, r))
                else:
                    parts.append("decide (%s %s %s)" % (r, "<" if sym == ">" else "≤", left))
                    cmps.append((r, "<" if sym == ">" else "≤", left))
                always = always and trivial
            elif tl == tr and tl in ("str", "cast", "bool") and sym in ("==", "!="):
                parts.append("(%s %s %s)" % (left, sym, r))
                always = False
            else:
                raise Untranslatable("comparison of %s and %s" % (tl, tr))
            left, tl = r, tr
        if len(parts) == 1 and len(cmps) == 1:
            self.last_cmp = cmps[0]
        if not parts:
            return "true", "bool"
        return ("(" + " && ".join(parts) + ")" if len(parts) > 1 else parts[0]), "bool"

    def call(self, n: ast.Call) -> typing.Tuple[str, str]:
        f = n.func
        fs = ast.unparse(f)
        if isinstance(f, ast.Name) and f.id in self.fns:
            return self.target_call(self.fns[f.id], n)
        if isinstance(f, ast.Name) and f.id in DYN_TARGETS:
            raise Untranslatable("call of %s, which could not be analysed" % f.id)
        if n.keywords:
            raise Untranslatable("keyword arguments in %s" % fs)
        if fs == "typing.cast" and len(n.args) == 2:
            return self.e(n.args[1])
        if isinstance(f, ast.Name):
            if f.id == "isinstance" and len(n.args) == 2:
                x, tx = self.e(n.args[0])
                names = class_names(n.args[1])
                if names is None:
                    raise Untranslatable("isinstance with %s" % ast.unparse(n.args[1]))
                if tx == "value":
                    bad = [c for c in names if c not in VALUE_CLASSES]
                    if bad:
                        raise Untranslatable("isinstance of a value with %s" % bad[0])
                    ts = ["Py.Value.isinstance %s .%s" % (x, c) for c in names]
                    return ("(" + " || ".join(ts) + ")"), "bool"
                if tx == "schema":
                    bad = [c for c in names if c not in SCHEMA_CLASSES]
                    if bad:
                        raise Untranslatable("isinstance of a schema object with %s" % bad[0])
                    ts = ["Py.isinstance %s .%s" % (x, c) for c in names]
                    return ("(" + " || ".join(ts) + ")"), "bool"
                raise Untranslatable("isinstance on %s" % tx)
            if f.id == "hasattr" and len(n.args) == 2 and isinstance(n.args[1], ast.Constant) and isinstance(n.args[1].value, str):
                x, tx = self.e(n.args[0])
                if tx != "schema":
                    raise Untranslatable("hasattr on %s" % tx)
                return "(Py.Obj.hasattr %s %s)" % (x, lean_str(n.args[1].value)), "bool"
            if f.id == "len" and len(n.args) == 1:
                a, ta = self.e(n.args[0])
                if ta in ("bytes", "schemalist", "valuelist", "dict", "strlist"):
                    return "(%s).length" % a, "nat"
                if ta == "value":
                    return self.bind("Py.Value.len %s" % a), "nat"
                raise Untranslatable("len of %s" % ta)
            if f.id == "int" and len(n.args) == 1:
                a0 = n.args[0]
                if isinstance(a0, ast.Call) and isinstance(a0.func, ast.Name) and a0.func.id == "round" and len(a0.args) == 1 and not a0.keywords:
                    x, tx = self.e(a0.args[0])
                    if tx != "value":
                        raise Untranslatable("round of %s" % tx)
                    return self.bind("Py.Value.roundToInt %s" % x), "int"
                a, ta = self.e(a0)
                if ta in ("nat", "int"):
                    return a, ta
                if ta == "value":
                    return self.bind("Py.Value.toInt %s" % a), "int"
                raise Untranslatable("int() of %s" % ta)
            if f.id in ("max", "min") and len(n.args) == 2:
                a, ta = self.e(n.args[0])
                b, tb = self.e(n.args[1])
                if ta in ("nat", "int") and tb in ("nat", "int"):
                    if ta == tb == "nat":
                        return "(%s %s %s)" % (f.id, a, b), "nat"
                    return "(%s %s %s)" % (f.id, self.coerce(a, ta, "int"), self.coerce(b, tb, "int")), "int"
                raise Untranslatable("%s of %s, %s" % (f.id, ta, tb))
            if f.id == "list" and len(n.args) == 1:
                a, ta = self.e(n.args[0])
                if ta == "value":
                    return self.bind("Py.Value.toList %s" % a), "value"
                raise Untranslatable("list() of %s" % ta)
            if f.id == "next" and len(n.args) == 1 and ast.unparse(n.args[0]).startswith("iter(") and ast.unparse(n.args[0]).endswith(".keys())"):
                inner = n.args[0].args[0].func.value  # type: ignore[attr-defined]
                a, ta = self.e(inner)
                if ta != "value":
                    raise Untranslatable("keys of %s" % ta)
                return self.bind("Py.Value.firstKey %s" % a), "str"
            if f.id in EXTERNAL:
                ptypes, rt = EXTERNAL[f.id]
                if len(n.args) != len(ptypes):
                    raise Untranslatable("arity of %s" % f.id)
                dyn = []
                for a0, pt in zip(n.args, ptypes):
                    v, t = self.e(a0)
                    v = self.coerce(v, t, pt)
                    dyn.append(".%s %s" % ({"schema": "obj", "value": "val"}[pt], v))
                return self.bind("Py.externalValue %s [%s]" % (lean_str(f.id), ", ".join(dyn))), rt
            if f.id == "bool" and len(n.args) == 1:
                a, ta = self.e(n.args[0])
                if ta == "nat":
                    return "(%s != (0 : Nat))" % a, "bool"
                if ta == "bool":
                    return a, "bool"
                raise Untranslatable("bool() of %s" % ta)
            if f.id == "bytes" and len(n.args) == 1:
                a, ta = self.e(n.args[0])
                if ta == "bytes":
                    return a, "bytes"
                if ta == "valuelist":
                    return self.bind("Py.bytesOfValues %s" % a), "bytes"
                raise Untranslatable("bytes() of %s" % ta)
            if f.id == "bytearray" and not n.args:
                return "([] : List Nat)", "bytes"
            if f.id in self.classes:
                return self.construct(self.classes[f.id], n.args)
        if isinstance(f, ast.Attribute):
            # struct.unpack(fmt, b)[0] is handled by the caller (subscript); here: methods
            if (f.attr == "decode" and len(n.args) == 1 and isinstance(n.args[0], ast.Constant) and n.args[0].value == "utf-8"
                    and not (isinstance(f.value, ast.Name) and self.types.get(f.value.id) == "value")):
                b, tb = self.e(f.value)
                if tb != "bytes":
                    raise Untranslatable("decode on %s" % tb)
                return self.bind("Py.decodeUtf8 %s" % b), "value"
            if f.attr == "join" and isinstance(f.value, ast.Constant) and isinstance(f.value.value, str) and len(n.args) == 1:
                lst, tl = self.e(n.args[0])
                if tl != "strlist":
                    raise Untranslatable("join of %s" % tl)
                return "(String.intercalate %s %s)" % (lean_str(f.value.value), lst), "str"
            if (isinstance(f.value, ast.Name) and f.value.id in CONST_TABLES and f.value.id not in self.types and f.attr == "get"
                    and len(n.args) == 1):
                k = self.nat_arg(n.args[0])
                return "(Py.constLookup %s %s)" % (CONST_TABLES[f.value.id], k), "optstr"
            if isinstance(f.value, ast.Name) and is_obj(self.types.get(f.value.id, "")):
                return self.method_call(f.value.id, f.attr, n.args)
            if isinstance(f.value, ast.Name) and self.types.get(f.value.id) == "value":
                x = lname(f.value.id)
                utf8 = len(n.args) == 1 and isinstance(n.args[0], ast.Constant) and n.args[0].value == "utf-8"
                if f.attr == "encode" and utf8:
                    return self.bind("Py.Value.encodeUtf8 %s" % x), "value"
                if f.attr == "decode" and utf8:
                    return self.bind("Py.Value.decodeUtf8 %s" % x), "value"
                if f.attr == "keys" and not n.args:
                    return self.bind("Py.Value.keys %s" % x), "strlist"
                if f.attr == "get" and len(n.args) == 2:
                    k, tk = self.e(n.args[0])
                    d, td = self.e(n.args[1])
                    if tk != "str":
                        raise Untranslatable("get with a key of type %s" % tk)
                    return self.bind("Py.Value.getD %s %s %s" % (x, k, self.to_value(d, td))), "value"
        raise Untranslatable("call %s" % fs)

    def construct(self, ci: ClassInfo, args: typing.List[ast.AST]) -> typing.Tuple[str, str]:
        params, _ = ci.signature("__init__")
        init = ci.fns["__init__"]
        defaults = [None] * (len(params) - len(init.args.defaults)) + list(init.args.defaults)
        vals = []
        if len(args) > len(params):
            raise Untranslatable("too many constructor arguments")
        for i, (p, pt) in enumerate(params):
            if i < len(args):
                v, t = self.e(args[i])
                vals.append(self.ser_coerce(v, t, pt))
            elif defaults[i] is not None:
                d = defaults[i]
                if isinstance(d, ast.Constant) and d.value is None and pt == "optint":
                    vals.append("(none : Option Nat)")
                elif isinstance(d, ast.Constant) and isinstance(d.value, int) and not isinstance(d.value, bool) and d.value >= 0 and pt == "int":
                    vals.append("(%d : Nat)" % d.value)
                else:
                    raise Untranslatable("default value %s" % ast.unparse(d))
            else:
                raise Untranslatable("missing constructor argument %s" % p)
        return self.bind(("%s %s" % (ci.lean_name("__init__"), " ".join(vals))).strip()), "obj:" + ci.name

    def ser_coerce(self, v: str, t: str, want: str) -> str:
        """argument of a method of the serdes classes (types of py2lean_serdes: int = Nat, optint, bytes)"""
        if want == "int" and t == "nat":
            return v
        if want == "int" and t == "int":
            return self.bind("Py.toNat %s" % v)
        if want == "int" and t == "optnat":
            return self.bind("Py.optGet %s" % v)
        if want == "optint" and t == "nat":
            return "(some %s)" % v
        if want == t:
            return v
        raise Untranslatable("%s passed where %s is expected" % (t, want))

    def method_call(self, var: str, m: str, args: typing.List[ast.AST]) -> typing.Tuple[str, str]:
        ci = self.classes[self.types[var][4:]]
        if m not in ci.spec["methods"] or m == "__init__" or ci.is_property(m):
            raise Untranslatable("method %s.%s" % (ci.name, m))
        params, ret = ci.signature(m)
        if len(args) != len(params):
            raise Untranslatable("arity of %s.%s" % (ci.name, m))
        vals = []
        for a, (p, pt) in zip(args, params):
            if any(isinstance(x, ast.Name) and x.id == var for x in ast.walk(a)):
                raise Untranslatable("argument of %s.%s reads the object" % (var, m))
            v, t = self.e(a)
            vals.append(self.ser_coerce(v, t, pt))
        callee = ("%s %s %s" % (ci.lean_name(m), lname(var), " ".join(vals))).strip()
        rt = {"int": "nat"}.get(ret, ret)
        if m in ci.mutating:
            self.need_mut(var)
            if ret.startswith("obj:"):
                # (new object, new state of the receiver)
                v, s = self.fresh(), self.fresh()
                self.pre.append("let (%s, %s) ← %s" % (v, s, callee))
                self.pre.append("%s := %s" % (lname(var), s))
                return v, ret
            if ret == "none":
                self.pre.append("%s ← %s" % (lname(var), callee))
                return "()", "none"
            v, s = self.fresh(), self.fresh()
            self.pre.append("let (%s, %s) ← %s" % (v, s, callee))
            self.pre.append("%s := %s" % (lname(var), s))
            return v, rt
        return self.bind(callee), rt

    def need_mut(self, var: str) -> None:
        if var not in self.mut:
            raise Untranslatable("state of %s changes but it is not a mutable local" % var)

    def target_call(self, fi: FnInfo, n: ast.Call) -> typing.Tuple[str, str]:
        names = [p for p, _ in fi.params]
        if len(n.args) > len(fi.node.args.args):
            raise Untranslatable("too many positional arguments for %s" % fi.name)
        given: typing.Dict[str, ast.AST] = {}
        for p, a in zip(names, n.args):
            given[p] = a
        for k in n.keywords:
            if k.arg is None or k.arg not in names or k.arg in given:
                raise Untranslatable("keyword argument of %s" % fi.name)
            given[k.arg] = k.value
        # defaults
        a = fi.node.args
        defaults: typing.Dict[str, ast.AST] = {}
        for p, d in zip(a.args[len(a.args) - len(a.defaults):], a.defaults):
            defaults[p.arg] = d
        for p, d in zip(a.kwonlyargs, a.kw_defaults):
            defaults[p.arg] = d  # type: ignore[assignment]
        vals = []
        obj_args: typing.Dict[str, str] = {}
        for p, pt in fi.params:
            src = given.get(p, defaults.get(p))
            if src is None:
                raise Untranslatable("missing argument %s of %s" % (p, fi.name))
            if is_obj(pt) and not isinstance(src, ast.Name):
                # the result of a call that yields a fresh object: bound to a local of its own
                v, t = self.e(src)
                if t != pt:
                    raise Untranslatable("argument %s of %s must be a %s" % (p, fi.name, pt[4:]))
                tmpn = "obj%d" % (len(self.types) + self.tmp)
                while tmpn in self.types:
                    tmpn += "x"
                self.pre.append("let mut %s := %s" % (tmpn, v))
                self.types[tmpn] = pt
                self.mut.add(tmpn)
                src = ast.Name(id=tmpn, ctx=ast.Load())
            if is_obj(pt):
                if not isinstance(src, ast.Name) or self.types.get(src.id) != pt:
                    raise Untranslatable("argument %s of %s must be a local %s" % (p, fi.name, pt[4:]))
                if src.id in obj_args.values():
                    raise Untranslatable("the same object passed twice")
                obj_args[p] = src.id
                vals.append(lname(src.id))
            else:
                v, t = self.e(src)
                vals.append(self.coerce(v, t, pt))
        if fi.recursive and fi.name in self.fi.scc:
            callee = "%s_rec fuel %s" % (lean_fn(fi.name), " ".join(vals))
        else:
            callee = "%s %s" % (lean_fn(fi.name), " ".join(vals))
        outs = []
        if fi.ret != "none":
            outs.append(self.fresh())
        states = []
        for p in fi.mutated:
            self.need_mut(obj_args[p])
            states.append((obj_args[p], self.fresh()))
        pat = outs + [s for _, s in states]
        if not pat:
            self.pre.append("%s" % callee)
        elif len(pat) == 1:
            self.pre.append("let %s ← %s" % (pat[0], callee))
        else:
            self.pre.append("let (%s) ← %s" % (", ".join(pat), callee))
        for var, s in states:
            self.pre.append("%s := %s" % (lname(var), s))
        return (outs[0] if outs else "()"), fi.ret

    def comprehension(self, n: typing.Union[ast.ListComp, ast.SetComp, ast.GeneratorExp]) -> typing.Tuple[str, str]:
        """[E for x in L] / {E for x in L} over a list of schema objects or a range; E may raise (-> mapM)"""
        if len(n.generators) != 1 or n.generators[0].ifs or n.generators[0].is_async or not isinstance(n.generators[0].target, ast.Name):
            raise Untranslatable("comprehension shape")
        g = n.generators[0]
        var = g.target.id  # type: ignore[attr-defined]
        if isinstance(g.iter, ast.Call) and isinstance(g.iter.func, ast.Name) and g.iter.func.id == "range" and len(g.iter.args) == 1:
            it, et = "(Py.range %s)" % self.nat_arg(g.iter.args[0]), "nat"
        else:
            it, t = self.e(g.iter)
            et = {"schemalist": "schema", "valuelist": "value", "strlist": "str"}.get(t, "")
            if not et:
                raise Untranslatable("comprehension over %s" % t)
        sub = self.clone()
        if var != "_":
            if var in self.types:
                raise Untranslatable("comprehension variable shadows a local")
            sub.types[var] = et
        v, tv = sub.e(n.elt)
        self.tmp = sub.tmp
        if isinstance(n, ast.SetComp) and tv != "str":
            raise Untranslatable("set comprehension of %s" % tv)
        rt = {"str": "strlist", "schema": "schemalist"}.get(tv)
        if rt is None:
            v, rt = sub.to_value(v, tv), "valuelist"
        lam = "(fun %s => do\n§%s)" % (lname(var) if var != "_" else "_", "\n§".join(x.replace("§", "§  ") for x in sub.pre + ["pure %s" % v]))
        return self.bind("(%s).mapM %s" % (it, lam)), rt

    # ------------------------------------------------------------------ opaque regions
    def touches_translated_state(self, s: ast.stmt) -> bool:
        for n in ast.walk(s):
            if isinstance(n, ast.Name) and is_obj(self.types.get(n.id, "")):
                return True
            if isinstance(n, ast.Call) and isinstance(n.func, ast.Name) and (n.func.id in DYN_TARGETS or n.func.id in EXTERNAL):
                return True
            if isinstance(n, (ast.Return, ast.Break, ast.Continue, ast.Global, ast.Nonlocal, ast.Yield, ast.YieldFrom, ast.Await)):
                return True
        return False

    def translatable(self, s: ast.stmt, declared: typing.Set[str]) -> bool:
        probe = self.clone()
        try:
            probe.stmts([s], "", [], set(declared), allow_regions=False)
            return True
        except Untranslatable:
            return False

    def opaque_region(self, body: typing.List[ast.stmt], start: int, declared: typing.Set[str], out: typing.List[str], ind: str) -> int:
        """`body[start]` cannot be translated.  The maximal run of statements from there on that do not touch a reader / writer and
        call no translated function becomes one uninterpreted function of the locals it reads; its only permitted effect on what
        follows is the value of the one local listed for this function in OPAQUE_RESULTS.  Returns the index after the region."""
        results = OPAQUE_RESULTS.get(self.fi.name, {})
        end = start
        while end < len(body) and not self.touches_translated_state(body[end]):
            end += 1
        if end == start:
            raise Untranslatable("statement outside the supported fragment that touches translated state (line %d)" % body[start].lineno)
        region = body[start:end]
        assigned = assigned_names(region)
        for x in ast.walk(ast.Module(body=region, type_ignores=[])):
            if isinstance(x, (ast.For, ast.comprehension)) and isinstance(x.target, ast.Name):
                assigned.add(x.target.id)
            if isinstance(x, ast.ExceptHandler) and x.name:
                assigned.add(x.name)
        if any(v in declared for v in assigned):
            raise Untranslatable("opaque region re-assigns the local %s" % sorted(v for v in assigned if v in declared)[0])
        used_later = {x.id for st in body[end:] for x in ast.walk(st) if isinstance(x, ast.Name)}
        live = sorted(v for v in assigned if v in used_later)
        if len(live) != 1 or live[0] not in results:
            raise Untranslatable("opaque region (lines %d-%d) must define exactly one local listed in OPAQUE_RESULTS, defines %s"
                                 % (region[0].lineno, region[-1].end_lineno, live))
        reads = sorted({x.id for st in region for x in ast.walk(st) if isinstance(x, ast.Name) and x.id in declared and x.id in self.types})
        dyn = []
        for v in reads:
            k = {"schema": "obj", "value": "val", "nat": "nat", "int": "int", "str": "str", "bytes": "bytes", "bool": "bool"}.get(self.types[v])
            if k is None:
                raise Untranslatable("opaque region reads %s of type %s" % (v, self.types[v]))
            dyn.append(".%s %s" % (k, lname(v)))
        text = "\n".join(self.src_lines[region[0].lineno - 1: region[-1].end_lineno])
        key = "%s:%s:%s" % (self.fi.name, live[0], hashlib.sha256(text.encode()).hexdigest()[:16])
        self.flush(out, ind)
        rt = results[live[0]]
        if rt != "bytes":
            raise Untranslatable("opaque result of type %s" % rt)
        kname = "Gen.Codec.opaque_key_%s_%s" % (self.fi.name.lstrip("_"), live[0])
        OPAQUE_KEYS.append("/-- the opaque region of `%s` that defines `%s` (%s lines %d-%d) -/\ndef %s : String := %s\n"
                           % (self.fi.name, live[0], SOURCE, region[0].lineno, region[-1].end_lineno, kname, lean_str(key)))
        out.append("%s-- opaque region: %s lines %d-%d" % (ind, SOURCE, region[0].lineno, region[-1].end_lineno))
        out.append("%slet %s ← Py.opaqueBytes %s [%s]" % (ind, lname(live[0]), kname, ", ".join(dyn)))
        declared.add(live[0])
        self.types[live[0]] = rt
        return end

    # ------------------------------------------------------------------ statements
    def flush(self, out: typing.List[str], ind: str) -> None:
        out.extend(ind + p.replace("§", ind + "    ") for p in self.pre)
        self.pre = []

    def assign_local(self, name: str, v: str, t: str, out: typing.List[str], ind: str, declared: typing.Set[str]) -> None:
        if name == "_":
            return
        ln = lname(name)
        if t == "none":
            raise Untranslatable("assignment of None to %s" % name)
        if name in declared:
            have = self.types.get(name)
            if have != t:
                if have == "int" and t == "nat":
                    v, t = "(Int.ofNat %s)" % v, "int"
                elif have == "value":
                    v, t = self.to_value(v, t), "value"
                else:
                    raise Untranslatable("local %s changes its type (%s, then %s)" % (name, have, t))
            if name not in self.mut:
                raise Untranslatable("re-assignment of %s" % name)
            out.append("%s%s := %s" % (ind, ln, v))
        else:
            if is_obj(t) or name in self.mut:
                out.append("%slet mut %s := %s" % (ind, ln, v))
                self.mut.add(name)
            else:
                out.append("%slet %s := %s" % (ind, ln, v))
            declared.add(name)
            self.types[name] = t

    def ret_stmt(self, v: typing.Optional[typing.Tuple[str, str]], out: typing.List[str], ind: str) -> None:
        fi = self.fi
        parts = []
        if fi.ret == "none":
            if v is not None and v[1] != "none":
                raise Untranslatable("value returned from a function declared -> None")
        else:
            if v is None:
                raise Untranslatable("bare return in a function with a result")
            parts.append(self.coerce(v[0], v[1], fi.ret))
        parts += [lname(p) for p in fi.mutated]
        out.append("%sreturn %s" % (ind, "()" if not parts else parts[0] if len(parts) == 1 else "(" + ", ".join(parts) + ")"))

    def stmts(self, body: typing.List[ast.stmt], ind: str, out: typing.List[str], declared: typing.Set[str],
              allow_regions: bool = True) -> bool:
        """Returns True when control cannot fall through the end of the block."""
        skip_until = 0
        for idx, s in enumerate(body):
            if idx < skip_until:
                continue
            last = idx == len(body) - 1
            if (allow_regions and self.fi.name in OPAQUE_RESULTS and not self.touches_translated_state(s)
                    and not isinstance(s, (ast.Pass, ast.Raise)) and not self.translatable(s, declared)):
                skip_until = self.opaque_region(body, idx, declared, out, ind)
                continue
            if isinstance(s, ast.Break):
                if not self.in_break_loop or not last:
                    raise Untranslatable("break outside the supported loop shape")
                self.flush(out, ind)
                out.append("%sreturn (true, %s)" % (ind, self.loop_state))
                return True
            if isinstance(s, ast.Expr) and isinstance(s.value, ast.Constant) and isinstance(s.value.value, str):
                continue
            if isinstance(s, ast.Pass):
                continue
            if isinstance(s, ast.Return):
                v = self.e(s.value) if s.value is not None else None
                self.flush(out, ind)
                self.ret_stmt(v, out, ind)
                if not last:
                    raise Untranslatable("code after return")
                return True
            if isinstance(s, ast.Raise):
                self.raise_stmt(s, out, ind)
                if not last:
                    raise Untranslatable("code after raise")
                return True
            if isinstance(s, ast.Assert):
                v, t = self.e(s.test)
                if t != "bool":
                    raise Untranslatable("assert on %s" % t)
                if s.msg is not None:
                    raise Untranslatable("assert with message")
                self.flush(out, ind)
                out.append("%sPy.assert %s" % (ind, v))
            elif isinstance(s, (ast.Assign, ast.AnnAssign)):
                tgt = s.targets[0] if isinstance(s, ast.Assign) else s.target
                if isinstance(s, ast.Assign) and len(s.targets) != 1 or s.value is None:
                    raise Untranslatable("assignment shape")
                self.assign(tgt, s.value, out, ind, declared)
            elif isinstance(s, ast.Expr) and isinstance(s.value, ast.Call):
                self.expr_call(s.value, out, ind, declared)
            elif isinstance(s, ast.If):
                if self.if_stmt(s, ind, out, declared):
                    if not last:
                        raise Untranslatable("code after an if statement that never continues")
                    return True
            elif isinstance(s, ast.For):
                self.for_stmt(s, ind, out, declared)
            else:
                raise Untranslatable("statement %s" % type(s).__name__)
        return False

    def raise_stmt(self, s: ast.Raise, out: typing.List[str], ind: str) -> None:
        x = s.exc
        if s.cause is not None or not (isinstance(x, ast.Call) and isinstance(x.func, ast.Name) and x.func.id in ERRORS and not x.keywords
                                        and len(x.args) <= 1):
            raise Untranslatable("raise %s" % (ast.unparse(x) if x is not None else ""))
        if x.args:
            _, t = self.e(x.args[0])  # effects of the message
            if t != "str":
                raise Untranslatable("exception argument of type %s" % t)
        self.flush(out, ind)
        out.append("%sthrow %s" % (ind, ERRORS[x.func.id]))

    def assign(self, tgt: ast.AST, value: ast.AST, out: typing.List[str], ind: str, declared: typing.Set[str]) -> None:
        if isinstance(tgt, ast.Name):
            if isinstance(value, ast.Name) and is_obj(self.types.get(value.id, "")):
                raise Untranslatable("alias of the object %s" % value.id)
            if isinstance(value, ast.Constant) and value.value is None:
                ot = self.opt_types.get(tgt.id)
                if ot is None:
                    raise Untranslatable("local %s initialised with None: the type of its other values could not be determined" % tgt.id)
                self.flush(out, ind)
                self.assign_local(tgt.id, "(none : %s)" % LEAN_TY[ot], ot, out, ind, declared)
                return
            v, t = self.e(value)
            self.flush(out, ind)
            have = self.types.get(tgt.id) if tgt.id in declared else self.opt_types.get(tgt.id)
            if have == "optnat" and t == "nat":
                v, t = "(some %s)" % v, "optnat"
            if have == "optschema" and t == "schema":
                v, t = "(some %s)" % v, "optschema"
            self.assign_local(tgt.id, v, t, out, ind, declared)
            return
        if isinstance(tgt, ast.Subscript) and isinstance(tgt.value, ast.Name) and self.types.get(tgt.value.id) == "dict":
            d = tgt.value.id
            k, tk = self.e(tgt.slice)
            v, tv = self.e(value)
            if tk != "str":
                raise Untranslatable("dict key of type %s" % tk)
            self.flush(out, ind)
            if d not in self.mut:
                raise Untranslatable("item assignment on a local that is not mutable")
            out.append("%s%s := Py.dictSet %s %s %s" % (ind, lname(d), lname(d), k, self.to_value(v, tv)))
            return
        raise Untranslatable("assignment to %s" % ast.unparse(tgt))

    def expr_call(self, c: ast.Call, out: typing.List[str], ind: str, declared: typing.Set[str]) -> None:
        f = c.func
        if (isinstance(f, ast.Attribute) and f.attr == "append" and isinstance(f.value, ast.Name) and len(c.args) == 1 and not c.keywords
                and f.value.id in declared):
            var = f.value.id
            t = self.types[var]
            v, tv = self.e(c.args[0])
            if var not in self.mut:
                raise Untranslatable("append on a local that is not mutable")
            if t == "valuelist":
                self.flush(out, ind)
                out.append("%s%s := %s ++ [%s]" % (ind, lname(var), lname(var), self.to_value(v, tv)))
                return
            if t == "bytes" and tv == "nat":
                nb = self.bind("Py.appendByte %s %s" % (lname(var), v))
                self.flush(out, ind)
                out.append("%s%s := %s" % (ind, lname(var), nb))
                return
            raise Untranslatable("append of %s to %s" % (tv, t))
        v, t = self.e(c)
        self.flush(out, ind)

    def if_stmt(self, s: ast.If, ind: str, out: typing.List[str], declared: typing.Set[str]) -> bool:
        # locals that are first assigned inside the statement and live on afterwards: declared in front
        chain_assigned, chain_stops = branch_assigned([s])
        inside = assigned_names([s])
        later = {x.id for x in ast.walk(self.fi.node) if isinstance(x, ast.Name) and isinstance(x.ctx, ast.Load)
                 and x.lineno > (s.end_lineno or s.lineno)}
        new = sorted(((inside & chain_assigned) - declared - {"_"}) & later)
        if new:
            tys = self.probe_types(s, new, declared)
            for v in new:
                t = tys.get(v)
                if t is None or t not in DUMMY:
                    raise Untranslatable("cannot pre-declare %s" % v)
                self.mut.add(v)
                out.append("%slet mut %s := %s" % (ind, lname(v), DUMMY[t]))
                declared.add(v)
                self.types[v] = t
        c = self.truth(s.test)
        self.flush(out, ind)
        out.append("%sif %s then" % (ind, c))
        sub = self.clone()
        stop_a = sub.stmts(s.body, ind + "  ", out, set(declared))
        self.tmp = sub.tmp
        if not [x for x in s.body if not isinstance(x, ast.Pass)] or out[-1].endswith(" then"):
            out.append("%s  pure ()" % ind)
        stop_b = False
        if s.orelse:
            out.append("%selse" % ind)
            sub = self.clone()
            stop_b = sub.stmts(s.orelse, ind + "  ", out, set(declared))
            self.tmp = sub.tmp
            if out[-1].endswith("else"):
                out.append("%s  pure ()" % ind)
        return stop_a and stop_b

    def probe_types(self, s: ast.If, names: typing.List[str], declared: typing.Set[str]) -> typing.Dict[str, str]:
        """types of the locals first assigned in the branches of `s` (joined: nat / int -> int; anything / value -> value)"""
        found: typing.Dict[str, str] = {}

        def join(v: str, t: str) -> None:
            have = found.get(v)
            if have is None or have == t:
                found[v] = t
            elif {have, t} == {"nat", "int"}:
                found[v] = "int"
            else:
                found[v] = "value"

        def walk(body: typing.List[ast.stmt]) -> None:
            probe = self.clone()
            probe.mut |= set(names)
            for v in names:
                probe.types.pop(v, None)
            try:
                probe.stmts(body, "", [], set(declared))
            except Untranslatable:
                pass
            for v in names:
                if v in probe.types:
                    join(v, probe.types[v])

        cur: typing.Optional[ast.If] = s
        while cur is not None:
            walk(cur.body)
            if len(cur.orelse) == 1 and isinstance(cur.orelse[0], ast.If):
                cur = cur.orelse[0]
            else:
                if cur.orelse:
                    walk(cur.orelse)
                cur = None
        return found

    def for_stmt(self, s: ast.For, ind: str, out: typing.List[str], declared: typing.Set[str]) -> None:
        if s.orelse:
            raise Untranslatable("for ... else")
        if contains(s.body, (ast.Return, ast.Continue)):
            raise Untranslatable("return / continue inside a for loop")
        breaks = contains(s.body, (ast.Break,))
        if breaks and any(isinstance(x, (ast.For, ast.While)) for st in s.body for x in ast.walk(st)):
            raise Untranslatable("break in nested loops")
        it = s.iter
        targets: typing.List[typing.Tuple[str, str]] = []
        if isinstance(it, ast.Call) and isinstance(it.func, ast.Name) and it.func.id == "range" and len(it.args) == 1 and not it.keywords:
            n = self.nat_arg(it.args[0])
            iterable, elem_t = "(Py.range %s)" % n, "nat"
        elif isinstance(it, ast.Call) and isinstance(it.func, ast.Name) and it.func.id == "enumerate" and len(it.args) == 1 and not it.keywords:
            v, t = self.e(it.args[0])
            et = {"schemalist": "schema", "valuelist": "value", "strlist": "str"}.get(t, "")
            if not et:
                raise Untranslatable("enumerate of %s" % t)
            iterable, elem_t = "(Py.enumerate %s)" % v, "pair:" + et
        else:
            v, t = self.e(it)
            if t == "value":
                v, t = self.bind("Py.Value.iter %s" % v), "valuelist"
            elem_t = {"schemalist": "schema", "valuelist": "value", "bytes": "nat", "strlist": "str"}.get(t, "")
            if not elem_t:
                raise Untranslatable("for over %s" % t)
            iterable = v
        if elem_t.startswith("pair:"):
            if not (isinstance(s.target, ast.Tuple) and len(s.target.elts) == 2 and all(isinstance(x, ast.Name) for x in s.target.elts)):
                raise Untranslatable("loop target of enumerate")
            targets = [(s.target.elts[0].id, "nat"), (s.target.elts[1].id, elem_t[5:])]  # type: ignore[attr-defined]
        elif isinstance(s.target, ast.Name):
            targets = [(s.target.id, elem_t)]
        else:
            raise Untranslatable("loop target")
        self.flush(out, ind)
        for tname, _ in targets:
            if tname != "_" and (tname in declared or tname in assigned_names(s.body)):
                raise Untranslatable("loop variable shadows a local or is assigned in the loop")
        carried = sorted(v for v in assigned_names(s.body) if v in declared)
        carried += sorted(v for v in self.appended(s.body) if v in declared and v not in carried)
        objs = sorted(v for v in self.changed_objects(s.body) if v in declared)
        state_vars = [lname(v) for v in carried + objs]
        for v in carried + objs:
            if v not in self.mut:
                raise Untranslatable("loop changes %s, which is not a mutable local" % v)
        state = "()" if not state_vars else state_vars[0] if len(state_vars) == 1 else "(" + ", ".join(state_vars) + ")"
        state_pat = "_" if not state_vars else state
        inner = self.clone()
        inner.in_break_loop = breaks
        inner.loop_state = state
        for tname, tt in targets:
            if tname != "_":
                inner.types[tname] = tt
        body: typing.List[str] = []
        stopped = inner.stmts(s.body, ind + "    ", body, set(declared) | {t for t, _ in targets if t != "_"})
        if stopped:
            raise Untranslatable("loop body never completes")
        self.tmp = inner.tmp
        tpat = lname(targets[0][0]) if len(targets) == 1 else "(" + ", ".join(lname(t) for t, _ in targets) + ")"
        if tpat == "_" or (len(targets) == 1 and targets[0][0] == "_"):
            tpat = "_"
        lhs = "%s ← " % state if state_vars else ""
        out.append("%s%sPy.%s %s %s (fun %s %s => do" % (ind, lhs, "forEachB" if breaks else "forEach", iterable, state, state_pat, tpat))
        for v in state_vars:
            out.append("%s    let mut %s := %s" % (ind, v, v))
        out.extend(body)
        out.append("%s    pure %s)" % (ind, "(false, %s)" % state if breaks else state))

    def appended(self, body: typing.List[ast.stmt]) -> typing.Set[str]:
        out: typing.Set[str] = set()
        for n in ast.walk(ast.Module(body=body, type_ignores=[])):
            if (isinstance(n, ast.Call) and isinstance(n.func, ast.Attribute) and n.func.attr == "append" and isinstance(n.func.value, ast.Name)
                    and self.types.get(n.func.value.id) in ("valuelist", "bytes")):
                out.add(n.func.value.id)
            if (isinstance(n, ast.Assign) and isinstance(n.targets[0], ast.Subscript) and isinstance(n.targets[0].value, ast.Name)
                    and self.types.get(n.targets[0].value.id) == "dict"):
                out.add(n.targets[0].value.id)
        return out

    def changed_objects(self, body: typing.List[ast.stmt]) -> typing.Set[str]:
        """object locals whose state a block may change: receivers of state-changing methods, arguments of functions that change them"""
        out: typing.Set[str] = set()
        for n in ast.walk(ast.Module(body=body, type_ignores=[])):
            if not isinstance(n, ast.Call):
                continue
            f = n.func
            if isinstance(f, ast.Attribute) and isinstance(f.value, ast.Name) and is_obj(self.types.get(f.value.id, "")):
                ci = self.classes[self.types[f.value.id][4:]]
                if f.attr in ci.mutating:
                    out.add(f.value.id)
            if isinstance(f, ast.Name) and f.id in self.fns:
                fi = self.fns[f.id]
                names = [p for p, _ in fi.params]
                for p, a in list(zip(names, n.args)) + [(k.arg, k.value) for k in n.keywords]:
                    if p in fi.mutated and isinstance(a, ast.Name):
                        out.add(a.id)
        return out


def lean_str(s: str) -> str:
    return '"' + s.replace("\\", "\\\\").replace('"', '\\"').replace("\n", "\\n") + '"'


# ------------------------------------------------------------------------------------------------ analysis of the call structure

def called_targets(fn: ast.FunctionDef, names: typing.Iterable[str]) -> typing.Set[str]:
    ns = set(names)
    return {n.func.id for n in ast.walk(fn) if isinstance(n, ast.Call) and isinstance(n.func, ast.Name) and n.func.id in ns}


def sccs(graph: typing.Dict[str, typing.Set[str]]) -> typing.List[typing.List[str]]:
    """Tarjan; components in reverse topological order (callees first)."""
    index: typing.Dict[str, int] = {}
    low: typing.Dict[str, int] = {}
    stack: typing.List[str] = []
    on: typing.Set[str] = set()
    out: typing.List[typing.List[str]] = []
    counter = [0]

    def visit(v: str) -> None:
        index[v] = low[v] = counter[0]
        counter[0] += 1
        stack.append(v)
        on.add(v)
        for w in sorted(graph[v]):
            if w not in index:
                visit(w)
                low[v] = min(low[v], low[w])
            elif w in on:
                low[v] = min(low[v], index[w])
        if low[v] == index[v]:
            comp = []
            while True:
                w = stack.pop()
                on.discard(w)
                comp.append(w)
                if w == v:
                    break
            out.append(comp)

    for v in graph:
        if v not in index:
            visit(v)
    return out


def analyse_mutation(fns: typing.Dict[str, FnInfo], classes: typing.Dict[str, ClassInfo]) -> None:
    changed = True
    while changed:
        changed = False
        for fi in fns.values():
            for p, t in fi.obj_params():
                if p in fi.mutated:
                    continue
                ci = classes.get(t[4:])
                hit = False
                for n in ast.walk(fi.node):
                    if not isinstance(n, ast.Call):
                        continue
                    f = n.func
                    if isinstance(f, ast.Attribute) and isinstance(f.value, ast.Name) and f.value.id == p and ci is not None and f.attr in ci.mutating:
                        hit = True
                    if isinstance(f, ast.Name) and f.id in fns:
                        g = fns[f.id]
                        names = [q for q, _ in g.params]
                        for q, a in list(zip(names, n.args)) + [(k.arg, k.value) for k in n.keywords]:
                            if q in g.mutated and isinstance(a, ast.Name) and a.id == p:
                                hit = True
                if hit:
                    fi.mutated.append(p)
                    fi.mutated.sort(key=lambda q: [x for x, _ in fi.params].index(q))
                    changed = True


OPAQUE_KEYS: typing.List[str] = []
CONST_TABLES: typing.Dict[str, str] = {}   # module-level constant {int: str} mappings (name -> Lean association list)
DYN_TARGETS: typing.List[str] = []         # TARGETS + the private helpers found through the call graph
SENTINEL_OK = [False]
SRC_LINES: typing.List[typing.List[str]] = [[]]


def infer_optional(fn: ast.FunctionDef) -> typing.Dict[str, str]:
    """Locals initialised with `None`: the type of their other values, when every other assignment copies a loop variable of a
    `for i, x in enumerate(<schema>.fields)` / `for x in <schema>.fields` loop (index -> optnat, element -> optschema)."""
    nones = {n.targets[0].id for n in ast.walk(fn) if isinstance(n, ast.Assign) and len(n.targets) == 1 and isinstance(n.targets[0], ast.Name)
             and isinstance(n.value, ast.Constant) and n.value.value is None}
    loopvars: typing.Dict[str, str] = {}
    for n in ast.walk(fn):
        if isinstance(n, ast.For):
            it = n.iter
            enum = isinstance(it, ast.Call) and isinstance(it.func, ast.Name) and it.func.id == "enumerate" and len(it.args) == 1
            src = it.args[0] if enum else it  # type: ignore[union-attr]
            is_fields = isinstance(src, ast.Attribute) and src.attr in ("fields", "fields_except_padding")
            if enum and isinstance(n.target, ast.Tuple) and len(n.target.elts) == 2 and all(isinstance(x, ast.Name) for x in n.target.elts):
                loopvars[n.target.elts[0].id] = "optnat"  # type: ignore[attr-defined]
                if is_fields:
                    loopvars[n.target.elts[1].id] = "optschema"  # type: ignore[attr-defined]
            elif isinstance(n.target, ast.Name) and is_fields:
                loopvars[n.target.id] = "optschema"
    out: typing.Dict[str, str] = {}
    for v in nones:
        tys = set()
        for n in ast.walk(fn):
            if isinstance(n, ast.Assign) and len(n.targets) == 1 and isinstance(n.targets[0], ast.Name) and n.targets[0].id == v:
                if isinstance(n.value, ast.Constant) and n.value.value is None:
                    continue
                tys.add(loopvars.get(n.value.id) if isinstance(n.value, ast.Name) else None)
        if len(tys) == 1 and None not in tys:
            out[v] = tys.pop()  # type: ignore[assignment]
    return out


class Desugar(ast.NodeTransformer):
    """Source-level normalisation (behaviour preserving, applied to every target before it is analysed) so that equivalent
    spellings yield the same Lean term:

      * `x = [E for T in IT]` / `x = {K: V for T in IT}` / `return <such a comprehension>` / `x = bytes(E for T in IT)` whose element
        calls a translated function or a method of a reader / writer object  ->  the accumulate-in-a-loop form
        (`x = []` + `for T in IT: x.append(E)`, `x = {}` + `x[K] = V`, `x = bytearray()` + `x.append(E)`); comprehensions without such
        calls stay expressions (`mapM`);
      * `x = next((E for T in IT if C), D)`  ->  `x = D` + `for T in IT: if C: x = E; break`.

    The loop variables of a comprehension become function-level locals; the translator rejects the function when they clash with
    another local, so the different scoping cannot change the meaning silently."""

    def __init__(self, stateful: typing.Callable[[ast.AST], bool]):
        self.stateful = stateful
        self.n = 0

    def fresh(self) -> str:
        self.n += 1
        return "comp%d" % self.n

    @staticmethod
    def simple_gen(c: ast.AST) -> typing.Optional[ast.comprehension]:
        gens = getattr(c, "generators", None)
        if gens is None or len(gens) != 1 or gens[0].is_async:
            return None
        return gens[0]

    def loop(self, at: ast.AST, g: ast.comprehension, body: typing.List[ast.stmt]) -> ast.For:
        for cond in reversed(g.ifs):
            body = [ast.If(test=cond, body=body, orelse=[])]
        return ast.For(target=g.target, iter=g.iter, body=body, orelse=[], type_comment=None)

    def expand(self, name: str, value: ast.AST, at: ast.stmt) -> typing.Optional[typing.List[ast.stmt]]:
        """statements equivalent to `name = value`, or None when `value` is not one of the forms above"""
        def nm(ctx):
            return ast.Name(id=name, ctx=ctx)
        out: typing.Optional[typing.List[ast.stmt]] = None
        if isinstance(value, ast.ListComp):
            g = self.simple_gen(value)
            if g is not None and not g.ifs and self.stateful(value.elt):
                app = ast.Expr(ast.Call(func=ast.Attribute(value=nm(ast.Load()), attr="append", ctx=ast.Load()), args=[value.elt], keywords=[]))
                out = [ast.Assign(targets=[nm(ast.Store())], value=ast.List(elts=[], ctx=ast.Load())), self.loop(at, g, [app])]
        elif isinstance(value, ast.DictComp):
            g = self.simple_gen(value)
            if g is not None and not g.ifs:
                st = ast.Assign(targets=[ast.Subscript(value=nm(ast.Load()), slice=value.key, ctx=ast.Store())], value=value.value)
                out = [ast.Assign(targets=[nm(ast.Store())], value=ast.Dict(keys=[], values=[])), self.loop(at, g, [st])]
        elif (isinstance(value, ast.Call) and isinstance(value.func, ast.Name) and value.func.id == "bytes" and len(value.args) == 1
              and not value.keywords and isinstance(value.args[0], ast.GeneratorExp)):
            ge = value.args[0]
            g = self.simple_gen(ge)
            if g is not None and not g.ifs and self.stateful(ge.elt):
                app = ast.Expr(ast.Call(func=ast.Attribute(value=nm(ast.Load()), attr="append", ctx=ast.Load()), args=[ge.elt], keywords=[]))
                out = [ast.Assign(targets=[nm(ast.Store())], value=ast.Call(func=ast.Name(id="bytearray", ctx=ast.Load()), args=[], keywords=[])),
                       self.loop(at, g, [app])]
        elif (isinstance(value, ast.Call) and isinstance(value.func, ast.Name) and value.func.id == "next" and len(value.args) == 2
              and not value.keywords and isinstance(value.args[0], ast.GeneratorExp)):
            ge = value.args[0]
            g = self.simple_gen(ge)
            if g is not None:
                hit = [ast.Assign(targets=[nm(ast.Store())], value=ge.elt), ast.Break()]
                out = [ast.Assign(targets=[nm(ast.Store())], value=value.args[1]), self.loop(at, g, hit)]
        if out is None:
            return None
        for st in out:
            ast.copy_location(st, at)
            for sub in ast.walk(st):
                if not hasattr(sub, "lineno"):
                    ast.copy_location(sub, at)
            ast.fix_missing_locations(st)
        return out

    def block(self, body: typing.List[ast.stmt]) -> typing.List[ast.stmt]:
        out: typing.List[ast.stmt] = []
        for st in body:
            st = self.generic_visit(st)
            done = None
            if isinstance(st, ast.Assign) and len(st.targets) == 1 and isinstance(st.targets[0], ast.Name):
                done = self.expand(st.targets[0].id, st.value, st)
            elif isinstance(st, ast.Return) and st.value is not None:
                tmp = self.fresh()
                inner = st.value
                wrap = None
                if isinstance(inner, ast.Call) and ast.unparse(inner.func) == "typing.cast" and len(inner.args) == 2:
                    wrap, inner = inner, inner.args[1]
                done = self.expand(tmp, inner, st)
                if done is not None:
                    ret = ast.Return(value=ast.Name(id=tmp, ctx=ast.Load()))
                    ast.copy_location(ret, st)
                    ast.fix_missing_locations(ret)
                    done.append(ret)
            out.extend(done if done is not None else [st])
        return out

    def generic_visit(self, node):  # type: ignore[override]
        for field in ("body", "orelse", "finalbody"):
            v = getattr(node, field, None)
            if isinstance(v, list) and v and isinstance(v[0], ast.stmt):
                setattr(node, field, self.block(v))
        return node


def desugar_function(fn: ast.FunctionDef, target_names: typing.Set[str]) -> ast.FunctionDef:
    obj_params = {a.arg for a in list(fn.args.args) + list(fn.args.kwonlyargs)
                  if a.annotation is not None and ast.unparse(a.annotation) in ("_BitReader", "_BitWriter")}

    def stateful(e: ast.AST) -> bool:
        """the expression calls a method of a reader / writer, or passes one to a translated function: it cannot be an expression"""
        for n in ast.walk(e):
            if isinstance(n, ast.Call):
                if (isinstance(n.func, ast.Name) and n.func.id in target_names
                        and any(isinstance(a, ast.Name) and a.id in obj_params for a in list(n.args) + [k.value for k in n.keywords])):
                    return True
                if isinstance(n.func, ast.Attribute) and isinstance(n.func.value, ast.Name) and n.func.value.id in obj_params:
                    return True
        return False

    d = Desugar(stateful)
    fn.body = d.block(fn.body)
    return fn


def translate_fn(fns: typing.Dict[str, FnInfo], classes: typing.Dict[str, ClassInfo], fi: FnInfo) -> typing.List[str]:
    tr = FTr(fns, classes, fi)
    for p, t in fi.params:
        tr.types[p] = t
    cnt = count_assignments(fi.node.body)
    tr.mut = {k for k, v in cnt.items() if v > 1}
    declared = {p for p, _ in fi.params}
    tr.sentinel_ok = SENTINEL_OK[0]
    tr.src_lines = SRC_LINES[0]
    tr.opt_types = infer_optional(fi.node)
    reassigned = sorted(p for p in declared if p in cnt)
    for p in reassigned:
        if is_obj(tr.types[p]):
            raise Untranslatable("object parameter re-assigned")
        tr.mut.add(p)
    # dict / list locals that are updated in place are mutable
    for n in ast.walk(fi.node):
        if isinstance(n, ast.Call) and isinstance(n.func, ast.Attribute) and n.func.attr == "append" and isinstance(n.func.value, ast.Name):
            tr.mut.add(n.func.value.id)
        if isinstance(n, ast.Assign) and isinstance(n.targets[0], ast.Subscript) and isinstance(n.targets[0].value, ast.Name):
            tr.mut.add(n.targets[0].value.id)
    ind = "    " if fi.recursive else "  "
    body: typing.List[str] = []
    for p in fi.mutated:
        body.append("%slet mut %s := %s" % (ind, lname(p), lname(p)))
        tr.mut.add(p)
    for p in reassigned:
        body.append("%slet mut %s := %s" % (ind, lname(p), lname(p)))
    stopped = tr.stmts(fi.node.body, ind, body, declared)
    if not stopped:
        if fi.ret != "none":
            raise Untranslatable("control may reach the end of a function with a result")
        tr.ret_stmt(None, body, ind)
    ptypes = [LEAN_TY[t] for _, t in fi.params]
    pnames = [lname(p) for p, _ in fi.params]
    rt = fi.result_type()
    name = lean_fn(fi.name)
    if not fi.recursive:
        binders = " ".join("(%s : %s)" % (n, t) for n, t in zip(pnames, ptypes))
        return ["def %s %s : Py.M %s := do" % (name, binders, paren(rt))] + body
    out = ["def %s_rec : Nat → %s → Py.M %s" % (name, " → ".join(paren(t) for t in ptypes), paren(rt)),
           "  | 0, %s => throw (.other \"RecursionError\")" % ", ".join("_" for _ in ptypes),
           "  | fuel + 1, %s => do" % ", ".join(pnames)]
    return out + body


def wrapper(fi: FnInfo) -> typing.List[str]:
    ptypes = [LEAN_TY[t] for _, t in fi.params]
    pnames = [lname(p) for p, _ in fi.params]
    binders = " ".join("(%s : %s)" % (n, t) for n, t in zip(pnames, ptypes))
    name = lean_fn(fi.name)
    return ["def %s %s : Py.M %s :=" % (name, binders, paren(fi.result_type())),
            "  %s_rec Py.recursionLimit %s" % (name, " ".join(pnames))]


def stub(name: str, fi: typing.Optional[FnInfo], why: str, rec: bool) -> typing.List[str]:
    why = why.replace("\\", "/").replace('"', "'")[:200]
    msg = 'throw (.other "untranslatable: %s")' % why
    if fi is None:
        return ["def %s : Py.M Unit :=" % lean_fn(name), "  " + msg]
    ptypes = [LEAN_TY[t] for _, t in fi.params]
    rt = paren(fi.result_type())
    out = []
    if rec:
        out += ["def %s_rec : Nat → %s → Py.M %s" % (lean_fn(name), " → ".join(paren(t) for t in ptypes), rt),
                "  | _, %s => %s" % (", ".join("_" for _ in ptypes), msg)]
    else:
        binders = " ".join("(_%s : %s)" % (lname(p), t) for (p, _), t in zip(fi.params, ptypes))
        out += ["def %s %s : Py.M %s :=" % (lean_fn(name), binders, rt), "  " + msg]
    return out


def translate_codec(repo: Path) -> typing.Tuple[str, typing.List[str]]:
    out = ["import PyLib.Codec", "import Gen.Serdes",
           "/-! GENERATED by tools/py2lean.py (codec group: the (de)serialization functions of %s) -- do not edit. -/" % SOURCE,
           "set_option linter.unusedVariables false", ""]
    problems: typing.List[str] = []
    del OPAQUE_KEYS[:]
    try:
        src = (repo / SOURCE).read_text()
        tree = ast.parse(src)
    except (OSError, SyntaxError) as ex:
        problems.append("%s: cannot read / parse: %s" % (SOURCE, ex))
        src, tree = "", ast.Module(body=[], type_ignores=[])
    lines = src.splitlines()
    SRC_LINES[0] = lines
    SENTINEL_OK[0] = any(isinstance(n, ast.Assign) and len(n.targets) == 1 and isinstance(n.targets[0], ast.Name)
                         and n.targets[0].id == "_DEFAULT_SENTINEL" and ast.unparse(n.value) == "object()" for n in tree.body) and \
        sum(1 for n in ast.walk(tree) if isinstance(n, ast.Name) and n.id == "_DEFAULT_SENTINEL" and isinstance(n.ctx, ast.Store)) == 1
    cnodes = {n.name: n for n in tree.body if isinstance(n, ast.ClassDef)}
    classes: typing.Dict[str, ClassInfo] = {c: ClassInfo(c, cnodes[c]) for c in CLASSES if c in cnodes}
    for c in CLASSES:
        if c not in classes:
            problems.append("%s: class %s not found" % (SOURCE, c))
    fnodes = {n.name: n for n in tree.body if isinstance(n, ast.FunctionDef)}
    # the error classes must be what their names say
    for ename in SERDES_ERRORS:
        node = cnodes.get(ename)
        if node is None or [ast.unparse(b) for b in node.bases] != ["SerDesError"]:
            problems.append("%s: %s is not a direct subclass of SerDesError" % (SOURCE, ename))
    # private helpers: module-level functions reachable from the targets through the call graph (by call, not by name)
    del DYN_TARGETS[:]
    DYN_TARGETS.extend(TARGETS)
    work = [t for t in TARGETS if t in fnodes]
    while work:
        cur = work.pop()
        for n in ast.walk(fnodes[cur]):
            if (isinstance(n, ast.Call) and isinstance(n.func, ast.Name) and n.func.id in fnodes and n.func.id not in DYN_TARGETS
                    and n.func.id not in EXTERNAL):
                DYN_TARGETS.append(n.func.id)
                work.append(n.func.id)
    # module-level constant tables {int: str}, assigned once and only ever read
    CONST_TABLES.clear()
    for st in tree.body:
        tgt = st.targets[0] if isinstance(st, ast.Assign) and len(st.targets) == 1 else st.target if isinstance(st, ast.AnnAssign) else None
        val = getattr(st, "value", None)
        if (isinstance(tgt, ast.Name) and isinstance(val, ast.Dict) and val.keys
                and all(isinstance(k, ast.Constant) and isinstance(k.value, int) and not isinstance(k.value, bool) and k.value >= 0 for k in val.keys)
                and all(isinstance(v, ast.Constant) and isinstance(v.value, str) for v in val.values)):
            uses = [n for n in ast.walk(tree) if isinstance(n, ast.Name) and n.id == tgt.id]
            stores = [n for n in uses if isinstance(n.ctx, (ast.Store, ast.Del))]
            parents_ok = True
            for n in ast.walk(tree):
                for child in ast.iter_child_nodes(n):
                    if isinstance(child, ast.Name) and child.id == tgt.id and isinstance(child.ctx, ast.Load):
                        if not (isinstance(n, ast.Attribute) and n.attr == "get") and not (isinstance(n, ast.Subscript) and isinstance(n.ctx, ast.Load)):
                            parents_ok = False
            if len(stores) == 1 and parents_ok:
                CONST_TABLES[tgt.id] = "[%s]" % ", ".join("((%d : Nat), %s)" % (k.value, lean_str(v.value)) for k, v in zip(val.keys, val.values))
    fns: typing.Dict[str, FnInfo] = {}
    failed: typing.Dict[str, str] = {}
    for name in DYN_TARGETS:
        node = fnodes.get(name)
        if node is None:
            failed[name] = "not found"
            continue
        try:
            fnodes[name] = node = desugar_function(node, set(DYN_TARGETS))
            fns[name] = FnInfo(node)
        except Untranslatable as ex:
            failed[name] = str(ex)
    for fi in fns.values():
        fi.calls = called_targets(fi.node, DYN_TARGETS)
    graph = {name: {c for c in fi.calls if c in fns} for name, fi in fns.items()}
    comps = sccs(graph)
    for comp in comps:
        rec = len(comp) > 1 or comp[0] in graph[comp[0]]
        for name in comp:
            fns[name].recursive = rec
            fns[name].scc = frozenset(comp)
    analyse_mutation(fns, classes)

    def span(fn: ast.FunctionDef) -> str:
        text = "\n".join(lines[fn.lineno - 1: fn.end_lineno])
        return "lines %d-%d sha256 %s" % (fn.lineno, fn.end_lineno, hashlib.sha256(text.encode()).hexdigest()[:16])

    for name, why in failed.items():
        problems.append("%s %s: %s" % (SOURCE, name, why))
        out += stub(name, None, why, False) + [""]
    for comp in comps:
        comp = sorted(comp, key=lambda n: fns[n].node.lineno)
        rec = fns[comp[0]].recursive
        texts: typing.List[typing.List[str]] = []
        for name in comp:
            fi = fns[name]
            try:
                if any(c in failed for c in fi.calls):
                    raise Untranslatable("calls %s, which could not be analysed" % sorted(c for c in fi.calls if c in failed)[0])
                body = translate_fn(fns, classes, fi)
                texts.append(["/- %s  %s %s -/" % (name, SOURCE, span(fi.node))] + body)
            except Untranslatable as ex:
                problems.append("%s %s: %s" % (SOURCE, name, ex))
                texts.append(stub(name, fi, str(ex), rec))
        if OPAQUE_KEYS:
            out += sorted(set(OPAQUE_KEYS))
            del OPAQUE_KEYS[:]
        if rec:
            out.append("mutual")
            for t in texts:
                out += t
            out += ["end", ""]
            for name in comp:
                out += wrapper(fns[name]) + [""]
        else:
            out += texts[0] + [""]
            if comp[0] not in TARGETS:
                out += ["attribute [codec_helper] %s" % lean_fn(comp[0]), ""]
    return "\n".join(out) + "\n", problems
