"""
Third target group of py2lean: the bit-level writer and reader of pydsdl/_serdes.py (`_BitWriter`, `_BitReader`).
Output: lean/Gen/Serdes.lean.

What is different from the other groups: the targets are *objects with mutable state*.

  * the attributes a class assigns in `__init__` (`self._x: T = e`) become the fields of a generated structure (`Gen.WriterS`,
    `Gen.ReaderS`; field = attribute without the leading underscore, type from the annotation);
  * a method becomes a function of the state: a method that never changes the object returns its result; a method that does
    (assignment / augmented assignment to `self._x`, `self._x[i] op= v`, `self._x[a:b] = v`, `self._x.extend / append`, or a call of
    such a method on `self`) takes the state and returns the new state -- alone when the method returns `None`, as `(result, state)`
    otherwise.  Inside, `self` is a mutable local of the `do` block;
  * a method that calls itself is generated with an explicit fuel argument (`…_rec`), the method proper starts it with
    `Py.recursionLimit`; running out of fuel is an exception (`RecursionError`), never a value;
  * statements are translated in order; a sub-expression that may raise is hoisted into a monadic `let` in front of its statement.
    A statement that contains a state-changing call on `self` must not read `self` anywhere else (evaluation order);
  * `if self._x is not None:` binds the value (`if let some x_v := self.x then`), valid until `self` changes;
  * a local first assigned in both branches of an `if` is declared in front of it (its initial value is never read).

Supported Python -- everything else makes the method a definition that always fails (never guess):
  int literals >= 0, bytes literals, names, self._field, + * (pure) - (checked: Py.sub) // % (pure for a positive literal divisor,
  else Py.floordiv / Py.mod), << >> & |, `x & ~m` (Py.andNot), comparison chains, and / or / not on booleans, `is [not] None`,
  divmod (tuple assignment), len, max(0, a - b) (Py.max0Sub), max / min of two ints, bytes(x), bytearray(), int.from_bytes(x, "little"),
  x.to_bytes(n, "little"), b * n, b + b, b[i], b[a:b], b[:a], b[a:], range loops with loop-carried state, calls of methods of the
  same object, construction of a translated class, `A if isinstance(..) else B` when A and B have the same translation.
"""
from __future__ import annotations

import ast
import hashlib
import typing
from pathlib import Path


class Untranslatable(Exception):
    pass


SOURCE = "pydsdl/_serdes.py"
CLASSES: typing.Dict[str, dict] = {
    "_BitWriter": {"lean": "BitWriter", "state": "WriterS",
                   "methods": ["__init__", "write_bits", "align_to", "finish", "bit_offset"]},
    "_BitReader": {"lean": "BitReader", "state": "ReaderS",
                   "methods": ["__init__", "read_bits", "align_to", "bounded_subreader", "remaining_bits", "bit_offset"]},
}

KEYWORDS = {"end", "at", "from", "by", "do", "then", "fun", "let", "in", "open", "show", "have", "match", "with", "where", "instance",
            "class", "structure", "def", "theorem", "mut", "type"}


def lname(n: str) -> str:
    n = n.lstrip("_") or n
    return n + "'" if n in KEYWORDS else n


def ann_type(a: typing.Optional[ast.AST]) -> str:
    if a is None:
        raise Untranslatable("missing annotation")
    s = ast.unparse(a)
    tbl = {"int": "int", "bool": "bool", "bytes": "bytes", "bytearray": "bytes", "bytes | bytearray | memoryview": "bytes",
           "int | None": "optint", "None": "none"}
    if s in tbl:
        return tbl[s]
    if s in CLASSES:
        return "obj:" + s
    raise Untranslatable("annotation %s" % s)


def lean_ty(t: str) -> str:
    if t.startswith("obj:"):
        return "Gen." + CLASSES[t[4:]]["state"]
    return {"int": "Nat", "bool": "Bool", "bytes": "List Nat", "optint": "Option Nat", "none": "Unit"}[t]


def paren(t: str) -> str:
    return "(" + t + ")" if " " in t and not (t.startswith("(") and t.endswith(")")) else t


# ------------------------------------------------------------------------------------------------ class analysis

class ClassInfo:
    def __init__(self, name: str, node: ast.ClassDef):
        self.name = name
        self.node = node
        self.spec = CLASSES[name]
        self.lean = self.spec["lean"]
        self.state = "Gen." + self.spec["state"]
        self.fns: typing.Dict[str, ast.FunctionDef] = {f.name: f for f in node.body if isinstance(f, ast.FunctionDef)}
        self.fields: typing.Dict[str, typing.Tuple[str, str]] = {}  # python attribute -> (lean field, type)
        self.field_problem: typing.Optional[str] = None
        init = self.fns.get("__init__")
        try:
            if init is None:
                raise Untranslatable("no __init__")
            for s in init.body:
                if isinstance(s, ast.Expr) and isinstance(s.value, ast.Constant):
                    continue
                if (isinstance(s, ast.AnnAssign) and isinstance(s.target, ast.Attribute) and isinstance(s.target.value, ast.Name)
                        and s.target.value.id == "self" and s.value is not None):
                    if s.target.attr in self.fields:
                        raise Untranslatable("attribute %s assigned twice in __init__" % s.target.attr)
                    self.fields[s.target.attr] = (lname(s.target.attr), ann_type(s.annotation))
                else:
                    raise Untranslatable("__init__ statement %s" % type(s).__name__)
        except Untranslatable as ex:
            self.field_problem = str(ex)
        self.mutating: typing.Set[str] = set()
        changed = True
        while changed:
            changed = False
            for m, f in self.fns.items():
                if m in self.mutating or m == "__init__":
                    continue
                if self._mutates(f):
                    self.mutating.add(m)
                    changed = True

    def _mutates(self, f: ast.FunctionDef) -> bool:
        for n in ast.walk(f):
            tgts: typing.List[ast.AST] = []
            if isinstance(n, ast.Assign):
                tgts = list(n.targets)
            elif isinstance(n, (ast.AugAssign, ast.AnnAssign)):
                tgts = [n.target]
            for t in tgts:
                base = t.value if isinstance(t, ast.Subscript) else t
                if is_self_attr(base):
                    return True
            if isinstance(n, ast.Call) and isinstance(n.func, ast.Attribute):
                if is_self_attr(n.func.value) and n.func.attr in ("extend", "append"):
                    return True
                if isinstance(n.func.value, ast.Name) and n.func.value.id == "self" and n.func.attr in self.mutating:
                    return True
        return False

    def is_property(self, m: str) -> bool:
        f = self.fns[m]
        return any(isinstance(d, ast.Name) and d.id == "property" for d in f.decorator_list)

    def recursive(self, m: str) -> bool:
        f = self.fns[m]
        return any(isinstance(n, ast.Attribute) and isinstance(n.value, ast.Name) and n.value.id == "self" and n.attr == m for n in ast.walk(f))

    def signature(self, m: str) -> typing.Tuple[typing.List[typing.Tuple[str, str]], str]:
        f = self.fns[m]
        if f.args.vararg or f.args.kwarg or f.args.kwonlyargs or f.args.posonlyargs or not f.args.args or f.args.args[0].arg != "self":
            raise Untranslatable("parameter list of %s" % m)
        if any(not (isinstance(d, ast.Name) and d.id == "property") for d in f.decorator_list):
            raise Untranslatable("decorator on %s" % m)
        params = [(a.arg, ann_type(a.annotation)) for a in f.args.args[1:]]
        ret = ann_type(f.returns)
        return params, ret

    def lean_name(self, m: str) -> str:
        return "Gen.%s.%s" % (self.lean, "init" if m == "__init__" else m)


def is_self_attr(n: ast.AST) -> bool:
    return isinstance(n, ast.Attribute) and isinstance(n.value, ast.Name) and n.value.id == "self"


def assigned_names(body: typing.List[ast.stmt]) -> typing.Set[str]:
    out: typing.Set[str] = set()
    for n in ast.walk(ast.Module(body=body, type_ignores=[])):
        if isinstance(n, ast.Assign):
            for t in n.targets:
                if isinstance(t, ast.Name):
                    out.add(t.id)
                elif isinstance(t, ast.Tuple):
                    out |= {x.id for x in t.elts if isinstance(x, ast.Name)}
        elif isinstance(n, (ast.AugAssign, ast.AnnAssign)) and isinstance(n.target, ast.Name):
            out.add(n.target.id)
    return out


def definitely_assigned(body: typing.List[ast.stmt]) -> typing.Set[str]:
    out: typing.Set[str] = set()
    for s in body:
        if isinstance(s, ast.Assign) and len(s.targets) == 1 and isinstance(s.targets[0], ast.Name):
            out.add(s.targets[0].id)
        elif isinstance(s, ast.If) and s.orelse:
            out |= definitely_assigned(s.body) & definitely_assigned(s.orelse)
    return out


def count_assignments(body: typing.List[ast.stmt]) -> typing.Dict[str, int]:
    cnt: typing.Dict[str, int] = {}

    def bump(name: str, k: int) -> None:
        cnt[name] = cnt.get(name, 0) + k

    for n in ast.walk(ast.Module(body=body, type_ignores=[])):
        if isinstance(n, ast.Assign):
            for t in n.targets:
                if isinstance(t, ast.Name):
                    bump(t.id, 1)
                elif isinstance(t, ast.Tuple):
                    for x in t.elts:
                        if isinstance(x, ast.Name):
                            bump(x.id, 1)
        elif isinstance(n, ast.AnnAssign) and isinstance(n.target, ast.Name):
            bump(n.target.id, 1)
        elif isinstance(n, ast.AugAssign) and isinstance(n.target, ast.Name):
            bump(n.target.id, 2)
        elif isinstance(n, ast.For):
            for v in assigned_names(n.body):
                bump(v, 2)
    return cnt


def contains(body: typing.List[ast.stmt], kinds) -> bool:
    return any(isinstance(n, kinds) for n in ast.walk(ast.Module(body=body, type_ignores=[])))


# ------------------------------------------------------------------------------------------------ method translation

class MTr:
    """Translates the body of one method of one class."""

    def __init__(self, classes: typing.Dict[str, ClassInfo], ci: ClassInfo, method: str, rec_name: typing.Optional[str]):
        self.classes = classes
        self.ci = ci
        self.method = method
        self.rec_name = rec_name  # name of the fuel-carrying definition when the method calls itself
        self.types: typing.Dict[str, str] = {}
        self.pre: typing.List[str] = []
        self.tmp = 0
        self.narrowed: typing.Dict[str, str] = {}  # python attribute -> bound variable (valid while `self` is unchanged)
        self.mutates = method in ci.mutating
        self.ret = "none"
        self.mut: typing.Set[str] = set()

    def clone(self) -> "MTr":
        c = MTr(self.classes, self.ci, self.method, self.rec_name)
        c.types, c.narrowed, c.tmp, c.ret, c.mut, c.mutates = dict(self.types), dict(self.narrowed), self.tmp, self.ret, set(self.mut), self.mutates
        return c

    def fresh(self) -> str:
        self.tmp += 1
        return "t%d" % self.tmp

    def bind(self, m: str) -> str:
        v = self.fresh()
        self.pre.append("let %s ← %s" % (v, m))
        return v

    def self_changed(self) -> None:
        self.narrowed.clear()

    # ---- expressions: (lean term, type)
    def e(self, n: ast.AST) -> typing.Tuple[str, str]:
        if isinstance(n, ast.Constant):
            if isinstance(n.value, bool):
                return ("true" if n.value else "false"), "bool"
            if isinstance(n.value, int) and n.value >= 0:
                return "(%d : Nat)" % n.value, "int"
            if isinstance(n.value, bytes):
                return "([%s] : List Nat)" % ", ".join(str(b) for b in n.value), "bytes"
            raise Untranslatable("constant %r" % (n.value,))
        if isinstance(n, ast.Name):
            if n.id in self.types:
                return lname(n.id), self.types[n.id]
            raise Untranslatable("unknown name %s" % n.id)
        if isinstance(n, ast.Attribute):
            if is_self_attr(n):
                if n.attr in self.narrowed:
                    return self.narrowed[n.attr], "int"
                if n.attr in self.ci.fields:
                    f, t = self.ci.fields[n.attr]
                    return "self.%s" % f, t
            raise Untranslatable("attribute %s" % ast.unparse(n))
        if isinstance(n, ast.BinOp):
            return self.binop(n)
        if isinstance(n, ast.UnaryOp) and isinstance(n.op, ast.Not):
            a, ta = self.e(n.operand)
            if ta != "bool":
                raise Untranslatable("not on %s" % ta)
            return "(!%s)" % a, "bool"
        if isinstance(n, ast.Compare):
            return self.compare(n)
        if isinstance(n, ast.BoolOp):
            before = len(self.pre)
            vals = [self.e(v) for v in n.values]
            if len(self.pre) != before or any(t != "bool" for _, t in vals):
                raise Untranslatable("short-circuit operator with raising or non-boolean operands")
            return "(" + (" && " if isinstance(n.op, ast.And) else " || ").join(v for v, _ in vals) + ")", "bool"
        if isinstance(n, ast.IfExp):
            t = n.test
            pure_test = (isinstance(t, ast.Call) and isinstance(t.func, ast.Name) and t.func.id == "isinstance" and len(t.args) == 2
                         and isinstance(t.args[0], ast.Name) and t.args[0].id in self.types)
            before = len(self.pre)
            a, ta = self.e(n.body)
            b, tb = self.e(n.orelse)
            if len(self.pre) != before:
                raise Untranslatable("conditional expression with raising operands")
            if pure_test and (a, ta) == (b, tb):
                return a, ta  # both alternatives have the same meaning
            c, tc = self.e(n.test)
            if tc != "bool" or ta != tb or len(self.pre) != before:
                raise Untranslatable("conditional expression")
            return "(if %s then %s else %s)" % (c, a, b), ta
        if isinstance(n, ast.Subscript):
            base, bt = self.e(n.value)
            if bt != "bytes":
                raise Untranslatable("subscript of %s" % bt)
            if isinstance(n.slice, ast.Slice):
                if n.slice.step is not None:
                    raise Untranslatable("slice step")
                lo = self.int_arg(n.slice.lower) if n.slice.lower is not None else None
                hi = self.int_arg(n.slice.upper) if n.slice.upper is not None else None
                if lo is None and hi is None:
                    return base, "bytes"
                if lo is None:
                    return "((%s).take %s)" % (base, hi), "bytes"
                if hi is None:
                    return "((%s).drop %s)" % (base, lo), "bytes"
                return "(Py.slice %s %s %s)" % (base, lo, hi), "bytes"
            i = self.int_arg(n.slice)
            return self.bind("Py.index %s %s" % (base, i)), "int"
        if isinstance(n, ast.Call):
            return self.call(n)
        raise Untranslatable(type(n).__name__)

    def int_arg(self, n: ast.AST) -> str:
        v, t = self.e(n)
        if t != "int":
            raise Untranslatable("%s where an int is needed" % t)
        return v

    def binop(self, n: ast.BinOp) -> typing.Tuple[str, str]:
        # `x & ~m`: clear the bits of m (no negative intermediate value in the meaning)
        if isinstance(n.op, ast.BitAnd) and isinstance(n.right, ast.UnaryOp) and isinstance(n.right.op, ast.Invert):
            a = self.int_arg(n.left)
            m = self.int_arg(n.right.operand)
            return "(Py.andNot %s %s)" % (a, m), "int"
        a, ta = self.e(n.left)
        b, tb = self.e(n.right)
        if ta == "bytes" and tb == "int" and isinstance(n.op, ast.Mult):
            return "(Py.bytesRepeat %s %s)" % (a, b), "bytes"
        if ta == tb == "bytes" and isinstance(n.op, ast.Add):
            return "(%s ++ %s)" % (a, b), "bytes"
        if ta != "int" or tb != "int":
            raise Untranslatable("operator %s on %s, %s" % (type(n.op).__name__, ta, tb))
        pure = {ast.Add: "+", ast.Mult: "*", ast.LShift: "<<<", ast.RShift: ">>>", ast.BitAnd: "&&&", ast.BitOr: "|||"}.get(type(n.op))
        if pure is not None:
            return "(%s %s %s)" % (a, pure, b), "int"
        if isinstance(n.op, ast.Sub):
            return self.bind("Py.sub %s %s" % (a, b)), "int"
        if isinstance(n.op, (ast.FloorDiv, ast.Mod)):
            lit = isinstance(n.right, ast.Constant) and isinstance(n.right.value, int) and not isinstance(n.right.value, bool) and n.right.value > 0
            if lit:  # cannot raise
                return "(%s %s %s)" % (a, "/" if isinstance(n.op, ast.FloorDiv) else "%", b), "int"
            return self.bind("Py.%s %s %s" % ("floordiv" if isinstance(n.op, ast.FloorDiv) else "mod", a, b)), "int"
        raise Untranslatable("operator %s" % type(n.op).__name__)

    def compare(self, n: ast.Compare) -> typing.Tuple[str, str]:
        parts = []
        left, tl = self.e(n.left)
        for op, c in zip(n.ops, n.comparators):
            if isinstance(op, (ast.Is, ast.IsNot)) and isinstance(c, ast.Constant) and c.value is None:
                if tl != "optint":
                    raise Untranslatable("`is None` on %s" % tl)
                parts.append("(%s).isSome" % left if isinstance(op, ast.IsNot) else "(%s).isNone" % left)
                continue
            r, tr = self.e(c)
            if tl != "int" or tr != "int":
                raise Untranslatable("comparison of %s and %s" % (tl, tr))
            sym = {ast.Eq: "==", ast.NotEq: "!=", ast.LtE: "≤", ast.Lt: "<", ast.GtE: "≥", ast.Gt: ">"}.get(type(op))
            if sym is None:
                raise Untranslatable("comparison %s" % type(op).__name__)
            parts.append("(%s %s %s)" % (left, sym, r) if sym in ("==", "!=") else "decide (%s %s %s)" % (left, sym, r))
            left, tl = r, tr
        return ("(" + " && ".join(parts) + ")" if len(parts) > 1 else parts[0]), "bool"

    def call(self, n: ast.Call) -> typing.Tuple[str, str]:
        f = n.func
        fs = ast.unparse(f)
        if n.keywords:
            raise Untranslatable("keyword arguments")
        if isinstance(f, ast.Name):
            if f.id == "len" and len(n.args) == 1:
                a, ta = self.e(n.args[0])
                if ta == "bytes":
                    return "(%s).length" % a, "int"
            if f.id in ("max", "min") and len(n.args) == 2:
                z, s = n.args
                if (f.id == "max" and isinstance(z, ast.Constant) and z.value == 0 and not isinstance(z.value, bool)
                        and isinstance(s, ast.BinOp) and isinstance(s.op, ast.Sub)):
                    a, b = self.int_arg(s.left), self.int_arg(s.right)
                    return "(Py.max0Sub %s %s)" % (a, b), "int"
                a, b = self.int_arg(z), self.int_arg(s)
                return "(%s %s %s)" % (f.id, a, b), "int"
            if f.id == "bytes" and len(n.args) == 1:
                a, ta = self.e(n.args[0])
                if ta == "bytes":
                    return a, "bytes"
            if f.id == "bytearray" and not n.args:
                return "([] : List Nat)", "bytes"
            if f.id in self.classes:
                return self.construct(self.classes[f.id], n.args)
        if fs == "int.from_bytes" and len(n.args) == 2 and isinstance(n.args[1], ast.Constant) and n.args[1].value == "little":
            a, ta = self.e(n.args[0])
            if ta == "bytes":
                return "(Py.fromBytesLittle %s)" % a, "int"
        if isinstance(f, ast.Attribute):
            if f.attr == "to_bytes" and len(n.args) == 2 and isinstance(n.args[1], ast.Constant) and n.args[1].value == "little":
                x = self.int_arg(f.value)
                k = self.int_arg(n.args[0])
                return self.bind("Py.toBytesLittle %s %s" % (x, k)), "bytes"
            if isinstance(f.value, ast.Name) and f.value.id == "self" and f.attr in self.ci.spec["methods"] and f.attr != "__init__":
                return self.self_call(f.attr, n.args)
        raise Untranslatable("call %s" % fs)

    def coerce(self, v: str, t: str, want: str) -> str:
        if t == want:
            return v
        if t == "int" and want == "optint":
            return "(some %s)" % v
        raise Untranslatable("%s passed where %s is expected" % (t, want))

    def construct(self, ci: ClassInfo, args: typing.List[ast.AST]) -> typing.Tuple[str, str]:
        params, _ = ci.signature("__init__")
        init = ci.fns["__init__"]
        defaults = [None] * (len(params) - len(init.args.defaults)) + list(init.args.defaults)
        vals = []
        for i, (p, pt) in enumerate(params):
            if i < len(args):
                v, t = self.e(args[i])
                vals.append(self.coerce(v, t, pt))
            elif defaults[i] is not None:
                vals.append(default_value(defaults[i], pt))
            else:
                raise Untranslatable("missing constructor argument %s" % p)
        if len(args) > len(params):
            raise Untranslatable("too many constructor arguments")
        return self.bind(("%s %s" % (ci.lean_name("__init__"), " ".join(vals))).strip()), "obj:" + ci.name

    def self_call(self, m: str, args: typing.List[ast.AST]) -> typing.Tuple[str, str]:
        ci = self.ci
        params, ret = ci.signature(m)
        if len(args) != len(params):
            raise Untranslatable("arity of self.%s" % m)
        vals = []
        for a, (p, pt) in zip(args, params):
            v, t = self.e(a)
            vals.append(self.coerce(v, t, pt))
        if m == self.method and self.rec_name is not None:
            target = "%s fuel self" % self.rec_name
        else:
            target = "%s self" % ci.lean_name(m)
        callee = (target + " " + " ".join(vals)).strip()
        if m in ci.mutating:
            if ret == "none":
                self.pre.append("self ← %s" % callee)
                self.self_changed()
                return "()", "none"
            v, s = self.fresh(), self.fresh()
            self.pre.append("let (%s, %s) ← %s" % (v, s, callee))
            self.pre.append("self := %s" % s)
            self.self_changed()
            return v, ret
        return self.bind(callee), ret

    # ---- statements
    def flush(self, out: typing.List[str], ind: str) -> None:
        out.extend(ind + p for p in self.pre)
        self.pre = []

    def check_order(self, s: ast.AST, allow_call: bool = True) -> None:
        """A simple statement with a state-changing call on `self` must not read `self` outside that call (evaluation order);
        conditions and iterables must not contain such a call at all."""
        calls = [n for n in ast.walk(s) if isinstance(n, ast.Call) and isinstance(n.func, ast.Attribute) and isinstance(n.func.value, ast.Name)
                 and n.func.value.id == "self" and n.func.attr in self.ci.mutating]
        if not calls:
            return
        if not allow_call:
            raise Untranslatable("state-changing call in a condition")
        if len(calls) > 1:
            raise Untranslatable("several state-changing calls in one statement")
        inside = {id(x) for x in ast.walk(calls[0])}
        for x in ast.walk(s):
            if isinstance(x, ast.Name) and x.id == "self" and id(x) not in inside:
                raise Untranslatable("statement reads self around a state-changing call")

    def set_field(self, attr: str, value: str, out: typing.List[str], ind: str) -> None:
        if not self.mutates:
            raise Untranslatable("assignment to self.%s in a method classified as read-only" % attr)
        f, _ = self.ci.fields[attr]
        out.append("%sself := { self with %s := %s }" % (ind, f, value))
        self.self_changed()

    def assign_local(self, name: str, v: str, t: str, out: typing.List[str], ind: str, declared: typing.Set[str]) -> None:
        ln = lname(name)
        if name in declared:
            if self.types.get(name) != t:
                raise Untranslatable("local %s changes its type" % name)
            if name not in self.mut:
                raise Untranslatable("re-assignment of %s" % name)
            out.append("%s%s := %s" % (ind, ln, v))
        else:
            out.append("%s%s %s := %s" % (ind, "let mut" if name in self.mut else "let", ln, v))
            declared.add(name)
            self.types[name] = t

    def ret_stmt(self, v: typing.Optional[typing.Tuple[str, str]], out: typing.List[str], ind: str) -> None:
        if self.ret == "none":
            if v is not None:
                raise Untranslatable("value returned from a method declared -> None")
            out.append("%sreturn %s" % (ind, "self" if self.mutates else "()"))
            return
        if v is None:
            raise Untranslatable("bare return in a method with a result")
        val, t = v
        if t != self.ret:
            raise Untranslatable("returns %s, declared %s" % (t, self.ret))
        out.append("%sreturn %s" % (ind, "(%s, self)" % val if self.mutates else val))

    def stmts(self, body: typing.List[ast.stmt], ind: str, out: typing.List[str], declared: typing.Set[str]) -> bool:
        """Returns True when control cannot fall through the end of the block."""
        for idx, s in enumerate(body):
            if isinstance(s, ast.Expr) and isinstance(s.value, ast.Constant) and isinstance(s.value.value, str):
                continue
            if isinstance(s, ast.Pass):
                continue
            if isinstance(s, (ast.If, ast.For)):
                self.check_order(s.test if isinstance(s, ast.If) else s.iter, allow_call=False)
            else:
                self.check_order(s)
            if isinstance(s, ast.Return):
                v = self.e(s.value) if s.value is not None else None
                self.flush(out, ind)
                self.ret_stmt(v, out, ind)
                if idx != len(body) - 1:
                    raise Untranslatable("code after return")
                return True
            if isinstance(s, (ast.Assign, ast.AnnAssign)):
                tgt = s.targets[0] if isinstance(s, ast.Assign) else s.target
                if isinstance(s, ast.Assign) and len(s.targets) != 1 or s.value is None:
                    raise Untranslatable("assignment shape")
                self.assign(tgt, s.value, out, ind, declared)
            elif isinstance(s, ast.AugAssign):
                self.augassign(s, out, ind, declared)
            elif isinstance(s, ast.Expr) and isinstance(s.value, ast.Call):
                self.expr_call(s.value, out, ind)
            elif isinstance(s, ast.If):
                if self.if_stmt(s, ind, out, declared) and idx == len(body) - 1:
                    return True
            elif isinstance(s, ast.For):
                self.for_stmt(s, ind, out, declared)
            else:
                raise Untranslatable("statement %s" % type(s).__name__)
        return False

    def assign(self, tgt: ast.AST, value: ast.AST, out: typing.List[str], ind: str, declared: typing.Set[str]) -> None:
        if isinstance(tgt, ast.Tuple):
            if (len(tgt.elts) == 2 and all(isinstance(x, ast.Name) for x in tgt.elts) and isinstance(value, ast.Call)
                    and isinstance(value.func, ast.Name) and value.func.id == "divmod" and len(value.args) == 2 and not value.keywords):
                a, b = self.int_arg(value.args[0]), self.int_arg(value.args[1])
                names = [x.id for x in tgt.elts]  # type: ignore[attr-defined]
                if any(x in declared or x in self.mut for x in names):
                    raise Untranslatable("tuple assignment to an existing or re-assigned local")
                self.flush(out, ind)
                out.append("%slet (%s, %s) ← Py.divmod %s %s" % (ind, lname(names[0]), lname(names[1]), a, b))
                for x in names:
                    declared.add(x)
                    self.types[x] = "int"
                return
            raise Untranslatable("tuple assignment")
        if isinstance(tgt, ast.Name):
            v, t = self.e(value)
            self.flush(out, ind)
            if t in ("none",):
                raise Untranslatable("assignment of None")
            self.assign_local(tgt.id, v, t, out, ind, declared)
            return
        if is_self_attr(tgt) and tgt.attr in self.ci.fields:  # type: ignore[attr-defined]
            v, t = self.e(value)
            self.flush(out, ind)
            ft = self.ci.fields[tgt.attr][1]  # type: ignore[attr-defined]
            self.set_field(tgt.attr, self.coerce(v, t, ft), out, ind)  # type: ignore[attr-defined]
            return
        if isinstance(tgt, ast.Subscript) and is_self_attr(tgt.value) and isinstance(tgt.slice, ast.Slice):
            attr = tgt.value.attr  # type: ignore[attr-defined]
            base, bt = self.e(tgt.value)
            if bt != "bytes" or tgt.slice.step is not None:
                raise Untranslatable("slice assignment shape")
            v, t = self.e(value)
            if t != "bytes":
                raise Untranslatable("slice assignment of %s" % t)
            lo = self.int_arg(tgt.slice.lower) if tgt.slice.lower is not None else "(0 : Nat)"
            hi = self.int_arg(tgt.slice.upper) if tgt.slice.upper is not None else "(%s).length" % base
            self.flush(out, ind)
            self.set_field(attr, "Py.setSlice %s %s %s %s" % (base, lo, hi, v), out, ind)
            return
        raise Untranslatable("assignment to %s" % ast.unparse(tgt))

    def aug_value(self, op: ast.operator, cur: str, tcur: str, value: ast.AST) -> str:
        if tcur == "int":
            if isinstance(op, ast.BitAnd) and isinstance(value, ast.UnaryOp) and isinstance(value.op, ast.Invert):
                return "(Py.andNot %s %s)" % (cur, self.int_arg(value.operand))
            v = self.int_arg(value)
            sym = {ast.Add: "+", ast.BitOr: "|||", ast.BitAnd: "&&&", ast.Mult: "*", ast.LShift: "<<<", ast.RShift: ">>>"}.get(type(op))
            if sym is not None:
                return "(%s %s %s)" % (cur, sym, v)
            if isinstance(op, ast.Sub):
                return self.bind("Py.sub %s %s" % (cur, v))
        if tcur == "bytes" and isinstance(op, ast.Add):
            v, t = self.e(value)
            if t == "bytes":
                return "(%s ++ %s)" % (cur, v)
        raise Untranslatable("augmented assignment %s on %s" % (type(op).__name__, tcur))

    def augassign(self, s: ast.AugAssign, out: typing.List[str], ind: str, declared: typing.Set[str]) -> None:
        tgt = s.target
        if isinstance(tgt, ast.Name):
            if tgt.id not in declared:
                raise Untranslatable("augmented assignment to undeclared %s" % tgt.id)
            nv = self.aug_value(s.op, lname(tgt.id), self.types[tgt.id], s.value)
            self.flush(out, ind)
            self.assign_local(tgt.id, nv, self.types[tgt.id], out, ind, declared)
            return
        if is_self_attr(tgt) and tgt.attr in self.ci.fields:  # type: ignore[attr-defined]
            cur, tcur = self.e(tgt)
            nv = self.aug_value(s.op, cur, tcur, s.value)
            self.flush(out, ind)
            self.set_field(tgt.attr, nv, out, ind)  # type: ignore[attr-defined]
            return
        if isinstance(tgt, ast.Subscript) and is_self_attr(tgt.value) and not isinstance(tgt.slice, ast.Slice):
            attr = tgt.value.attr  # type: ignore[attr-defined]
            base, bt = self.e(tgt.value)
            if bt != "bytes":
                raise Untranslatable("item assignment on %s" % bt)
            i = self.int_arg(tgt.slice)
            cur = self.bind("Py.index %s %s" % (base, i))
            nv = self.aug_value(s.op, cur, "int", s.value)
            stored = self.bind("Py.setByte %s %s %s" % (base, i, nv))
            self.flush(out, ind)
            self.set_field(attr, stored, out, ind)
            return
        raise Untranslatable("augmented assignment to %s" % ast.unparse(tgt))

    def expr_call(self, c: ast.Call, out: typing.List[str], ind: str) -> None:
        f = c.func
        if isinstance(f, ast.Attribute) and is_self_attr(f.value) and f.attr in ("extend", "append") and len(c.args) == 1 and not c.keywords:
            attr = f.value.attr  # type: ignore[attr-defined]
            base, bt = self.e(f.value)
            if bt != "bytes":
                raise Untranslatable("%s on %s" % (f.attr, bt))
            if f.attr == "extend":
                v, t = self.e(c.args[0])
                if t != "bytes":
                    raise Untranslatable("extend with %s" % t)
                self.flush(out, ind)
                self.set_field(attr, "%s ++ %s" % (base, v), out, ind)
            else:
                a = c.args[0]
                if isinstance(a, ast.Constant) and isinstance(a.value, int) and not isinstance(a.value, bool) and 0 <= a.value <= 255:
                    self.flush(out, ind)
                    self.set_field(attr, "%s ++ [(%d : Nat)]" % (base, a.value), out, ind)
                else:
                    v = self.int_arg(a)
                    nb = self.bind("Py.appendByte %s %s" % (base, v))
                    self.flush(out, ind)
                    self.set_field(attr, nb, out, ind)
            return
        if isinstance(f, ast.Attribute) and isinstance(f.value, ast.Name) and f.value.id == "self":
            v, t = self.e(c)
            self.flush(out, ind)
            return
        raise Untranslatable("expression statement %s" % ast.unparse(f))

    def if_stmt(self, s: ast.If, ind: str, out: typing.List[str], declared: typing.Set[str]) -> bool:
        # locals first assigned in both branches are declared in front (their initial value is never read)
        both = (definitely_assigned(s.body) & definitely_assigned(s.orelse)) - declared if s.orelse else set()
        if both:
            probe = self.clone()
            probe.stmts(s.body, ind + "  ", [], set(declared))
            for v in sorted(both):
                t = probe.types.get(v)
                init = {"int": "(0 : Nat)", "bytes": "([] : List Nat)", "bool": "false"}.get(t or "")
                if init is None:
                    raise Untranslatable("cannot pre-declare %s" % v)
                self.mut.add(v)
                out.append("%slet mut %s := %s" % (ind, lname(v), init))
                declared.add(v)
                self.types[v] = t  # type: ignore[assignment]
        t0 = s.test
        narrowing: typing.Optional[typing.Tuple[str, str]] = None
        if (isinstance(t0, ast.Compare) and len(t0.ops) == 1 and isinstance(t0.ops[0], ast.IsNot) and is_self_attr(t0.left)
                and isinstance(t0.comparators[0], ast.Constant) and t0.comparators[0].value is None
                and self.ci.fields.get(t0.left.attr, ("", ""))[1] == "optint"):  # type: ignore[attr-defined]
            attr = t0.left.attr  # type: ignore[attr-defined]
            var = "%s_v" % self.ci.fields[attr][0]
            narrowing = (attr, var)
            self.flush(out, ind)
            out.append("%sif let some %s := self.%s then" % (ind, var, self.ci.fields[attr][0]))
        else:
            c, tc = self.e(s.test)
            if tc == "int":  # truth value of an int
                c = "(%s != (0 : Nat))" % c
            elif tc != "bool":
                raise Untranslatable("condition of type %s" % tc)
            self.flush(out, ind)
            out.append("%sif %s then" % (ind, c))
        saved = dict(self.narrowed)
        if narrowing:
            self.narrowed[narrowing[0]] = narrowing[1]
        stop_a = self.stmts(s.body, ind + "  ", out, set(declared))
        after_a = dict(self.narrowed)
        self.narrowed = dict(saved)
        stop_b = False
        if s.orelse:
            out.append("%selse" % ind)
            stop_b = self.stmts(s.orelse, ind + "  ", out, set(declared))
        # what is still known about `self` afterwards: only what both paths agree on
        after_b = dict(self.narrowed)
        self.narrowed = {k: v for k, v in saved.items() if after_a.get(k) == v and after_b.get(k) == v}
        return stop_a and stop_b

    def for_stmt(self, s: ast.For, ind: str, out: typing.List[str], declared: typing.Set[str]) -> None:
        if s.orelse or not isinstance(s.target, ast.Name):
            raise Untranslatable("for loop shape")
        it = s.iter
        if not (isinstance(it, ast.Call) and isinstance(it.func, ast.Name) and it.func.id == "range" and len(it.args) == 1 and not it.keywords):
            raise Untranslatable("for over %s" % ast.unparse(it))
        n = self.int_arg(it.args[0])
        self.flush(out, ind)
        if contains(s.body, (ast.Return, ast.Break, ast.Continue)):
            raise Untranslatable("return / break / continue inside a for loop")
        carried = sorted(v for v in assigned_names(s.body) if v in declared)
        body_mutates = self.ci._mutates(ast.FunctionDef(name="_", args=None, body=s.body, decorator_list=[], lineno=0))  # type: ignore[arg-type]
        state_vars = (["self"] if body_mutates else []) + [lname(v) for v in carried]
        if not state_vars:
            raise Untranslatable("for loop without loop-carried state")
        if s.target.id in declared or s.target.id in assigned_names(s.body):
            raise Untranslatable("loop variable shadows a local or is assigned in the loop")
        state = state_vars[0] if len(state_vars) == 1 else "(" + ", ".join(state_vars) + ")"
        inner = self.clone()
        inner.types[s.target.id] = "int"
        inner.mut |= set(carried)
        body: typing.List[str] = []
        inner.stmts(s.body, ind + "    ", body, set(declared) | {s.target.id})
        self.tmp = inner.tmp
        out.append("%s%s ← Py.forEach (Py.range %s) %s (fun %s %s => do" % (ind, state, n, state, state, lname(s.target.id)))
        for v in state_vars:
            out.append("%s    let mut %s := %s" % (ind, v, v))
        out.extend(body)
        out.append("%s    pure %s)" % (ind, state))
        if body_mutates:
            self.self_changed()


def default_value(n: ast.AST, t: str) -> str:
    if isinstance(n, ast.Constant):
        if n.value is None and t == "optint":
            return "(none : Option Nat)"
        if isinstance(n.value, int) and not isinstance(n.value, bool) and n.value >= 0:
            return "(%d : Nat)" % n.value if t == "int" else "(some (%d : Nat))" % n.value
    raise Untranslatable("default value %s" % ast.unparse(n))


def translate_init(classes: typing.Dict[str, ClassInfo], ci: ClassInfo) -> typing.List[str]:
    if ci.field_problem:
        raise Untranslatable(ci.field_problem)
    params, ret = ci.signature("__init__")
    if ret != "none":
        raise Untranslatable("__init__ returns %s" % ret)
    tr = MTr(classes, ci, "__init__", None)
    for p, t in params:
        tr.types[p] = t
    body: typing.List[str] = []
    fn = ci.fns["__init__"]
    done: typing.Dict[str, str] = {}
    for s in fn.body:
        if isinstance(s, ast.Expr):
            continue
        assert isinstance(s, ast.AnnAssign) and isinstance(s.target, ast.Attribute)
        attr = s.target.attr
        f, ft = ci.fields[attr]
        v, t = tr.e(s.value)  # reads of self._x in __init__ are not supported (tr.ci.fields lookups produce `self.x`)
        if "self." in v:
            raise Untranslatable("__init__ reads self")
        tr.flush(body, "  ")
        done[f] = tr.coerce(v, t, ft)
    head = "def %s %s : Py.M %s := do" % (ci.lean_name("__init__"), " ".join("(%s : %s)" % (lname(p), lean_ty(t)) for p, t in params), ci.state)
    body.append("  return { %s }" % ", ".join("%s := %s" % (f, v) for f, v in done.items()))
    return [" ".join(head.split())] + body


def translate_method(classes: typing.Dict[str, ClassInfo], ci: ClassInfo, m: str) -> typing.List[str]:
    if ci.field_problem:
        raise Untranslatable(ci.field_problem)
    fn = ci.fns[m]
    params, ret = ci.signature(m)
    if ci.is_property(m) and (params or m in ci.mutating):
        raise Untranslatable("property with parameters or side effects")
    rec = ci.recursive(m)
    name = ci.lean_name(m)
    rec_name = name + "_rec" if rec else None
    tr = MTr(classes, ci, m, rec_name)
    tr.ret = ret
    for p, t in params:
        tr.types[p] = t
    tr.mut = {k for k, v in count_assignments(fn.body).items() if v > 1}
    declared = {p for p, _ in params}
    if any(p in tr.mut for p in declared):
        raise Untranslatable("parameter re-assigned")
    ind = "    " if rec else "  "
    body: typing.List[str] = []
    if tr.mutates:
        body.append(ind + "let mut self := self")
    stopped = tr.stmts(fn.body, ind, body, declared)
    if not stopped:
        if ret != "none":
            raise Untranslatable("control may reach the end of a method with a result")
        tr.ret_stmt(None, body, ind)
    if tr.mutates:
        rt = ci.state if ret == "none" else "(%s × %s)" % (lean_ty(ret), ci.state)
    else:
        rt = lean_ty(ret)
    ptypes = [ci.state] + [lean_ty(t) for _, t in params]
    pnames = ["self"] + [lname(p) for p, _ in params]
    binders = " ".join("(%s : %s)" % (n, t) for n, t in zip(pnames, ptypes))
    if not rec:
        return ["def %s %s : Py.M %s := do" % (name, binders, paren(rt))] + body
    out = ["def %s : Nat → %s → Py.M %s" % (rec_name, " → ".join(paren(t) for t in ptypes), paren(rt)),
           "  | 0, %s => throw (.other \"RecursionError\")" % ", ".join("_" for _ in ptypes),
           "  | fuel + 1, %s => do" % ", ".join(pnames)]
    out += body
    out += ["", "def %s %s : Py.M %s :=" % (name, binders, paren(rt)),
            "  %s Py.recursionLimit %s" % (rec_name, " ".join(pnames))]
    return out


def failing_stub(ci: ClassInfo, m: str, why: str) -> typing.List[str]:
    """The signature is derived as far as possible; a target that cannot be translated always fails."""
    why = why.replace("\\", "/").replace('"', "'")[:200]
    sig = ": Py.M Unit"
    try:
        if m in ci.fns and not ci.field_problem:
            params, ret = ci.signature(m)
            if m == "__init__":
                binders, rt = ["(_%s : %s)" % (lname(p), lean_ty(t)) for p, t in params], ci.state
            else:
                binders = ["(_self : %s)" % ci.state] + ["(_%s : %s)" % (lname(p), lean_ty(t)) for p, t in params]
                if m in ci.mutating:
                    rt = ci.state if ret == "none" else "(%s × %s)" % (lean_ty(ret), ci.state)
                else:
                    rt = lean_ty(ret)
            sig = "%s : Py.M %s" % (" ".join(binders), paren(rt))
    except Untranslatable:
        pass
    return ["def %s %s :=" % (ci.lean_name(m), sig), '  throw (.other "untranslatable: %s")' % why]


def translate_serdes(repo: Path) -> typing.Tuple[str, typing.List[str]]:
    out = ["import PyLib", "/-! GENERATED by tools/py2lean.py (serdes group: _BitWriter / _BitReader of %s) -- do not edit. -/" % SOURCE,
           "set_option linter.unusedVariables false", ""]
    problems: typing.List[str] = []
    try:
        src = (repo / SOURCE).read_text()
        tree = ast.parse(src)
    except (OSError, SyntaxError) as ex:
        problems.append("%s: cannot read / parse: %s" % (SOURCE, ex))
        src, tree = "", ast.Module(body=[], type_ignores=[])
    lines = src.splitlines()
    nodes = {n.name: n for n in tree.body if isinstance(n, ast.ClassDef)}
    classes: typing.Dict[str, ClassInfo] = {}
    for cname in CLASSES:
        if cname in nodes:
            classes[cname] = ClassInfo(cname, nodes[cname])
        else:
            problems.append("%s: class %s not found" % (SOURCE, cname))
    for cname, ci in classes.items():
        out.append("/-- the state of a `%s`: the attributes its `__init__` assigns -/" % cname)
        out.append("structure %s where" % ci.state)
        if ci.field_problem or not ci.fields:
            problems.append("%s %s.__init__: %s" % (SOURCE, cname, ci.field_problem or "no attributes"))
            out.append("  untranslatable : Unit")
        for attr, (f, t) in ci.fields.items():
            out.append("  %s : %s" % (f, lean_ty(t)))
        out.append("  deriving DecidableEq, Repr")
        out.append("")
    for cname, ci in classes.items():
        for m in ci.spec["methods"]:
            fn = ci.fns.get(m)
            try:
                if fn is None:
                    raise Untranslatable("not found")
                text = "\n".join(lines[fn.lineno - 1: fn.end_lineno])
                span = "lines %d-%d sha256 %s" % (fn.lineno, fn.end_lineno, hashlib.sha256(text.encode()).hexdigest()[:16])
                body = translate_init(classes, ci) if m == "__init__" else translate_method(classes, ci, m)
                out.append("/- %s.%s  %s %s -/" % (cname, m, SOURCE, span))
            except Untranslatable as ex:
                problems.append("%s %s.%s: %s" % (SOURCE, cname, m, ex))
                body = failing_stub(ci, m, str(ex))
            out += body + [""]
    return "\n".join(out) + "\n", problems
