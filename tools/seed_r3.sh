#!/bin/sh
# tools/seed_r3.sh <ID> <n> [extra props]: verify + try + store one round-3 seed from /tmp/seed/<ID>-out/<n>; log to /root/seedlogs
ID="$1"; N="$2"; shift 2
mkdir -p /root/seedlogs
NEEDS=$(sed -n '2,8p' /tmp/seed/$ID-out/$N/notes.txt | tr '\n' ' ' | cut -c1-600)
PROPS="$ID"; for p in "$@"; do PROPS="$PROPS,$p"; done
/venv/bin/python /verif/tools/keep_seed.py "$ID" "$N" "$PROPS" "$NEEDS" > /root/seedlogs/$ID-$N.log 2>&1
/venv/bin/python - <<PY
import json
m=json.load(open("/verif/seeded/$ID-$N/meta.json"))
print("$ID-$N", m["verified"], {k:[l for l in v if l.startswith("VIOL")][:1] or v for k,v in m["check_results"].items()})
PY
