"""
Names group of py2lean: the name rules of pydsdl (`pydsdl/_serializable/_name.py`).  Output: lean/Gen/Names.lean.

What is translated, all of it read from the working tree of $VERIF_REPO with `ast` on every run:

  * `check_name` itself, statement by statement, into a TERM of the exception monad `Py.M` with explicit binds (no `do` notation; see
    `FnTr`).  Supported: truthiness of a `str` / list, `not`, `and` / `or` / `x if c else y` (operands that may raise stay under the
    condition Python evaluates them under), `s[i]`, `x in s` / `x not in s` (characters in strings, strings in tables),
    `for c in s`, `for p in <table>`, list comprehensions with conditions (`Py.filterM` when the condition may raise), `any` / `all`
    over generators, `next((x for x in s if c), None)` with `is None` / `is not None`, search loops (`for x in l: if c: return a`),
    `s.lower()`, `isinstance(p, str)` / `isinstance(p, re.Pattern)`, `p == s`, `c == "x"`, `p.match(s)` / `p.fullmatch(s)`,
    `list / tuple / set / frozenset(<table>)`, `len`, integer comparisons, locals (also assigned in branches), `if / elif / else`,
    early `return`, `assert`, `raise E(<message>)` (the message is not translated, only checked to be harmless to build);
    module-level helper functions the target calls (found through the call graph, not by name) become local functions of the
    generated definition;
  * the module-level constants the code refers to are FOLDED INTO THEIR USE SITES, so their names, their number and how they are
    derived from each other do not matter: string constants (literals, `string.ascii_letters / ascii_lowercase / ascii_uppercase /
    digits`, other constants, `+`) - on the right of `in` as the SORTED list of their DISTINCT characters; tables of plain strings and
    `re.compile(<constant string>)` calls without flags (list / tuple / set displays, `+`, `*x`, `list / tuple / set / frozenset(...)`,
    comprehensions over another table that select by `isinstance(x, str)` / `not isinstance(x, str)`) in the order of the source;
    iterating over a set is refused (unspecified order), a module-level name that is rebound or mutated anywhere is not a constant;
  * the SOURCE TEXT of every pattern is parsed here, by `parse_regex`, into the regex AST `Py.Rx` of lean/PyRegex.lean (whose matcher
    is proved correct against the declarative language semantics); a final `$` is recorded as a flag of the entry (`Py.Pat.re r dollar`);
  * `Gen.Names.reserved`: every table entry the function consults, in the order of first use (for `C05.gen_reserved_table`).

Anything outside the supported fragment - in particular every regular-expression feature `parse_regex` does not know (flags,
counted repetition, lazy / possessive quantifiers, back-references, look-around, `\\w \\s \\b`, anchors inside the pattern, ...) - makes
`Gen.Names.check_name` an always-failing stub and is reported as a problem (`py2lean: [Gen.Names] ...`): never guess.
"""
from __future__ import annotations

import ast
import hashlib
import string
import typing
from pathlib import Path

NAME_SOURCE = "pydsdl/_serializable/_name.py"
FUNCTION = "check_name"

KEYWORDS = {"end", "at", "from", "by", "do", "then", "fun", "let", "in", "open", "show", "have", "match", "with", "where", "instance",
            "class", "structure", "def", "theorem", "mut", "type", "if", "else", "for", "return", "pure"}


class Untranslatable(Exception):
    pass


def lname(n: str) -> str:
    n = n.lstrip("_") or n
    return n + "'" if n in KEYWORDS else n


def lean_char(c: str) -> str:
    o = ord(c)
    if 0xD800 <= o <= 0xDFFF:
        raise Untranslatable("lone surrogate U+%04X in a string constant" % o)
    if 32 <= o < 127 and c not in "'\\":
        return "'%s'" % c
    return "(Char.ofNat %d)" % o


def lean_chars(s: str) -> str:
    return "[" + ", ".join(lean_char(c) for c in s) + "]"


def lean_str(s: str) -> str:
    return '"' + s.replace("\\", "\\\\").replace('"', '\\"').replace("\n", " ") + '"'


# ----------------------------------------------------------------------------------------------- regular expressions
# AST of the parser: ("eps",) ("chr", c) ("cls", neg, [(lo, hi)]) ("digit",) ("any",) ("seq", [..]) ("alt", [..]) ("star", x) ("plus", x) ("opt", x)

PUNCT = set(string.punctuation)
SPECIAL = set(".^$*+?{}[]\\|()")


class RegexParser:
    """Recursive-descent parser for the fragment of Python's `re` syntax described in the module docstring (no flags)."""

    def __init__(self, src: str):
        self.s = src
        self.i = 0
        self.depth = 0
        self.dollar = False

    def fail(self, what: str) -> typing.NoReturn:
        raise Untranslatable("regular expression %r: unsupported %s at offset %d" % (self.s, what, self.i))

    def peek(self) -> str:
        return self.s[self.i] if self.i < len(self.s) else ""

    def parse(self):
        if self.peek() == "^":  # `match` / `fullmatch` anchor at the start anyway
            self.i += 1
        r = self.alt()
        if self.i != len(self.s):
            self.fail("character %r" % self.peek())
        if self.dollar and r[0] == "alt":
            # `a|b$` anchors the last branch only
            self.i = len(self.s) - 1
            self.fail("`$` behind a top-level alternation")
        return r, self.dollar

    def alt(self):
        branches = [self.seq()]
        while self.peek() == "|":
            self.i += 1
            branches.append(self.seq())
        return branches[0] if len(branches) == 1 else ("alt", branches)

    def seq(self):
        items = []
        while True:
            c = self.peek()
            if c == "" or c == "|" or (c == ")" and self.depth > 0):
                break
            if c == "$":
                if self.depth == 0 and self.i == len(self.s) - 1:
                    self.dollar = True
                    self.i += 1
                    break
                self.fail("`$` that is not the last character of the pattern")
            a = self.atom()
            q = self.peek()
            if q in ("*", "+", "?"):
                self.i += 1
                if self.peek() in ("?", "+"):
                    self.fail("lazy / possessive quantifier")
                if self.peek() in ("*", "{"):
                    self.fail("repeated quantifier")
                a = ({"*": "star", "+": "plus", "?": "opt"}[q], a)
            elif q == "{":
                self.fail("counted repetition `{`")
            items.append(a)
        if not items:
            return ("eps",)
        return items[0] if len(items) == 1 else ("seq", items)

    def atom(self):
        c = self.peek()
        if c == "(":
            self.i += 1
            if self.peek() == "?":
                if self.s.startswith("?:", self.i):
                    self.i += 2
                else:
                    self.fail("group extension `(?`")
            self.depth += 1
            r = self.alt()
            if self.peek() != ")":
                self.fail("unbalanced parenthesis")
            self.i += 1
            self.depth -= 1
            return r
        if c == "[":
            return self.cls()
        if c == ".":
            self.i += 1
            return ("any",)
        if c == "\\":
            k, v = self.escape()
            return ("digit",) if k == "digit" else ("chr", v)
        if c in ("*", "+", "?", "{", "}", ")", "^", "]"):
            self.fail("character %r" % c)
        self.i += 1
        return ("chr", c)

    def escape(self) -> typing.Tuple[str, str]:
        assert self.peek() == "\\"
        self.i += 1
        c = self.peek()
        if c == "":
            self.fail("trailing backslash")
        self.i += 1
        if c == "d":
            return "digit", ""
        if c in PUNCT:
            return "chr", c
        if c in "ntrfv":
            return "chr", {"n": "\n", "t": "\t", "r": "\r", "f": "\f", "v": "\v"}[c]
        self.i -= 1
        self.fail("escape \\%s" % c)

    def cls(self):
        assert self.peek() == "["
        self.i += 1
        neg = False
        if self.peek() == "^":
            neg = True
            self.i += 1
        ranges: typing.List[typing.Tuple[str, str]] = []
        first = True
        while True:
            c = self.peek()
            if c == "":
                self.fail("unterminated character class")
            if c == "]":
                if first:
                    self.fail("`]` as the first member of a character class")
                self.i += 1
                break
            first = False
            if c == "[":
                self.fail("`[` inside a character class")
            if c == "\\":
                k, v = self.escape()
                if k == "digit":
                    ranges.append(("0", "9"))
                    continue
                lo = v
            else:
                self.i += 1
                lo = c
            if self.peek() == "-" and self.i + 1 < len(self.s) and self.s[self.i + 1] != "]":
                self.i += 1
                h = self.peek()
                if h == "\\":
                    k, v = self.escape()
                    if k == "digit":
                        self.fail("class escape as the end of a range")
                    hi = v
                elif h == "[":
                    self.fail("`[` inside a character class")
                else:
                    self.i += 1
                    hi = h
                if ord(hi) < ord(lo):
                    self.fail("reversed range")
                ranges.append((lo, hi))
            else:
                ranges.append((lo, lo))
        return ("cls", neg, ranges)


def parse_regex(src: str):
    return RegexParser(src).parse()


def rx_lean(r) -> str:
    k = r[0]
    if k == "eps":
        return ".eps"
    if k == "chr":
        return "(.chr %s)" % lean_char(r[1])
    if k == "digit":
        return ".digit"
    if k == "any":
        return ".any"
    if k == "cls":
        return "(.cls %s [%s])" % ("true" if r[1] else "false", ", ".join("(%s, %s)" % (lean_char(a), lean_char(b)) for a, b in r[2]))
    if k in ("star", "plus", "opt"):
        return "(.%s %s)" % (k, rx_lean(r[1]))
    if k in ("seq", "alt"):  # right-nested
        items = r[1]
        out = rx_lean(items[-1])
        for x in reversed(items[:-1]):
            out = "(.%s %s %s)" % (k, rx_lean(x), out)
        return out
    raise AssertionError(k)


# ----------------------------------------------------------------------------------------------- module-level constants

STRING_MODULE = {"ascii_letters": string.ascii_letters, "ascii_lowercase": string.ascii_lowercase,
                 "ascii_uppercase": string.ascii_uppercase, "digits": string.digits}

MUTATORS = {"append", "extend", "insert", "remove", "pop", "clear", "sort", "reverse", "add", "discard", "update",
            "difference_update", "intersection_update", "symmetric_difference_update", "setdefault", "popitem"}


class Table:
    """A module-level collection of plain strings and compiled patterns, evaluated at translation time.
    entries: ("str", text) | ("re", source text); ordered = False for a set / frozenset (iteration order unspecified)."""

    def __init__(self, entries: typing.List[typing.Tuple[str, str]], ordered: bool):
        self.entries = entries
        self.ordered = ordered

    def lean(self, ind: str) -> str:
        items = []
        for k, v in self.entries:
            if k == "str":
                items.append(".str %s" % lean_chars(v))
            else:
                r, dollar = parse_regex(v)
                items.append(".re %s %s" % (rx_lean(r), "true" if dollar else "false"))
        if not items:
            return "([] : List Py.Pat)"
        return "([\n%s  %s] : List Py.Pat)" % (ind, (",\n%s  " % ind).join(items))


class Module:
    def __init__(self, tree: ast.Module):
        self.tree = tree
        self.consts: typing.Dict[str, ast.AST] = {}
        self.funcs: typing.Dict[str, ast.FunctionDef] = {}
        self.imports: typing.Set[str] = set()
        counts: typing.Dict[str, int] = {}
        for n in tree.body:
            if isinstance(n, ast.Import):
                for a in n.names:
                    if a.asname is None:
                        self.imports.add(a.name)
            tgt = None
            if isinstance(n, ast.Assign) and len(n.targets) == 1 and isinstance(n.targets[0], ast.Name):
                tgt, val = n.targets[0].id, n.value
            elif isinstance(n, ast.AnnAssign) and isinstance(n.target, ast.Name) and n.value is not None:
                tgt, val = n.target.id, n.value
            if tgt is not None:
                counts[tgt] = counts.get(tgt, 0) + 1
                self.consts[tgt] = val
            if isinstance(n, ast.FunctionDef):
                counts[n.name] = counts.get(n.name, 0) + 1
                self.funcs[n.name] = n
        # anything that (re)binds or mutates a module-level name elsewhere makes it not a constant
        rebound: typing.Set[str] = {k for k, v in counts.items() if v > 1}
        for n in ast.walk(tree):
            if isinstance(n, ast.Global):
                rebound |= set(n.names)
            if isinstance(n, ast.AugAssign) and isinstance(n.target, ast.Name) and n in tree.body:
                rebound.add(n.target.id)
            if isinstance(n, ast.Call) and isinstance(n.func, ast.Attribute) and isinstance(n.func.value, ast.Name) \
                    and n.func.attr in MUTATORS:
                rebound.add(n.func.value.id)
            if isinstance(n, (ast.Subscript, ast.Attribute)) and isinstance(n.ctx, (ast.Store, ast.Del)) and isinstance(n.value, ast.Name):
                rebound.add(n.value.id)
        for n in tree.body:
            if isinstance(n, ast.ClassDef) and (n.name in self.consts or n.name in self.funcs):
                rebound.add(n.name)
        for k in rebound:
            self.consts.pop(k, None)
            self.funcs.pop(k, None)
        if any(k in counts or k in rebound for k in ("re", "string")):
            self.imports -= {"re", "string"}

    def const_str(self, n: ast.AST, seen: typing.Tuple[str, ...] = ()) -> str:
        if isinstance(n, ast.Constant) and isinstance(n.value, str):
            return n.value
        if isinstance(n, ast.Attribute) and isinstance(n.value, ast.Name) and n.value.id == "string" and "string" in self.imports \
                and n.attr in STRING_MODULE:
            return STRING_MODULE[n.attr]
        if isinstance(n, ast.Name) and n.id in self.consts and n.id not in seen:
            return self.const_str(self.consts[n.id], seen + (n.id,))
        if isinstance(n, ast.BinOp) and isinstance(n.op, ast.Add):
            return self.const_str(n.left, seen) + self.const_str(n.right, seen)
        raise Untranslatable("not a constant string: %s" % ast.unparse(n))

    def is_str(self, n: ast.AST) -> bool:
        try:
            self.const_str(n)
            return True
        except Untranslatable:
            return False

    def table(self, n: ast.AST, seen: typing.Tuple[str, ...] = ()) -> Table:
        """A constant collection of strings and compiled patterns: displays, `+`, `*x`, `list / tuple / set / frozenset(<collection>)`,
        and comprehensions over such a collection that select by `isinstance(x, str)` / `not isinstance(x, str)`."""
        if isinstance(n, (ast.List, ast.Tuple, ast.Set)):
            out: typing.List[typing.Tuple[str, str]] = []
            for e in n.elts:
                if isinstance(e, ast.Starred):
                    sub = self.table(e.value, seen)
                    if not sub.ordered and not isinstance(n, ast.Set):
                        raise Untranslatable("iteration order of a set: %s" % ast.unparse(e))
                    out += sub.entries
                elif self.is_str(e):
                    out.append(("str", self.const_str(e)))
                elif (isinstance(e, ast.Call) and isinstance(e.func, ast.Attribute) and e.func.attr == "compile"
                      and isinstance(e.func.value, ast.Name) and e.func.value.id == "re" and "re" in self.imports):
                    if len(e.args) != 1 or e.keywords:
                        raise Untranslatable("re.compile with flags: %s" % ast.unparse(e))
                    src = self.const_str(e.args[0])
                    parse_regex(src)  # refuse unsupported syntax here
                    out.append(("re", src))
                else:
                    raise Untranslatable("table element %s" % ast.unparse(e))
            return Table(out, not isinstance(n, ast.Set))
        if isinstance(n, ast.BinOp) and isinstance(n.op, ast.Add):
            a, b = self.table(n.left, seen), self.table(n.right, seen)
            if not (a.ordered and b.ordered):
                raise Untranslatable("`+` of sets")
            return Table(a.entries + b.entries, True)
        if isinstance(n, ast.Name) and n.id in self.consts and n.id not in seen:
            return self.table(self.consts[n.id], seen + (n.id,))
        if isinstance(n, ast.Call) and isinstance(n.func, ast.Name) and n.func.id in ("list", "tuple", "set", "frozenset") \
                and not n.keywords and len(n.args) <= 1 and n.func.id not in self.consts and n.func.id not in self.funcs:
            to_set = n.func.id in ("set", "frozenset")
            if not n.args:
                return Table([], not to_set)
            sub = self.table(n.args[0], seen)
            if not sub.ordered and not to_set:
                raise Untranslatable("iteration order of a set: %s" % ast.unparse(n))
            return Table(sub.entries, not to_set)
        if isinstance(n, (ast.ListComp, ast.SetComp, ast.GeneratorExp)):
            if len(n.generators) != 1 or n.generators[0].is_async or not isinstance(n.generators[0].target, ast.Name):
                raise Untranslatable("comprehension %s" % ast.unparse(n)[:80])
            g = n.generators[0]
            v = g.target.id
            if not (isinstance(n.elt, ast.Name) and n.elt.id == v):
                raise Untranslatable("comprehension that transforms its elements: %s" % ast.unparse(n)[:80])
            sub = self.table(g.iter, seen)
            entries = sub.entries
            for c in g.ifs:
                neg = False
                while isinstance(c, ast.UnaryOp) and isinstance(c.op, ast.Not):
                    neg, c = not neg, c.operand
                if not (isinstance(c, ast.Call) and isinstance(c.func, ast.Name) and c.func.id == "isinstance" and len(c.args) == 2
                        and not c.keywords and isinstance(c.args[0], ast.Name) and c.args[0].id == v
                        and isinstance(c.args[1], ast.Name) and c.args[1].id == "str" and "isinstance" not in self.consts
                        and "str" not in self.consts):
                    raise Untranslatable("comprehension condition %s" % ast.unparse(c))
                entries = [x for x in entries if (x[0] == "str") != neg]
            # a generator / list comprehension keeps the order of its source; a set comprehension has none
            return Table(entries, sub.ordered and not isinstance(n, ast.SetComp))
        raise Untranslatable("not a table of names and patterns: %s" % ast.unparse(n)[:80])

    def kind(self, name: str) -> str:
        node = self.consts[name]
        if self.is_str(node):
            return "str"
        self.table(node)
        return "table"


# ----------------------------------------------------------------------------------------------- the function

# Types of the fragment: "str", "char", "chars" (a list of characters), "pat", "table" (a list of strings / patterns), "set" (an
# unordered table: membership only), "bool", "int", "optchar" / "optpat" (`next(..., None)`), "none" (a helper without result).

ELEM = {"str": "char", "chars": "char", "table": "pat"}
LEAN_TY = {"str": "Py.Str", "char": "Char", "chars": "List Char", "pat": "Py.Pat", "table": "List Py.Pat", "set": "List Py.Pat",
           "bool": "Bool", "int": "Nat", "optchar": "Option Char", "optpat": "Option Py.Pat", "none": "Unit"}


class FnTr:
    """Translation of a function into a TERM of `Py.M`, with explicit binds (`m >>= fun x => …`) - no `do` notation, so that the
    elaborator introduces no join points and the bridge can compute the weakest precondition by plain rewriting.

    Expressions are pure Lean terms; a sub-expression that may raise (`s[i]`, `s.lower()`, `p.match(s)`, a helper call) is hoisted into
    a bind directly in front of its statement, which is exact because the fragment has no other effects.  Where Python evaluates an
    operand only conditionally (`and`, `or`, `x if c else y`, the condition of a comprehension, `any` / `all`) the operand's binds stay
    inside a monadic sub-term that is only run under the same condition (`if a then <b> else pure false`, `Py.filterM`, `Py.anyM`).

    Module constants are folded into the use site: a string on the right of `in` as the SORTED list of its distinct characters
    (membership does not depend on order or repetition), a table as the list of its entries in the order of the source.
    Message arguments of `raise` are not translated; they are checked to consist of constants, names, `%` / `+`, tuples, `x[0]`,
    `x.pattern`, `str / repr / len`, so that building the message cannot itself raise something else on the paths it is reached on.
    Helper functions of the module (called by name) become local functions of the generated definition."""

    def __init__(self, mod: Module, outer: typing.Optional["FnTr"] = None):
        self.mod = mod
        self.root: "FnTr" = outer.root if outer else self
        self.types: typing.Dict[str, str] = {}
        self.pre: typing.List[typing.Tuple[str, str]] = []
        self.loop = 0
        self.ret: typing.Optional[str] = None  # result type of the function being translated (None = not yet known)
        if outer is None:
            self.tmp = 0
            self.helpers: typing.Dict[str, typing.Tuple[str, typing.List[str], str]] = {}  # name -> (lean name, arg types, ret type)
            self.helper_defs: typing.List[str] = []
            self.in_progress: typing.List[str] = []
            self.tables_used: typing.List[typing.Tuple[str, str]] = []

    # --- helpers
    def fresh(self) -> str:
        self.root.tmp += 1
        return "t%d" % self.root.tmp

    def bind(self, m: str) -> str:
        v = self.fresh()
        self.pre.append((v, m))
        return v

    @staticmethod
    def local(name: str) -> str:
        return "v_" + name

    def isolated(self, fn):
        saved, self.pre = self.pre, []
        try:
            r = fn()
            p = self.pre
        finally:
            self.pre = saved
        return p, r

    @staticmethod
    def mterm(pre: typing.List[typing.Tuple[str, str]], body: str) -> str:
        return "(" + "".join("%s >>= fun %s => " % (m, v) for v, m in pre) + body + ")"

    def use_table(self, t: Table) -> None:
        for e in t.entries:
            if e not in self.root.tables_used:
                self.root.tables_used.append(e)

    def shadowed(self, name: str) -> bool:
        return name in self.types or name in self.mod.consts or name in self.mod.funcs

    # --- expressions: returns (type, lean term)
    def e(self, n: ast.AST) -> typing.Tuple[str, str]:
        if isinstance(n, ast.Constant):
            if isinstance(n.value, bool):
                return "bool", "true" if n.value else "false"
            if isinstance(n.value, int) and n.value >= 0:
                return "int", "(%d : Nat)" % n.value
            if isinstance(n.value, str):
                return "str", "(%s : Py.Str)" % lean_chars(n.value)
            raise Untranslatable("constant %r" % (n.value,))
        if isinstance(n, ast.Name):
            if n.id in self.types:
                return self.types[n.id], self.local(n.id)
            if n.id in self.mod.consts:
                if self.mod.kind(n.id) == "str":
                    return "str", "(%s : Py.Str)" % lean_chars(self.mod.const_str(self.mod.consts[n.id]))
                t = self.mod.table(self.mod.consts[n.id])
                self.use_table(t)
                return ("table" if t.ordered else "set"), t.lean("    ")
            raise Untranslatable("name %s" % n.id)
        if isinstance(n, ast.UnaryOp) and isinstance(n.op, ast.Not):
            t, v = self.e(n.operand)
            if t in ("str", "chars", "table", "set"):
                return "bool", "(%s).isEmpty" % v
            if t == "int":
                return "bool", "(%s == 0)" % v
            if t == "bool":
                return "bool", "(!%s)" % v
            raise Untranslatable("truth value of a %s" % t)
        if isinstance(n, ast.BoolOp):
            return "bool", self.boolop(n)
        if isinstance(n, ast.IfExp):
            c = self.truth(n.test)
            (pa, (ta, va)), (pb, (tb, vb)) = self.isolated(lambda: self.e(n.body)), self.isolated(lambda: self.e(n.orelse))
            if ta != tb:
                raise Untranslatable("conditional expression of a %s and a %s" % (ta, tb))
            if not pa and not pb:
                return ta, "(if %s then %s else %s)" % (c, va, vb)
            return ta, self.bind("(if %s then %s else %s)" % (c, self.mterm(pa, "pure " + va), self.mterm(pb, "pure " + vb)))
        if isinstance(n, ast.Compare) and len(n.ops) == 1:
            return "bool", self.compare(n.left, n.ops[0], n.comparators[0])
        if isinstance(n, ast.Subscript):
            t, v = self.e(n.value)
            if t in ("str", "chars", "table") and isinstance(n.slice, ast.Constant) and isinstance(n.slice.value, int) \
                    and not isinstance(n.slice.value, bool) and n.slice.value >= 0:
                fn = "Py.strIndex" if t != "table" else "Py.index"
                return ELEM[t], self.bind("%s %s %d" % (fn, v, n.slice.value))
            raise Untranslatable("subscript %s" % ast.unparse(n))
        if isinstance(n, (ast.ListComp, ast.GeneratorExp)):
            # (a generator expression is only reached as the sole argument of list / tuple / set / frozenset, which consume it entirely)
            return self.comprehension(n)
        if isinstance(n, ast.Call):
            return self.call(n)
        raise Untranslatable("expression %s" % type(n).__name__)

    def truth(self, n: ast.AST) -> str:
        t, v = self.e(n)
        if t == "bool":
            return v
        if t in ("str", "chars", "table", "set"):
            return "(!(%s).isEmpty)" % v
        if t == "int":
            return "(%s != 0)" % v
        if t in ("optchar", "optpat"):
            raise Untranslatable("truth value of an optional (the element itself may be falsy)")
        raise Untranslatable("truth value of a %s" % t)

    def boolop(self, n: ast.BoolOp) -> str:
        parts = [self.isolated(lambda v=v: self.truth(v)) for v in n.values]
        is_and = isinstance(n.op, ast.And)
        if all(not p for p, _ in parts):
            return "(" + (" && " if is_and else " || ").join(t for _, t in parts) + ")"
        # the first operand is always evaluated; every later one only when the ones before it did not decide
        acc: typing.Optional[str] = None
        for p, t in reversed(parts[1:]):
            if acc is None:
                cur = "pure %s" % t
            elif is_and:
                cur = "(if %s then %s else pure false)" % (t, acc)
            else:
                cur = "(if %s then pure true else %s)" % (t, acc)
            acc = self.mterm(p, cur)
        p0, t0 = parts[0]
        self.pre += p0
        assert acc is not None
        return self.bind("(if %s then %s else pure false)" % (t0, acc) if is_and else "(if %s then pure true else %s)" % (t0, acc))

    def compare(self, l: ast.AST, op: ast.cmpop, r: ast.AST) -> str:
        if isinstance(op, (ast.Is, ast.IsNot)):
            if isinstance(l, ast.Constant) and l.value is None:
                l, r = r, l
            if isinstance(r, ast.Constant) and r.value is None:
                lt, lv = self.e(l)
                if lt in ("optchar", "optpat"):
                    return "(%s).isNone" % lv if isinstance(op, ast.Is) else "(%s).isSome" % lv
                if lt in ("str", "char", "chars", "pat", "table", "set", "bool", "int"):
                    return "false" if isinstance(op, ast.Is) else "true"
            raise Untranslatable("`is` other than a comparison with None")
        lt, lv = self.e(l)
        if isinstance(op, (ast.In, ast.NotIn)) and lt == "char" and isinstance(r, ast.Name) and r.id not in self.types \
                and r.id in self.mod.consts and self.mod.kind(r.id) == "str":
            # membership in a constant string: canonical form of the character set
            chars = "".join(sorted(set(self.mod.const_str(self.mod.consts[r.id]))))
            c = "(Py.charIn %s %s)" % (lv, lean_chars(chars))
            return c if isinstance(op, ast.In) else "(!%s)" % c
        rt, rv = self.e(r)
        if isinstance(op, (ast.In, ast.NotIn)):
            if lt == "char" and rt in ("str", "chars"):
                c = "(Py.charIn %s %s)" % (lv, rv)
            elif lt == "str" and rt in ("table", "set"):
                c = "(Py.strInTable %s %s)" % (lv, rv)
            else:
                raise Untranslatable("`in` between %s and %s" % (lt, rt))
            return c if isinstance(op, ast.In) else "(!%s)" % c
        if isinstance(op, (ast.Eq, ast.NotEq)):
            if {lt, rt} == {"char", "str"}:
                # a character is a string of length one: equality with a constant string
                cn, cv = (r, lv) if lt == "char" else (l, rv)
                if not (isinstance(cn, ast.Constant) and isinstance(cn.value, str)):
                    raise Untranslatable("`==` between a character and a non-constant string")
                c = "(%s == %s)" % (cv, lean_char(cn.value)) if len(cn.value) == 1 else "false"
            elif {lt, rt} == {"pat", "str"}:
                c = "(Py.Pat.eqStr %s %s)" % ((lv, rv) if lt == "pat" else (rv, lv))
            elif lt == rt and lt in ("str", "int", "bool", "char"):
                c = "(%s == %s)" % (lv, rv)
            else:
                raise Untranslatable("`==` between %s and %s" % (lt, rt))
            return c if isinstance(op, ast.Eq) else "(!%s)" % c
        sym = {ast.LtE: "≤", ast.Lt: "<", ast.GtE: "≥", ast.Gt: ">"}.get(type(op))
        if sym and lt == rt == "int":
            return "(decide (%s %s %s))" % (lv, sym, rv)
        raise Untranslatable("comparison %s between %s and %s" % (type(op).__name__, lt, rt))

    def generator(self, n) -> typing.Tuple[str, str, str, typing.List[ast.expr]]:
        """(type of the iterable, its term, loop variable, conditions) of a comprehension with one `for`."""
        if len(n.generators) != 1 or n.generators[0].is_async or not isinstance(n.generators[0].target, ast.Name):
            raise Untranslatable("comprehension %s" % ast.unparse(n)[:80])
        g = n.generators[0]
        t, it = self.e(g.iter)
        if t not in ELEM:
            raise Untranslatable("comprehension over a %s" % t)
        if self.shadowed(g.target.id):
            raise Untranslatable("comprehension variable %s hides another name" % g.target.id)
        return t, it, g.target.id, g.ifs

    def under(self, var: str, ty: str, fn):
        """Translate with the comprehension / loop variable in scope; returns (binds needed inside, result)."""
        self.types[var] = ty
        try:
            return self.isolated(fn)
        finally:
            del self.types[var]

    def conj(self, conds: typing.List[ast.expr]) -> str:
        ts = [self.truth(c) for c in conds]
        return "(" + " && ".join(ts) + ")" if len(ts) > 1 else ts[0]

    def filtered(self, t: str, it: str, var: str, ifs: typing.List[ast.expr]) -> typing.Tuple[str, str]:
        """The elements of `it` that pass `ifs`, in order (a list)."""
        rt = "chars" if ELEM[t] == "char" else "table"
        if not ifs:
            return rt, it
        if len(ifs) > 1:
            n = ast.BoolOp(op=ast.And(), values=list(ifs))
            p, c = self.under(var, ELEM[t], lambda: self.truth(n))
        else:
            p, c = self.under(var, ELEM[t], lambda: self.truth(ifs[0]))
        if not p:
            return rt, "((%s).filter (fun %s => %s))" % (it, self.local(var), c)
        return rt, self.bind("Py.filterM %s (fun %s => %s)" % (it, self.local(var), self.mterm(p, "pure " + c)))

    def comprehension(self, n) -> typing.Tuple[str, str]:
        t, it, var, ifs = self.generator(n)
        if not (isinstance(n.elt, ast.Name) and n.elt.id == var):
            raise Untranslatable("comprehension that transforms its elements: %s" % ast.unparse(n)[:80])
        return self.filtered(t, it, var, ifs)

    def call(self, n: ast.Call) -> typing.Tuple[str, str]:
        f = n.func
        if n.keywords:
            raise Untranslatable("keyword arguments")
        if isinstance(f, ast.Name) and f.id in self.mod.funcs and f.id not in self.types:
            return self.helper_call(f.id, n.args)
        if isinstance(f, ast.Name) and not self.shadowed(f.id):
            if f.id == "isinstance" and len(n.args) == 2:
                cls = n.args[1]
                t, v = self.e(n.args[0])
                if isinstance(cls, ast.Name) and cls.id == "str" and not self.shadowed("str"):
                    if t == "pat":
                        return "bool", "(%s).isStr" % v
                    if t in ("str", "char"):
                        return "bool", "true"
                    if t in ("chars", "table", "set", "bool", "int"):
                        return "bool", "false"
                if isinstance(cls, ast.Attribute) and isinstance(cls.value, ast.Name) and cls.value.id == "re" and cls.attr == "Pattern" \
                        and "re" in self.mod.imports and not self.shadowed("re"):
                    if t == "pat":
                        return "bool", "(!(%s).isStr)" % v
                    if t in ("str", "char", "chars", "table", "set", "bool", "int"):
                        return "bool", "false"
                raise Untranslatable("isinstance(%s, %s)" % (t, ast.unparse(cls)))
            if f.id == "len" and len(n.args) == 1:
                t, v = self.e(n.args[0])
                if t in ("str", "chars", "table"):
                    return "int", "(%s).length" % v
                raise Untranslatable("len of a %s" % t)
            if f.id in ("list", "tuple", "set", "frozenset") and len(n.args) == 1:
                t, v = self.e(n.args[0])
                to_set = f.id in ("set", "frozenset")
                if t in ("table", "set") and (to_set or t == "table"):
                    return ("set" if to_set else "table"), v
                if t in ("str", "chars") and not to_set:
                    return "chars", v
                raise Untranslatable("%s of a %s" % (f.id, t))
            if f.id == "bool" and len(n.args) == 1:
                return "bool", self.truth(n.args[0])
            if f.id in ("any", "all") and len(n.args) == 1 and isinstance(n.args[0], (ast.GeneratorExp, ast.ListComp)):
                g = n.args[0]
                t, it, var, ifs = self.generator(g)
                _, it = self.filtered(t, it, var, ifs)
                p, c = self.under(var, ELEM[t], lambda: self.truth(g.elt))
                if not p:
                    return "bool", "((%s).%s (fun %s => %s))" % (it, f.id, self.local(var), c)
                if isinstance(g, ast.ListComp):
                    raise Untranslatable("%s over a list comprehension with raising elements" % f.id)
                # a generator is consumed lazily: `any` stops at the first true element, `all` at the first false one
                return "bool", self.bind("Py.%sM %s (fun %s => %s)" % (f.id, it, self.local(var), self.mterm(p, "pure " + c)))
            if f.id == "next" and len(n.args) == 2 and isinstance(n.args[0], ast.GeneratorExp) \
                    and isinstance(n.args[1], ast.Constant) and n.args[1].value is None:
                g = n.args[0]
                t, it, var, ifs = self.generator(g)
                if not (isinstance(g.elt, ast.Name) and g.elt.id == var):
                    raise Untranslatable("next over a generator that transforms its elements")
                rt = "optchar" if ELEM[t] == "char" else "optpat"
                if not ifs:
                    return rt, "(%s).head?" % it
                p, c = self.under(var, ELEM[t], lambda: self.conj(ifs) if len(ifs) == 1 else self.truth(ast.BoolOp(op=ast.And(), values=list(ifs))))
                if p:
                    raise Untranslatable("next over a generator with raising conditions")
                return rt, "((%s).find? (fun %s => %s))" % (it, self.local(var), c)
        if isinstance(f, ast.Attribute):
            t, v = self.e(f.value)
            if t == "str" and f.attr == "lower" and not n.args:
                return "str", self.bind("Py.strLower %s" % v)
            if t == "pat" and f.attr in ("match", "fullmatch") and len(n.args) == 1:
                at, av = self.e(n.args[0])
                if at != "str":
                    raise Untranslatable("%s of a %s" % (f.attr, at))
                # the Match object is only ever used as a truth value
                return "bool", self.bind("Py.Pat.%s %s %s" % (f.attr, v, av))
        raise Untranslatable("call %s" % ast.unparse(f))

    # --- helper functions of the module, found through the call graph
    def helper_call(self, name: str, args: typing.List[ast.expr]) -> typing.Tuple[str, str]:
        root = self.root
        targs = [self.e(a) for a in args]
        atys = [t for t, _ in targs]
        if any(t in ("table", "set") for t in atys):
            raise Untranslatable("table passed to a helper")
        if name in root.in_progress:
            raise Untranslatable("recursive helper %s" % name)
        if name not in root.helpers:
            fn = self.mod.funcs[name]
            a = fn.args
            if a.vararg or a.kwarg or a.kwonlyargs or a.posonlyargs or a.defaults or fn.decorator_list or len(a.args) != len(args):
                raise Untranslatable("signature of helper %s" % name)
            if any(isinstance(x, (ast.Yield, ast.YieldFrom, ast.Await, ast.Global, ast.Nonlocal, ast.FunctionDef, ast.Lambda)) for x in ast.walk(fn) if x is not fn):
                raise Untranslatable("helper %s is not a plain function" % name)
            sub = FnTr(self.mod, self)
            for p, t in zip(a.args, atys):
                sub.types[p.arg] = t
            root.in_progress.append(name)
            try:
                body = sub.seq(list(fn.body), 0, "      ", True)
            finally:
                root.in_progress.pop()
            ret = sub.ret or "none"
            ln = "h_" + name.lstrip("_")
            params = " ".join("(%s : %s)" % (self.local(p.arg), LEAN_TY[t]) for p, t in zip(a.args, atys))
            lam = "fun %s => " % params if params else ""
            ty = " → ".join([LEAN_TY[t] for t in atys] + ["Py.M %s" % LEAN_TY[ret]])
            root.helper_defs.append("  let %s : %s := %s\n      %s;" % (ln, ty, lam, body))
            root.helpers[name] = (ln, atys, ret)
        ln, want, ret = root.helpers[name]
        if want != atys:
            raise Untranslatable("helper %s called with %s and with %s" % (name, want, atys))
        call = " ".join([ln] + ["(%s)" % v for _, v in targs]) if targs else ln
        v = self.bind(call)
        return ret, v

    # --- statements: the term (of type `Py.M <ret>`) for stmts[i:]
    MSG_CALLS = {"str", "repr", "len"}

    def check_message(self, n: typing.Optional[ast.AST]) -> None:
        if n is None:
            return
        for x in ast.walk(n):
            if isinstance(x, (ast.Constant, ast.Name, ast.Tuple, ast.Load, ast.Mod, ast.Add, ast.JoinedStr, ast.FormattedValue)):
                continue
            if isinstance(x, ast.BinOp) and isinstance(x.op, (ast.Mod, ast.Add)):
                continue
            if isinstance(x, ast.Attribute) and x.attr == "pattern":
                continue
            if isinstance(x, ast.Subscript) and isinstance(x.slice, ast.Constant) and x.slice.value == 0:
                continue
            if isinstance(x, ast.Call) and isinstance(x.func, ast.Name) and x.func.id in self.MSG_CALLS and not x.keywords \
                    and not self.shadowed(x.func.id):
                continue
            raise Untranslatable("message argument %s" % ast.unparse(n)[:80])

    def finish(self, ty: str, value: str) -> str:
        if self.ret is None:
            self.ret = ty
        elif self.ret != ty:
            raise Untranslatable("returns a %s and a %s" % (self.ret, ty))
        return "pure %s" % value

    def seq(self, stmts: typing.List[ast.stmt], i: int, ind: str, tail: bool) -> str:
        """`tail`: nothing follows these statements in the enclosing function (falling off the end is `return None`)."""
        while i < len(stmts) and (isinstance(stmts[i], ast.Pass) or (isinstance(stmts[i], ast.Expr) and isinstance(stmts[i].value, ast.Constant))):
            i += 1
        if i == len(stmts):
            return self.finish("none", "()") if tail else "pure ()"
        s = stmts[i]

        def rest() -> str:
            return self.seq(stmts, i + 1, ind, tail)

        def then(term: str) -> str:
            """`term` (of type M Unit) followed by the remaining statements."""
            j = i + 1
            while j < len(stmts) and (isinstance(stmts[j], ast.Pass) or (isinstance(stmts[j], ast.Expr) and isinstance(stmts[j].value, ast.Constant))):
                j += 1
            if j == len(stmts) and not (tail and self.ret not in (None, "none")):
                if tail:
                    self.finish("none", "()")
                return term
            return "%s >>= fun _ =>\n%s%s" % (term, ind, rest())

        def take() -> str:
            """The binds the expressions of this statement need, as a prefix of its term (taken before anything that follows the
            statement is translated)."""
            p, self.pre = self.pre, []
            return "".join("%s >>= fun %s =>\n%s" % (m, v, ind) for v, m in p)

        if isinstance(s, ast.Raise):
            exc = s.exc.func if isinstance(s.exc, ast.Call) else s.exc
            if not isinstance(exc, ast.Name) or s.cause is not None or self.shadowed(exc.id):
                raise Untranslatable("raise %s" % (ast.unparse(s.exc) if s.exc else ""))
            if isinstance(s.exc, ast.Call):
                if s.exc.keywords:
                    raise Untranslatable("raise with keyword arguments")
                for a in s.exc.args:
                    self.check_message(a)
            return "throw (.other %s)" % lean_str(exc.id)  # what follows a raise is dead code
        if isinstance(s, ast.Return):
            if self.loop:
                raise Untranslatable("return inside a loop")
            if s.value is None or (isinstance(s.value, ast.Constant) and s.value.value is None):
                return self.finish("none", "()")
            t, v = self.e(s.value)
            if t in ("table", "set"):
                raise Untranslatable("returns a table")
            return take() + self.finish(t, v)
        if isinstance(s, ast.If):
            c = self.truth(s.test)
            pre = take()
            inner = any(isinstance(x, (ast.Return, ast.Assign, ast.AnnAssign, ast.AugAssign, ast.NamedExpr))
                        for b in s.body + s.orelse for x in ast.walk(b))
            if inner and self.loop:
                raise Untranslatable("assignment / return inside a loop")
            if inner:
                # the continuation moves into both branches (a branch that returns or raises drops it)
                saved = dict(self.types)
                a = self.seq(list(s.body) + stmts[i + 1:], 0, ind + "  ", tail)
                self.types = dict(saved)
                b = self.seq(list(s.orelse) + stmts[i + 1:], 0, ind + "  ", tail)
                self.types = saved
                return pre + "(if %s then\n%s  %s\n%selse\n%s  %s)" % (c, ind, a, ind, ind, b)
            a = self.seq(s.body, 0, ind + "  ", False)
            b = self.seq(s.orelse, 0, ind + "  ", False)
            return pre + then("(if %s then\n%s  %s\n%selse\n%s  %s)" % (c, ind, a, ind, ind, b))
        if isinstance(s, ast.For) and isinstance(s.target, ast.Name) and not s.orelse:
            t, it = self.e(s.iter)
            if t not in ELEM:
                raise Untranslatable("for loop over a %s" % t)
            live = [x for x in s.body if not (isinstance(x, ast.Pass) or (isinstance(x, ast.Expr) and isinstance(x.value, ast.Constant)))]
            if (len(live) == 1 and isinstance(live[0], ast.If) and not live[0].orelse and len(live[0].body) == 1
                    and isinstance(live[0].body[0], ast.Return) and not self.loop):
                # a search loop: `for x in l: if c(x): return a` is `if any(c(x) for x in l): return a` (the generator stops at the
                # first hit like the loop does); `a` must not depend on the element found
                v = s.target.id
                ret = live[0].body[0]
                if self.shadowed(v):
                    raise Untranslatable("loop variable %s hides another name" % v)
                if ret.value is not None and any(isinstance(x, ast.Name) and x.id == v for x in ast.walk(ret.value)):
                    raise Untranslatable("search loop that returns the element found")
                pre = take()
                p, c = self.under(v, ELEM[t], lambda: self.truth(live[0].test))
                if ret.value is None or (isinstance(ret.value, ast.Constant) and ret.value.value is None):
                    a = self.finish("none", "()")
                else:
                    pa, (ta, va) = self.isolated(lambda: self.e(ret.value))
                    if ta in ("table", "set"):
                        raise Untranslatable("returns a table")
                    a = self.mterm(pa, self.finish(ta, va))
                hit = self.fresh()
                b = rest() if (i + 1 < len(stmts) or tail) else "pure ()"
                return pre + "Py.anyM %s (fun %s => %s) >>= fun %s =>\n%s(if %s then\n%s  %s\n%selse\n%s  %s)" % (
                    it, self.local(v), self.mterm(p, "pure " + c), hit, ind, hit, ind, a, ind, ind, b)
            if any(isinstance(x, (ast.Assign, ast.AugAssign, ast.AnnAssign, ast.Return, ast.Break, ast.Continue, ast.NamedExpr))
                   for b in s.body for x in ast.walk(b)):
                raise Untranslatable("assignment / return / break / continue inside a for loop")
            v = s.target.id
            if self.shadowed(v):
                raise Untranslatable("loop variable %s hides another name" % v)
            pre = take()
            self.types[v] = ELEM[t]
            self.loop += 1
            try:
                body = self.seq(s.body, 0, ind + "    ", False)
            finally:
                self.loop -= 1
                del self.types[v]
            return pre + then("Py.forEach %s () (fun _ %s =>\n%s    %s)" % (it, self.local(v), ind, body))
        if (isinstance(s, ast.Assign) and len(s.targets) == 1 and isinstance(s.targets[0], ast.Name)) or \
                (isinstance(s, ast.AnnAssign) and isinstance(s.target, ast.Name) and s.value is not None):
            if self.loop:
                raise Untranslatable("assignment inside a loop")
            name = s.targets[0].id if isinstance(s, ast.Assign) else s.target.id
            t, v = self.e(s.value)
            if t in ("none",):
                raise Untranslatable("assignment of a %s" % t)
            if name in self.mod.consts or name in self.mod.funcs:
                raise Untranslatable("local %s hides a module-level name" % name)
            if name in self.types and self.types[name] != t:
                raise Untranslatable("local %s changes its type" % name)
            self.types[name] = t
            return take() + "let %s : %s := %s;\n%s%s" % (self.local(name), LEAN_TY[t], v, ind, rest())
        if isinstance(s, ast.Assert):
            c = self.truth(s.test)
            self.check_message(s.msg)
            return take() + then("Py.assert %s" % c)
        if isinstance(s, ast.Expr) and isinstance(s.value, ast.Call) and isinstance(s.value.func, ast.Name) \
                and s.value.func.id in self.mod.funcs and not self.shadowed_local(s.value.func.id):
            t, v = self.e(s.value)
            return take() + rest()  # the call is one of the binds; its result is dropped
        raise Untranslatable("statement %s" % type(s).__name__)

    def shadowed_local(self, name: str) -> bool:
        return name in self.types


def translate_names(repo: Path) -> typing.Tuple[str, typing.List[str]]:
    problems: typing.List[str] = []
    head = ["import PyRegex",
            "/-! GENERATED by tools/py2lean.py (names group: %s) -- do not edit. -/" % NAME_SOURCE,
            "set_option linter.unusedVariables false", ""]
    sig = "def Gen.Names.check_name (v_name : Py.Str) : Py.M Unit"
    try:
        src = (repo / NAME_SOURCE).read_text()
        tree = ast.parse(src)
        mod = Module(tree)
        fn = mod.funcs.get(FUNCTION)
        if fn is None:
            raise Untranslatable("function not found")
        a = fn.args
        if len(a.args) != 1 or a.vararg or a.kwarg or a.kwonlyargs or a.posonlyargs or a.defaults or fn.decorator_list:
            raise Untranslatable("signature of %s" % FUNCTION)
        if any(isinstance(x, (ast.Yield, ast.YieldFrom, ast.Await, ast.Global, ast.Nonlocal, ast.FunctionDef, ast.Lambda))
               for x in ast.walk(fn) if x is not fn):
            raise Untranslatable("%s is not a plain function" % FUNCTION)
        tr = FnTr(mod)
        tr.types[a.args[0].arg] = "str"
        tr.in_progress.append(FUNCTION)
        body = tr.seq(list(fn.body), 0, "  ", True)
        if tr.ret not in (None, "none"):
            raise Untranslatable("%s returns a %s" % (FUNCTION, tr.ret))
        lines = src.splitlines()
        span = "\n".join(lines[fn.lineno - 1: fn.end_lineno])
        out = list(head)
        out.append("/- %s  %s lines %d-%d sha256 %s -/" % (FUNCTION, NAME_SOURCE, fn.lineno, fn.end_lineno,
                                                        hashlib.sha256(span.encode()).hexdigest()[:16]))
        out.append("def Gen.Names.check_name (%s : Py.Str) : Py.M Unit :=" % FnTr.local(a.args[0].arg))
        out += tr.helper_defs
        out.append("  " + body)
        out.append("")
        out.append("/- every string and compiled pattern of the module-level tables %s consults (`in`, `for`, comprehensions), in the" % FUNCTION)
        out.append("   order of first use -/")
        out.append("def Gen.Names.reserved : List Py.Pat :=\n  %s" % Table(tr.tables_used, True).lean("  "))
        return "\n".join(out) + "\n", problems
    except (OSError, SyntaxError) as ex:
        why = "cannot read / parse: %s" % ex
    except Untranslatable as ex:
        why = str(ex)
    except RecursionError:
        why = "recursion limit"
    problems.append("%s %s: %s" % (NAME_SOURCE, FUNCTION, why))
    out = head + [sig + " :=", "  throw (.other %s)" % lean_str("untranslatable: " + why), "",
                  "def Gen.Names.reserved : List Py.Pat := []"]
    return "\n".join(out) + "\n", problems
