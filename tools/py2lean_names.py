"""
Names group of py2lean: the name rules of pydsdl (`pydsdl/_serializable/_name.py`).  Output: lean/Gen/Names.lean.

What is translated, all of it read from the working tree of $VERIF_REPO with `ast` on every run:

  * the module-level string constants the function refers to (`_VALID_FIRST_CHARACTERS_OF_NAME`, ...): constant expressions over
    string literals, `string.ascii_letters / ascii_lowercase / ascii_uppercase / digits`, other such constants and `+`, evaluated to
    the list of their characters;
  * the table of disallowed names (`_DISALLOWED_NAME_PATTERNS`): a list / tuple / set display (or `+` of displays) whose elements are
    constant strings or `re.compile(<constant string>)` calls without flags, in the order of the source.  The SOURCE TEXT of every
    pattern is parsed here, by `parse_regex`, into the regex AST `Py.Rx` of lean/PyRegex.lean (whose matcher is proved correct against
    the declarative language semantics); a final `$` is recorded as a flag of the table entry (`Py.Pat.re r dollar`);
  * `check_name` itself, statement by statement, into the exception monad `Py.M` (see `FnTr` for the supported fragment): truthiness
    of a `str`, `s[i]`, `x in s` / `x not in s`, `for c in s`, `for p in <table>`, `s.lower()`, `isinstance(p, str)`, `p == s`,
    `p.match(s)` / `p.fullmatch(s)`, `raise E(...)`, `if / elif / else`, `and / or / not`, `len`, integer comparisons, `assert`, `return`.

Anything outside the supported fragment - in particular every regular-expression feature `parse_regex` does not know (flags,
counted repetition, lazy / possessive quantifiers, back-references, look-around, `\\w \\s \\b`, anchors inside the pattern, ...) - makes
`Gen.Names.check_name` an always-failing stub and is reported as a problem (`py2lean: [Gen.Names] ...`): never guess.
"""
from __future__ import annotations

import ast
import hashlib
import string
import typing
from pathlib import Path

NAME_SOURCE = "pydsdl/_serializable/_name.py"
FUNCTION = "check_name"

KEYWORDS = {"end", "at", "from", "by", "do", "then", "fun", "let", "in", "open", "show", "have", "match", "with", "where", "instance",
            "class", "structure", "def", "theorem", "mut", "type", "if", "else", "for", "return", "pure"}


class Untranslatable(Exception):
    pass


def lname(n: str) -> str:
    n = n.lstrip("_") or n
    return n + "'" if n in KEYWORDS else n


def lean_char(c: str) -> str:
    o = ord(c)
    if 0xD800 <= o <= 0xDFFF:
        raise Untranslatable("lone surrogate U+%04X in a string constant" % o)
    if 32 <= o < 127 and c not in "'\\":
        return "'%s'" % c
    return "(Char.ofNat %d)" % o


def lean_chars(s: str) -> str:
    return "[" + ", ".join(lean_char(c) for c in s) + "]"


def lean_str(s: str) -> str:
    return '"' + s.replace("\\", "\\\\").replace('"', '\\"').replace("\n", " ") + '"'


# ----------------------------------------------------------------------------------------------- regular expressions
# AST of the parser: ("eps",) ("chr", c) ("cls", neg, [(lo, hi)]) ("digit",) ("any",) ("seq", [..]) ("alt", [..]) ("star", x) ("plus", x) ("opt", x)

PUNCT = set(string.punctuation)
SPECIAL = set(".^$*+?{}[]\\|()")


class RegexParser:
    """Recursive-descent parser for the fragment of Python's `re` syntax described in the module docstring (no flags)."""

    def __init__(self, src: str):
        self.s = src
        self.i = 0
        self.depth = 0
        self.dollar = False

    def fail(self, what: str) -> typing.NoReturn:
        raise Untranslatable("regular expression %r: unsupported %s at offset %d" % (self.s, what, self.i))

    def peek(self) -> str:
        return self.s[self.i] if self.i < len(self.s) else ""

    def parse(self):
        if self.peek() == "^":  # `match` / `fullmatch` anchor at the start anyway
            self.i += 1
        r = self.alt()
        if self.i != len(self.s):
            self.fail("character %r" % self.peek())
        if self.dollar and r[0] == "alt":
            # `a|b$` anchors the last branch only
            self.i = len(self.s) - 1
            self.fail("`$` behind a top-level alternation")
        return r, self.dollar

    def alt(self):
        branches = [self.seq()]
        while self.peek() == "|":
            self.i += 1
            branches.append(self.seq())
        return branches[0] if len(branches) == 1 else ("alt", branches)

    def seq(self):
        items = []
        while True:
            c = self.peek()
            if c == "" or c == "|" or (c == ")" and self.depth > 0):
                break
            if c == "$":
                if self.depth == 0 and self.i == len(self.s) - 1:
                    self.dollar = True
                    self.i += 1
                    break
                self.fail("`$` that is not the last character of the pattern")
            a = self.atom()
            q = self.peek()
            if q in ("*", "+", "?"):
                self.i += 1
                if self.peek() in ("?", "+"):
                    self.fail("lazy / possessive quantifier")
                if self.peek() in ("*", "{"):
                    self.fail("repeated quantifier")
                a = ({"*": "star", "+": "plus", "?": "opt"}[q], a)
            elif q == "{":
                self.fail("counted repetition `{`")
            items.append(a)
        if not items:
            return ("eps",)
        return items[0] if len(items) == 1 else ("seq", items)

    def atom(self):
        c = self.peek()
        if c == "(":
            self.i += 1
            if self.peek() == "?":
                if self.s.startswith("?:", self.i):
                    self.i += 2
                else:
                    self.fail("group extension `(?`")
            self.depth += 1
            r = self.alt()
            if self.peek() != ")":
                self.fail("unbalanced parenthesis")
            self.i += 1
            self.depth -= 1
            return r
        if c == "[":
            return self.cls()
        if c == ".":
            self.i += 1
            return ("any",)
        if c == "\\":
            k, v = self.escape()
            return ("digit",) if k == "digit" else ("chr", v)
        if c in ("*", "+", "?", "{", "}", ")", "^", "]"):
            self.fail("character %r" % c)
        self.i += 1
        return ("chr", c)

    def escape(self) -> typing.Tuple[str, str]:
        assert self.peek() == "\\"
        self.i += 1
        c = self.peek()
        if c == "":
            self.fail("trailing backslash")
        self.i += 1
        if c == "d":
            return "digit", ""
        if c in PUNCT:
            return "chr", c
        if c in "ntrfv":
            return "chr", {"n": "\n", "t": "\t", "r": "\r", "f": "\f", "v": "\v"}[c]
        self.i -= 1
        self.fail("escape \\%s" % c)

    def cls(self):
        assert self.peek() == "["
        self.i += 1
        neg = False
        if self.peek() == "^":
            neg = True
            self.i += 1
        ranges: typing.List[typing.Tuple[str, str]] = []
        first = True
        while True:
            c = self.peek()
            if c == "":
                self.fail("unterminated character class")
            if c == "]":
                if first:
                    self.fail("`]` as the first member of a character class")
                self.i += 1
                break
            first = False
            if c == "[":
                self.fail("`[` inside a character class")
            if c == "\\":
                k, v = self.escape()
                if k == "digit":
                    ranges.append(("0", "9"))
                    continue
                lo = v
            else:
                self.i += 1
                lo = c
            if self.peek() == "-" and self.i + 1 < len(self.s) and self.s[self.i + 1] != "]":
                self.i += 1
                h = self.peek()
                if h == "\\":
                    k, v = self.escape()
                    if k == "digit":
                        self.fail("class escape as the end of a range")
                    hi = v
                elif h == "[":
                    self.fail("`[` inside a character class")
                else:
                    self.i += 1
                    hi = h
                if ord(hi) < ord(lo):
                    self.fail("reversed range")
                ranges.append((lo, hi))
            else:
                ranges.append((lo, lo))
        return ("cls", neg, ranges)


def parse_regex(src: str):
    return RegexParser(src).parse()


def rx_lean(r) -> str:
    k = r[0]
    if k == "eps":
        return ".eps"
    if k == "chr":
        return "(.chr %s)" % lean_char(r[1])
    if k == "digit":
        return ".digit"
    if k == "any":
        return ".any"
    if k == "cls":
        return "(.cls %s [%s])" % ("true" if r[1] else "false", ", ".join("(%s, %s)" % (lean_char(a), lean_char(b)) for a, b in r[2]))
    if k in ("star", "plus", "opt"):
        return "(.%s %s)" % (k, rx_lean(r[1]))
    if k in ("seq", "alt"):  # right-nested
        items = r[1]
        out = rx_lean(items[-1])
        for x in reversed(items[:-1]):
            out = "(.%s %s %s)" % (k, rx_lean(x), out)
        return out
    raise AssertionError(k)


# ----------------------------------------------------------------------------------------------- module-level constants

STRING_MODULE = {"ascii_letters": string.ascii_letters, "ascii_lowercase": string.ascii_lowercase,
                 "ascii_uppercase": string.ascii_uppercase, "digits": string.digits}


class Module:
    def __init__(self, tree: ast.Module):
        self.tree = tree
        self.consts: typing.Dict[str, ast.AST] = {}
        self.imports: typing.Set[str] = set()
        counts: typing.Dict[str, int] = {}
        for n in tree.body:
            if isinstance(n, ast.Import):
                for a in n.names:
                    if a.asname is None:
                        self.imports.add(a.name)
            tgt = None
            if isinstance(n, ast.Assign) and len(n.targets) == 1 and isinstance(n.targets[0], ast.Name):
                tgt, val = n.targets[0].id, n.value
            elif isinstance(n, ast.AnnAssign) and isinstance(n.target, ast.Name) and n.value is not None:
                tgt, val = n.target.id, n.value
            if tgt is not None:
                counts[tgt] = counts.get(tgt, 0) + 1
                self.consts[tgt] = val
        # anything that (re)binds a module-level name elsewhere makes it not a constant
        rebound: typing.Set[str] = {k for k, v in counts.items() if v > 1}
        for n in ast.walk(tree):
            if isinstance(n, ast.Global):
                rebound |= set(n.names)
            if isinstance(n, (ast.AugAssign,)) and isinstance(n.target, ast.Name) and n in tree.body:
                rebound.add(n.target.id)
        for n in tree.body:
            if isinstance(n, (ast.FunctionDef, ast.ClassDef)) and n.name in self.consts:
                rebound.add(n.name)
        for k in rebound:
            self.consts.pop(k, None)
        if any(k in counts or k in rebound for k in ("re", "string")):
            self.imports -= {"re", "string"}

    def const_str(self, n: ast.AST, seen: typing.Tuple[str, ...] = ()) -> str:
        if isinstance(n, ast.Constant) and isinstance(n.value, str):
            return n.value
        if isinstance(n, ast.Attribute) and isinstance(n.value, ast.Name) and n.value.id == "string" and "string" in self.imports \
                and n.attr in STRING_MODULE:
            return STRING_MODULE[n.attr]
        if isinstance(n, ast.Name) and n.id in self.consts and n.id not in seen:
            return self.const_str(self.consts[n.id], seen + (n.id,))
        if isinstance(n, ast.BinOp) and isinstance(n.op, ast.Add):
            return self.const_str(n.left, seen) + self.const_str(n.right, seen)
        raise Untranslatable("not a constant string: %s" % ast.unparse(n))

    def is_str(self, n: ast.AST) -> bool:
        try:
            self.const_str(n)
            return True
        except Untranslatable:
            return False

    def table(self, n: ast.AST, seen: typing.Tuple[str, ...] = ()) -> typing.List[str]:
        """The elements of a table of strings and compiled patterns, as Lean terms of type `Py.Pat`."""
        if isinstance(n, (ast.List, ast.Tuple, ast.Set)):
            out = []
            for e in n.elts:
                if isinstance(e, ast.Starred):
                    out += self.table(e.value, seen)
                elif self.is_str(e):
                    out.append(".str %s" % lean_chars(self.const_str(e)))
                elif (isinstance(e, ast.Call) and isinstance(e.func, ast.Attribute) and e.func.attr == "compile"
                      and isinstance(e.func.value, ast.Name) and e.func.value.id == "re" and "re" in self.imports):
                    if len(e.args) != 1 or e.keywords:
                        raise Untranslatable("re.compile with flags: %s" % ast.unparse(e))
                    src = self.const_str(e.args[0])
                    r, dollar = parse_regex(src)
                    out.append(".re %s %s" % (rx_lean(r), "true" if dollar else "false"))
                else:
                    raise Untranslatable("table element %s" % ast.unparse(e))
            return out
        if isinstance(n, ast.BinOp) and isinstance(n.op, ast.Add):
            return self.table(n.left, seen) + self.table(n.right, seen)
        if isinstance(n, ast.Name) and n.id in self.consts and n.id not in seen:
            return self.table(self.consts[n.id], seen + (n.id,))
        raise Untranslatable("not a table of names and patterns: %s" % ast.unparse(n)[:80])


# ----------------------------------------------------------------------------------------------- the function

# types of the fragment: "str", "char", "pat", "table", "bool", "int"


class FnTr:
    """Statement-by-statement translation into a `do` block of `Py.M Unit`.  Expressions are pure Lean terms; a sub-expression that
    may raise (`s[i]`, `s.lower()`, `p.match(s)`) is hoisted into a monadic `let t ← …` directly in front of its statement, which is
    sound because the fragment has no other effects; it is refused under `and` / `or` / conditional expressions (short circuit)."""

    def __init__(self, mod: Module, used: typing.Dict[str, typing.Tuple[str, str]]):
        self.mod = mod
        self.used = used  # module constant -> (kind, lean definition text)
        self.types: typing.Dict[str, str] = {}
        self.pre: typing.List[str] = []
        self.tmp = 0
        self.loop = 0

    def bind(self, m: str) -> str:
        self.tmp += 1
        v = "t%d" % self.tmp
        self.pre.append("let %s ← %s" % (v, m))
        return v

    def const(self, name: str) -> typing.Tuple[str, str]:
        """A module-level constant: (type, lean name)."""
        ln = "Gen.Names." + lname(name)
        if name not in self.used:
            node = self.mod.consts[name]
            if self.mod.is_str(node):
                self.used[name] = ("str", "def %s : Py.Str :=\n  %s" % (ln, lean_chars(self.mod.const_str(node))))
            else:
                elems = self.mod.table(node)
                self.used[name] = ("table", "def %s : List Py.Pat := [\n  %s]" % (ln, ",\n  ".join(elems)))
        return self.used[name][0], ln

    # --- expressions: returns (type, lean term)
    def e(self, n: ast.AST) -> typing.Tuple[str, str]:
        if isinstance(n, ast.Constant):
            if isinstance(n.value, bool):
                return "bool", "true" if n.value else "false"
            if isinstance(n.value, int) and n.value >= 0:
                return "int", "(%d : Nat)" % n.value
            if isinstance(n.value, str):
                return "str", "(%s : Py.Str)" % lean_chars(n.value)
            raise Untranslatable("constant %r" % (n.value,))
        if isinstance(n, ast.Name):
            if n.id in self.types:
                return self.types[n.id], lname(n.id)
            if n.id in self.mod.consts:
                return self.const(n.id)
            raise Untranslatable("name %s" % n.id)
        if isinstance(n, ast.UnaryOp) and isinstance(n.op, ast.Not):
            t, v = self.e(n.operand)
            if t == "str":
                return "bool", "(%s).isEmpty" % v
            if t == "int":
                return "bool", "(%s == 0)" % v
            if t == "bool":
                return "bool", "(!%s)" % v
            raise Untranslatable("truth value of a %s" % t)
        if isinstance(n, ast.BoolOp):
            before = len(self.pre)
            vals = [self.truth(v) for v in n.values]
            if len(self.pre) != before:
                raise Untranslatable("short-circuit operator with raising operands")
            return "bool", "(" + (" && " if isinstance(n.op, ast.And) else " || ").join(vals) + ")"
        if isinstance(n, ast.Compare) and len(n.ops) == 1:
            return "bool", self.compare(n.left, n.ops[0], n.comparators[0])
        if isinstance(n, ast.Subscript):
            t, v = self.e(n.value)
            if t == "str" and isinstance(n.slice, ast.Constant) and isinstance(n.slice.value, int) and not isinstance(n.slice.value, bool) \
                    and n.slice.value >= 0:
                return "char", self.bind("Py.strIndex %s %d" % (v, n.slice.value))
            raise Untranslatable("subscript %s" % ast.unparse(n))
        if isinstance(n, ast.Call):
            return self.call(n)
        raise Untranslatable("expression %s" % type(n).__name__)

    def truth(self, n: ast.AST) -> str:
        t, v = self.e(n)
        if t == "bool":
            return v
        if t == "str":
            return "(!(%s).isEmpty)" % v
        if t == "int":
            return "(%s != 0)" % v
        raise Untranslatable("truth value of a %s" % t)

    def compare(self, l: ast.AST, op: ast.cmpop, r: ast.AST) -> str:
        lt, lv = self.e(l)
        rt, rv = self.e(r)
        if isinstance(op, (ast.In, ast.NotIn)):
            if lt == "char" and rt == "str":
                c = "(Py.charIn %s %s)" % (lv, rv)
                return c if isinstance(op, ast.In) else "(!%s)" % c
            raise Untranslatable("`in` between %s and %s" % (lt, rt))
        if isinstance(op, (ast.Eq, ast.NotEq)):
            if {lt, rt} == {"pat", "str"}:
                c = "(Py.Pat.eqStr %s %s)" % ((lv, rv) if lt == "pat" else (rv, lv))
            elif lt == rt and lt in ("str", "int", "bool"):
                c = "(%s == %s)" % (lv, rv)
            else:
                raise Untranslatable("`==` between %s and %s" % (lt, rt))
            return c if isinstance(op, ast.Eq) else "(!%s)" % c
        sym = {ast.LtE: "≤", ast.Lt: "<", ast.GtE: "≥", ast.Gt: ">"}.get(type(op))
        if sym and lt == rt == "int":
            return "(decide (%s %s %s))" % (lv, sym, rv)
        raise Untranslatable("comparison %s between %s and %s" % (type(op).__name__, lt, rt))

    def call(self, n: ast.Call) -> typing.Tuple[str, str]:
        f = n.func
        if n.keywords:
            raise Untranslatable("keyword arguments")
        if isinstance(f, ast.Name) and f.id == "isinstance" and len(n.args) == 2 and isinstance(n.args[1], ast.Name) and n.args[1].id == "str":
            t, v = self.e(n.args[0])
            if t == "pat":
                return "bool", "(%s).isStr" % v
            if t == "str":
                return "bool", "true"
            raise Untranslatable("isinstance of a %s" % t)
        if isinstance(f, ast.Name) and f.id == "len" and len(n.args) == 1:
            t, v = self.e(n.args[0])
            if t in ("str", "table"):
                return "int", "(%s).length" % v
            raise Untranslatable("len of a %s" % t)
        if isinstance(f, ast.Attribute):
            t, v = self.e(f.value)
            if t == "str" and f.attr == "lower" and not n.args:
                return "str", self.bind("Py.strLower %s" % v)
            if t == "pat" and f.attr in ("match", "fullmatch") and len(n.args) == 1:
                at, av = self.e(n.args[0])
                if at != "str":
                    raise Untranslatable("%s of a %s" % (f.attr, at))
                # the Match object is only ever used as a truth value
                return "bool", self.bind("Py.Pat.%s %s %s" % (f.attr, v, av))
        raise Untranslatable("call %s" % ast.unparse(f))

    # --- statements
    def flush(self, out: typing.List[str], ind: str) -> None:
        out.extend(ind + p for p in self.pre)
        self.pre = []

    def stmts(self, body: typing.List[ast.stmt], ind: str, out: typing.List[str], top: bool) -> None:
        emitted = False
        for s in body:
            if isinstance(s, ast.Expr) and isinstance(s.value, ast.Constant):
                continue  # docstring
            if isinstance(s, ast.Pass):
                continue
            emitted = True
            if isinstance(s, ast.Raise):
                exc = s.exc.func if isinstance(s.exc, ast.Call) else s.exc
                if not isinstance(exc, ast.Name) or s.cause is not None:
                    raise Untranslatable("raise %s" % (ast.unparse(s.exc) if s.exc else ""))
                out.append("%sthrow (.other %s)" % (ind, lean_str(exc.id)))
            elif isinstance(s, ast.If):
                c = self.truth(s.test)
                self.flush(out, ind)
                out.append("%sif %s then" % (ind, c))
                self.stmts(s.body, ind + "  ", out, False)
                if s.orelse:
                    out.append("%selse" % ind)
                    self.stmts(s.orelse, ind + "  ", out, False)
            elif isinstance(s, ast.For) and isinstance(s.target, ast.Name) and not s.orelse:
                t, it = self.e(s.iter)
                self.flush(out, ind)
                et = {"str": "char", "table": "pat"}.get(t)
                if et is None:
                    raise Untranslatable("for loop over a %s" % t)
                if any(isinstance(x, (ast.Assign, ast.AugAssign, ast.AnnAssign, ast.Return, ast.Break, ast.Continue, ast.NamedExpr))
                       for b in s.body for x in ast.walk(b)):
                    raise Untranslatable("assignment / return / break / continue inside a for loop")
                v = s.target.id
                if v in self.types:
                    raise Untranslatable("loop variable %s shadows a local" % v)
                self.types[v] = et
                out.append("%sPy.forEach %s () (fun _ %s => do" % (ind, it, lname(v)))
                self.loop += 1
                self.stmts(s.body, ind + "    ", out, False)
                self.loop -= 1
                out.append("%s    pure ())" % ind)
                del self.types[v]
            elif isinstance(s, ast.Assign) and len(s.targets) == 1 and isinstance(s.targets[0], ast.Name):
                if not top:
                    raise Untranslatable("assignment inside a branch")
                t, v = self.e(s.value)
                self.flush(out, ind)
                if t not in ("str", "bool", "int", "char"):
                    raise Untranslatable("assignment of a %s" % t)
                name = s.targets[0].id
                if name in self.types and self.types[name] != t:
                    raise Untranslatable("local %s changes its type" % name)
                self.types[name] = t
                out.append("%slet %s := %s" % (ind, lname(name), v))
            elif isinstance(s, ast.Assert):
                c = self.truth(s.test)
                self.flush(out, ind)
                out.append("%sPy.assert %s" % (ind, c))
            elif isinstance(s, ast.Return) and (s.value is None or (isinstance(s.value, ast.Constant) and s.value.value is None)):
                if self.loop:
                    raise Untranslatable("return inside a loop")
                out.append("%sreturn ()" % ind)
            else:
                raise Untranslatable("statement %s" % type(s).__name__)
        if not emitted:
            out.append("%spure ()" % ind)


def translate_names(repo: Path) -> typing.Tuple[str, typing.List[str]]:
    problems: typing.List[str] = []
    head = ["import PyRegex",
            "/-! GENERATED by tools/py2lean.py (names group: %s) -- do not edit. -/" % NAME_SOURCE,
            "set_option linter.unusedVariables false", ""]
    sig = "def Gen.Names.check_name (name : Py.Str) : Py.M Unit"
    src = ""
    fn = None
    try:
        src = (repo / NAME_SOURCE).read_text()
        tree = ast.parse(src)
        mod = Module(tree)
        fn = next((n for n in tree.body if isinstance(n, ast.FunctionDef) and n.name == FUNCTION), None)
        if fn is None:
            raise Untranslatable("function not found")
        a = fn.args
        if len(a.args) != 1 or a.vararg or a.kwarg or a.kwonlyargs or a.posonlyargs or a.defaults or fn.decorator_list:
            raise Untranslatable("signature of %s" % FUNCTION)
        used: typing.Dict[str, typing.Tuple[str, str]] = {}
        tr = FnTr(mod, used)
        tr.types[a.args[0].arg] = "str"
        body: typing.List[str] = []
        tr.stmts(fn.body, "  ", body, True)
        body.append("  pure ()")
        param = lname(a.args[0].arg)
        lines = src.splitlines()
        span = "\n".join(lines[fn.lineno - 1: fn.end_lineno])
        out = list(head)
        for cname, (_, text) in used.items():
            node = mod.consts[cname]
            ctext = "\n".join(lines[node.lineno - 1: node.end_lineno])
            out.append("/- %s  %s lines %d-%d sha256 %s -/" % (cname, NAME_SOURCE, node.lineno, node.end_lineno,
                                                            hashlib.sha256(ctext.encode()).hexdigest()[:16]))
            out += [text, ""]
        out.append("/- %s  %s lines %d-%d sha256 %s -/" % (FUNCTION, NAME_SOURCE, fn.lineno, fn.end_lineno,
                                                        hashlib.sha256(span.encode()).hexdigest()[:16]))
        out.append("def Gen.Names.check_name (%s : Py.Str) : Py.M Unit := do" % param)
        out += body
        return "\n".join(out) + "\n", problems
    except (OSError, SyntaxError) as ex:
        why = "cannot read / parse: %s" % ex
    except Untranslatable as ex:
        why = str(ex)
    problems.append("%s %s: %s" % (NAME_SOURCE, FUNCTION, why))
    out = head + [sig + " :=", "  throw (.other %s)" % lean_str("untranslatable: " + why)]
    return "\n".join(out) + "\n", problems
