#!/bin/sh
# tools/try_harmless.sh <patch.diff> [PROP...] : run quick checks (default: all 19) against a scratch copy of /repo with a
# behaviour-preserving patch applied; every VIOLATION / non-zero exit is a false alarm of the machinery.
P="$1"; shift
PROPS="$@"; [ -z "$PROPS" ] && PROPS="C01 C02 C03 C04 C05 C06 C07 C08 C09 C10 C11 C12 C13 C14 C15 C16 C17 C18 C19"
D=$(mktemp -d /tmp/harmXXXXXX)
cp -r /repo/pydsdl "$D/" && (cd "$D" && patch -s -p1 < "$P") || { echo "patch failed"; rm -rf "$D"; exit 2; }
for prop in $PROPS; do
  OUT=$(VERIF_REPO="$D" timeout 1200 /verif/check "$prop" --tier quick 2>&1); rc=$?
  [ $rc -ne 0 ] && { echo "FALSE-ALARM? $prop rc=$rc on $P"; echo "$OUT" | grep -E "VIOLATION|INFRA" | head -3; }
done
rm -rf "$D"
echo "done $P"
