#!/venv/bin/python
"""
py2lean -- syntax-directed translation of the arithmetic / decision kernels of pydsdl into Lean 4 (DESIGN.md I.2, tie 1).

    tools/py2lean.py [--repo /repo] [--out lean/Gen] [--check]

Reads the Python sources under $VERIF_REPO (default /repo), translates the *targets* listed in TARGETS below and
writes one Lean module per target group to lean/Gen/ (only when the text changes, so that `lake build` stays a no-op
on an unchanged tree).  Exit status 0 = every target translated; 3 = at least one target uses Python that is outside
the supported subset, or a target disappeared (the tie is broken: the caller starts a failing-input search).
A target that cannot be translated is still emitted, as a definition that always fails (`throw (.other "untranslatable …")`),
so that the bridge theorems about it break rather than the whole build.

Supported Python (everything else raises Untranslatable; group `Gen.Symbolic`, the other groups have their own modules):
  expressions  int / bool literals, locals, self._field (the attribute that stores a constructor parameter is discovered from
               `__init__`, not named in a table), self.method / self.prop of the public interface (calls of the generated definition of
               the same class), child.method(args) / child.prop on objects of the *interface* type,
               + * // % - (checked) ** , unary minus (from there on the arithmetic is done in `Int` with Python's floor semantics and
               goes back to the naturals through the checked `Py.toNat` where the value is stored / returned / passed on),
               comparison chains, and / or / not on booleans, conditional expressions, min/max (two arguments or one iterable), sum,
               set, sorted / list / tuple (order of a set is never observed), len, range, map with lambda / bound method / function,
               set / list / generator comprehensions (any number of `for` / `if` for sets), itertools.product(*x),
               itertools.combinations_with_replacement, math.lcm, `a | b` on sets, isinstance (-> True for the declared type),
               int(x) on an int, x.bit_length(), calls of private methods / private properties / module-level functions of the same
               file (found through the call graph and inlined as a nested `do` block with its own `return` scope; a generator-expression
               argument stays lazy and is fused into the one loop that consumes it)
  statements   assignment to a local, `a, b = x, y`, `q, r = divmod(x, y)`, `s.add(e)`, `s.update(e)`, `s |= e` (only on a set object
               created by the function itself and not aliased: in-place mutation is translated as rebinding), `x += e` …, assert,
               raise, return (also early), if / elif / else, for over an iterable with loop-carried locals, docstrings, `pass`
Normal forms (so that cosmetic edits give the SAME Lean term): every way of building a set (`{… for …}`, `set(… for …)`, `set(map(…))`,
an accumulation loop) is the accumulation loop; operands of + * min max lcm == != and / or are flattened and sorted; only < and ≤ are
emitted (`a > b` is `b < a`, `not a < b` is `b ≤ a`, negations are pushed to the comparisons); a local that is bound once to a name or
literal is replaced by it; `if c: x = a else: x = b` with non-raising right-hand sides is `x = a if c else b`; messages are ignored.
"""
from __future__ import annotations

import argparse
import ast
import hashlib
import os
import sys
import typing
from pathlib import Path

VERIF = Path(__file__).resolve().parent.parent


class Untranslatable(Exception):
    pass


# ----------------------------------------------------------------------------------------------- target tables
# A class target: constructor parameters in order (lean name, type) -- the private attribute that stores a parameter is
# *discovered* from `__init__` (`self._x = param` / `int(param)` / `set(param)` / `list(param)`), so renaming it changes nothing --
# and the public methods to translate with their result type.  Everything else the targets call (private methods, private
# properties, module-level functions) is discovered through the call graph and inlined as a nested `do` block.
# Types: "int" -> Nat, "bool" -> Bool, "set" -> List Nat, "op" -> interface record, "oplist" -> List of it.

LEAN_TY = {"int": "Nat", "bool": "Bool", "set": "List Nat", "list": "List Nat", "op": "OperatorI", "oplist": "List OperatorI",
           "setlist": "List (List Nat)"}

# how `__init__` may store a constructor parameter of the given type (None: as it is)
CTOR_WRAPPERS = {"int": (None, "int"), "set": ("set",), "oplist": ("list",), "op": (None,)}

SYMBOLIC = {
    "module": "Gen.Symbolic",
    "source": "pydsdl/_bit_length_set/_symbolic.py",
    "preamble": [
        "/-- `Operator`: the abstract interface of `_symbolic.py` (open recursion: a node sees its children only through it). -/",
        "structure OperatorI where",
        "  min : Py.M Nat",
        "  max : Py.M Nat",
        "  modulo : Nat → Py.M (List Nat)",
        "  expand : Unit → Py.M (List Nat)",
    ],
    "iface_class": "Operator",
    "iface": {"min": ("prop", "int"), "max": ("prop", "int"), "modulo": ("method", "set"), "expand": ("method0", "set")},
    "classes": {
        "NullaryOperator": {"ctor": [("value", "set")],
                            "methods": {"modulo": "set", "min": "int", "max": "int", "expand": "set"}},
        "PaddingOperator": {"ctor": [("child", "op"), ("padding", "int")],
                            "methods": {"min": "int", "max": "int", "modulo": "set", "expand": "set"}},
        "ConcatenationOperator": {"ctor": [("children", "oplist")],
                                  "methods": {"modulo": "set", "min": "int", "max": "int", "expand": "set"}},
        "RepetitionOperator": {"ctor": [("child", "op"), ("k", "int")],
                               "methods": {"modulo": "set", "min": "int", "max": "int", "expand": "set"}},
        "RangeRepetitionOperator": {"ctor": [("child", "op"), ("k_max", "int")],
                                    "methods": {"modulo": "set", "min": "int", "max": "int", "expand": "set"}},
        "UnionOperator": {"ctor": [("children", "oplist")],
                          "methods": {"modulo": "set", "min": "int", "max": "int", "expand": "set"}},
    },
}

TARGETS = [SYMBOLIC]

LEAN_RESERVED = {"end", "at", "from", "by", "do", "then", "fun", "let", "in", "open", "show", "have", "match", "with", "where", "instance",
                 "class", "structure", "def", "theorem", "mut", "type", "if", "else", "for", "return", "pure", "min", "max", "true", "false",
                 "decide", "set", "sum", "id", "some", "none", "not", "and", "or", "import", "namespace", "section", "variable", "macro",
                 "syntax", "notation", "unless", "try", "catch", "throw", "break", "continue", "universe", "deriving", "extends", "using"}


def lname(n: str) -> str:
    import re

    if n in LEAN_RESERVED or re.fullmatch(r"[tc]\d+", n):  # `t<n>` / `c<n>` are the translator's own temporaries
        return n + "'"
    return n


class T(str):
    """A Lean term together with what the translator knows about the Python value it denotes.
    sort:  "nat" (a Python int known to live in the naturals), "int" (a Lean `Int`: arithmetic below a unary minus), "bool", or
           None (sets, lists, interface objects, tuples);
    prop:  for a "bool" that is a single comparison, the same condition as a Lean `Prop`;
    ac:    (op, operands) of a flattened sum / product of naturals (operands are kept sorted: a canonical form);
    fresh: a newly created set object (safe to mutate in place: aliases nothing);
    atom:  an immutable name or literal (may be substituted for a local that is bound to it)."""
    sort: typing.Optional[str] = None
    prop: typing.Optional[str] = None
    ac: typing.Optional[typing.Tuple[str, typing.List["T"]]] = None
    fresh: bool = False
    atom: bool = False
    tag: typing.Optional[str] = None  # type tag ("op", "oplist", "set", "int", ...) when known


def mk(s: str, sort: typing.Optional[str] = None, prop: typing.Optional[str] = None, ac=None, fresh: bool = False, atom: bool = False,
       tag: typing.Optional[str] = None) -> T:
    t = T(s)
    t.sort, t.prop, t.ac, t.fresh, t.atom, t.tag = sort, prop, ac, fresh, atom, tag
    return t


def indent(lines: typing.Iterable[str], k: int) -> typing.List[str]:
    """Statements are strings whose continuation lines are indented *relative* to their first line; indenting a block therefore
    indents every physical line."""
    pad = " " * k
    return [pad + s.replace("\n", "\n" + pad) for s in lines]


class Ctx:
    """Counters shared by all translators that work on one target (temporaries must be unique across inlined helpers)."""

    def __init__(self, group: dict, module_funcs: typing.Dict[str, ast.FunctionDef], classes: typing.Dict[str, ast.ClassDef],
                 fields: typing.Dict[str, typing.Dict[str, typing.Tuple[str, str]]]):
        self.group = group
        self.module_funcs = module_funcs
        self.classes = classes
        self.fields = fields  # class -> python attribute -> (lean name, type)
        self.tmp = 0
        self.acc = 0
        self.helpers = 0
        self.stack: typing.List[str] = []

    def fresh_tmp(self) -> str:
        self.tmp += 1
        return "t%d" % self.tmp

    def fresh_acc(self) -> str:
        self.acc += 1
        return "c%d" % self.acc


class FnTranslator:
    """Translates one function body.  Expressions are translated to *pure* Lean terms; every sub-expression that may raise
    (or that calls an interface method) is hoisted, in evaluation order, into a monadic `let t ← …` in front of the statement."""

    def __init__(self, ctx: Ctx, cls: typing.Optional[str], suffix: str = ""):
        self.ctx = ctx
        self.group = ctx.group
        self.cls = cls
        self.fields = ctx.fields.get(cls, {}) if cls else {}
        self.suffix = suffix
        self.types: typing.Dict[str, str] = {}        # python local -> type tag
        self.names: typing.Dict[str, str] = {}        # python local in scope -> lean identifier
        self.subst: typing.Dict[str, T] = {}          # python local bound once to an atom -> that atom (copy propagation)
        self.thunks: typing.Dict[str, typing.Tuple[ast.AST, "FnTranslator"]] = {}  # parameter bound to a generator expression
        self.fresh_sets: typing.Set[str] = set()      # python locals that hold a set object created here
        self.mut: typing.Set[str] = set()             # python locals assigned more than once
        self.pre: typing.List[str] = []
        self.returns_fresh = True
        self.return_sorts: typing.Set[typing.Optional[str]] = set()

    # --- helpers
    def child(self) -> "FnTranslator":
        """A translator for a nested scope (lambda, comprehension, loop body): sees everything, leaks nothing."""
        sub = FnTranslator(self.ctx, self.cls, self.suffix)
        sub.types, sub.names, sub.subst = dict(self.types), dict(self.names), dict(self.subst)
        sub.thunks, sub.fresh_sets, sub.mut = dict(self.thunks), set(self.fresh_sets), set(self.mut)
        return sub

    def take_pre(self) -> typing.List[str]:
        p, self.pre = self.pre, []
        return p

    def bind(self, mexpr: str, sort: typing.Optional[str] = "nat", tag: typing.Optional[str] = None, fresh: bool = False) -> T:
        v = self.ctx.fresh_tmp()
        self.pre.append("let %s ← %s" % (v, mexpr))
        return mk(v, sort=sort, atom=True, tag=tag, fresh=fresh)

    def declare(self, pyname: str, tag: typing.Optional[str] = None, uniq: str = "") -> str:
        """Brings a Python local into scope and returns its Lean identifier (never one of the fields' / temporaries' names)."""
        taken = {ln for (ln, _) in self.fields.values()} | {v for k, v in self.names.items() if k != pyname}
        ln = lname(pyname) + self.suffix + uniq
        while ln in taken:
            ln += "'"
        self.names[pyname] = ln
        self.subst.pop(pyname, None)
        self.thunks.pop(pyname, None)
        if tag:
            self.types[pyname] = tag
        else:
            self.types.pop(pyname, None)
        return ln

    def self_call(self, meth: str, args: typing.List[str]) -> str:
        assert self.cls
        fl = " ".join(ln for (ln, _) in self.fields.values())
        return ("Gen.%s.%s %s %s" % (self.cls, meth, fl, " ".join(args))).strip()

    def typeof(self, n: ast.AST) -> typing.Optional[str]:
        if isinstance(n, ast.Name):
            if n.id in self.subst:
                return self.subst[n.id].tag
            return self.types.get(n.id)
        if isinstance(n, ast.Attribute) and isinstance(n.value, ast.Name) and n.value.id == "self" and n.attr in self.fields:
            return self.fields[n.attr][1]
        return None

    @staticmethod
    def sort_of_tag(tag: typing.Optional[str]) -> typing.Optional[str]:
        return {"int": "nat", "bool": "bool"}.get(tag or "")

    def nat(self, t: T) -> T:
        """A value that has to be a natural from here on (stored in a local, returned, passed on): leaving `Int` is checked."""
        if t.sort == "int":
            return self.bind("Py.toNat %s" % t)
        return t

    @staticmethod
    def to_int(t: T) -> str:
        return str(t) if t.sort == "int" else "(%s : Int)" % t

    def need_bool(self, t: T, what: str) -> T:
        if t.sort != "bool":
            raise Untranslatable("%s: not a boolean expression (truthiness of other values is outside the fragment)" % what)
        return t

    # --- expressions
    def e(self, n: ast.AST) -> T:
        if isinstance(n, ast.Constant):
            if isinstance(n.value, bool):
                return mk("true" if n.value else "false", sort="bool", prop="True" if n.value else "False", atom=True)
            if isinstance(n.value, int) and n.value >= 0:
                return mk("(%d : Nat)" % n.value, sort="nat", atom=True, tag="int")
            raise Untranslatable("constant %r" % (n.value,))
        if isinstance(n, ast.Name):
            if n.id in self.thunks:
                raise Untranslatable("generator `%s` used other than as the iterable of one loop / comprehension / reduction" % n.id)
            if n.id in self.subst:
                return self.subst[n.id]
            if n.id in self.names:
                tag = self.types.get(n.id)
                # Reading a local that holds a set created here may give the object a second name (`b = out`); from then on
                # in-place mutation is no longer the same as rebinding, so the local stops being mutable for the translation.
                # (Reads that only consume the value -- `return out`, iterating, reductions -- go through `consume`.)
                self.fresh_sets.discard(n.id)
                return mk(self.names[n.id], sort=self.sort_of_tag(tag), atom=n.id not in self.mut, tag=tag)
            raise Untranslatable("name `%s` is not a parameter or a definitely assigned local" % n.id)
        if isinstance(n, ast.Attribute):
            return self.attr(n)
        if isinstance(n, ast.BinOp):
            return self.binop(n)
        if isinstance(n, ast.UnaryOp):
            if isinstance(n.op, ast.Not):
                return self.negate(self.need_bool(self.e(n.operand), "not"))
            if isinstance(n.op, ast.USub):
                a = self.e(n.operand)
                if a.sort not in ("nat", "int"):
                    raise Untranslatable("unary minus on a non-integer")
                return mk("(-%s)" % self.to_int(a), sort="int")
            if isinstance(n.op, ast.UAdd):
                a = self.e(n.operand)
                if a.sort not in ("nat", "int"):
                    raise Untranslatable("unary plus on a non-integer")
                return a
            raise Untranslatable("unary operator %s" % type(n.op).__name__)
        if isinstance(n, ast.Compare):
            return self.compare(n)
        if isinstance(n, ast.BoolOp):
            # `and` / `or` on booleans; operands that may raise are hoisted, which is sound only when they cannot raise
            # after short-circuiting matters -- so such operands are refused.  Value-equal forms get one spelling.
            before = len(self.pre)
            vals: typing.List[T] = []
            sym = " && " if isinstance(n.op, ast.And) else " || "
            for v in n.values:
                t = self.need_bool(self.e(v), "and / or")
                if t.ac and t.ac[0] == sym:
                    vals += t.ac[1]
                else:
                    vals.append(t)
            if len(self.pre) != before:
                raise Untranslatable("short-circuit operator with raising operands")
            return self.boolop(sym, vals)
        if isinstance(n, ast.IfExp):
            before = len(self.pre)
            c, a, b = self.need_bool(self.e(n.test), "conditional expression"), self.e(n.body), self.e(n.orelse)
            if len(self.pre) != before:
                raise Untranslatable("conditional expression with raising operands")
            return self.ite(c, a, b)
        if isinstance(n, ast.Call):
            return self.call(n)
        if isinstance(n, ast.SetComp):
            return self.set_builder(n.generators, n.elt, self)
        if isinstance(n, (ast.GeneratorExp, ast.ListComp)):
            return self.comp(n, self)
        raise Untranslatable(type(n).__name__)

    def consume(self, n: ast.AST) -> T:
        """`e(n)` for a position that only reads the value now and keeps no reference to the object."""
        if isinstance(n, ast.Name) and n.id in self.fresh_sets:
            t = self.e(n)
            self.fresh_sets.add(n.id)
            return t
        return self.e(n)

    def ite(self, c: T, a: T, b: T) -> T:
        if a.sort == "int" or b.sort == "int":
            a, b = mk(self.to_int(a), sort="int"), mk(self.to_int(b), sort="int")
        sort = a.sort if a.sort == b.sort else None
        return mk("(if %s then %s else %s)" % (c.prop or c, a, b), sort=sort, tag=a.tag if a.tag == b.tag else None)

    def boolop(self, sym: str, vals: typing.List[T]) -> T:
        uniq = sorted(set(vals), key=str)
        if len(uniq) == 1:
            return uniq[0]
        return mk("(" + sym.join(uniq) + ")", sort="bool", ac=(sym, uniq))

    def negate(self, t: T) -> T:
        """`not t` in canonical form: negations are pushed to the comparisons (`not a < b` is `b <= a` on ints)."""
        neg = getattr(t, "neg", None)
        if neg is not None:
            return neg()
        if t.ac and t.ac[0] in (" && ", " || "):
            return self.boolop(" || " if t.ac[0] == " && " else " && ", [self.negate(x) for x in t.ac[1]])
        if str(t) in ("true", "false"):
            return mk("false" if str(t) == "true" else "true", sort="bool", atom=True)
        r = mk("(!%s)" % t, sort="bool")
        r.neg = lambda: t  # type: ignore[attr-defined]
        return r

    def cmp(self, sym: str, a: T, b: T) -> T:
        """One comparison in canonical spelling: only `<`, `≤`, `==`, `!=`; operands of the symmetric ones sorted."""
        if a.sort not in ("nat", "int") or b.sort not in ("nat", "int"):
            if sym not in ("==", "!="):
                raise Untranslatable("ordering comparison of non-integers")
            if a.sort != b.sort or a.sort is not None:
                raise Untranslatable("comparison of values of different kinds")
            raise Untranslatable("comparison of sets / lists (identity of duplicate-free lists is not set equality)")
        if a.sort == "int" or b.sort == "int":
            a, b = mk(self.to_int(a)), mk(self.to_int(b))
        if sym == ">":
            sym, a, b = "<", b, a
        elif sym == "≥":
            sym, a, b = "≤", b, a
        if sym in ("==", "!=") and str(b) < str(a):
            a, b = b, a
        if sym in ("==", "!="):
            r = mk("(%s %s %s)" % (a, sym, b), sort="bool", prop="%s %s %s" % (a, "=" if sym == "==" else "≠", b))
            r.neg = lambda: self.cmp("!=" if sym == "==" else "==", a, b)  # type: ignore[attr-defined]
        else:
            r = mk("(decide (%s %s %s))" % (a, sym, b), sort="bool", prop="%s %s %s" % (a, sym, b))
            r.neg = lambda: self.cmp("≤" if sym == "<" else "<", b, a)  # type: ignore[attr-defined]
        return r

    def compare(self, n: ast.Compare) -> T:
        parts: typing.List[T] = []
        left = self.e(n.left)
        for i, (op, c) in enumerate(zip(n.ops, n.comparators)):
            before = len(self.pre)
            r = self.e(c)
            if i > 0 and len(self.pre) != before:
                raise Untranslatable("comparison chain with raising operands (the chain short-circuits)")
            sym = {ast.Eq: "==", ast.NotEq: "!=", ast.LtE: "≤", ast.Lt: "<", ast.GtE: "≥", ast.Gt: ">"}.get(type(op))
            if sym is None:
                raise Untranslatable("comparison %s" % type(op).__name__)
            parts.append(self.cmp(sym, left, r))
            left = r
        return parts[0] if len(parts) == 1 else self.boolop(" && ", parts)

    def binop(self, n: ast.BinOp) -> T:
        a, b = self.e(n.left), self.e(n.right)
        if isinstance(n.op, ast.BitOr) and a.tag == "set" and b.tag == "set":
            return mk("(Py.setUnion %s %s)" % (a, b), fresh=True, tag="set")  # a new set object
        for x in (a, b):
            if x.sort not in ("nat", "int"):
                raise Untranslatable("arithmetic on a non-integer (%s)" % type(n.op).__name__)
        if a.sort == "int" or b.sort == "int":
            ai, bi = self.to_int(a), self.to_int(b)
            if isinstance(n.op, ast.Mod):
                return self.bind("Py.imod %s %s" % (ai, bi), sort="int")
            if isinstance(n.op, ast.FloorDiv):
                return self.bind("Py.ifloordiv %s %s" % (ai, bi), sort="int")
            sym = {ast.Add: "+", ast.Sub: "-", ast.Mult: "*"}.get(type(n.op))
            if sym is None:
                raise Untranslatable("operator %s below a unary minus" % type(n.op).__name__)
            return mk("(%s %s %s)" % (ai, sym, bi), sort="int")
        if isinstance(n.op, ast.Mod):
            return self.bind("Py.mod %s %s" % (a, b))
        if isinstance(n.op, ast.FloorDiv):
            return self.bind("Py.floordiv %s %s" % (a, b))
        if isinstance(n.op, ast.Sub):
            return self.bind("Py.sub %s %s" % (a, b))
        if isinstance(n.op, ast.Pow):
            return mk("(%s ^ %s)" % (a, b), sort="nat")
        if isinstance(n.op, (ast.Add, ast.Mult)):
            sym = "+" if isinstance(n.op, ast.Add) else "*"
            ops: typing.List[T] = []
            for x in (a, b):  # sums / products of naturals are flattened and sorted: one spelling for all reorderings
                ops += x.ac[1] if (x.ac and x.ac[0] == sym) else [x]
            ops.sort(key=str)
            return mk("(" + (" %s " % sym).join(ops) + ")", sort="nat", ac=(sym, ops))
        raise Untranslatable("operator %s" % type(n.op).__name__)

    def attr(self, n: ast.Attribute) -> T:
        if isinstance(n.value, ast.Name) and n.value.id == "self" and "self" not in self.names:
            if not self.cls:
                raise Untranslatable("self outside a class")
            if n.attr in self.fields:
                ln, ty = self.fields[n.attr]
                return mk(ln, sort=self.sort_of_tag(ty), atom=True, tag=ty)
            if n.attr in self.group["classes"][self.cls]["methods"]:  # own public property
                kind = self.group["iface"][n.attr][0]
                if kind != "prop":
                    raise Untranslatable("bound method self.%s used as a value" % n.attr)
                return self.bind(self.self_call(n.attr, []), tag=self.group["iface"][n.attr][1])
            fn = self.find_method(n.attr)
            if fn is not None and self.decorators(fn) == ["property"]:
                return self.inline(fn, [], [], method=True)
            raise Untranslatable("self.%s" % n.attr)
        if n.attr in self.group.get("iface", {}) and self.group["iface"][n.attr][0] == "prop":
            o = self.e(n.value)
            if o.tag != "op":
                raise Untranslatable("attribute .%s of something that is not an operator" % n.attr)
            return self.bind("(%s).%s" % (o, n.attr), tag=self.group["iface"][n.attr][1])
        raise Untranslatable("attribute .%s" % n.attr)

    # --- private helpers found through the call graph
    def find_method(self, name: str) -> typing.Optional[ast.FunctionDef]:
        cls = self.ctx.classes.get(self.cls or "")
        if cls is None:
            return None
        for f in cls.body:
            if isinstance(f, ast.FunctionDef) and f.name == name:
                return f
        return None

    @staticmethod
    def decorators(fn: ast.FunctionDef) -> typing.List[str]:
        return [ast.unparse(d) for d in fn.decorator_list]

    def inline(self, fn: ast.FunctionDef, args: typing.List[ast.AST], keywords: typing.List[ast.keyword], method: bool) -> T:
        """A call of a private method / module-level function of the translated file: the callee's body becomes a nested `do`
        block (its own `return` scope) at the place of the call.  Arguments are evaluated first, left to right (call by value);
        an argument that is a generator expression stays unevaluated and is fused into the single loop that consumes it."""
        ctx = self.ctx
        key = ("%s." % self.cls if method else "") + fn.name
        if key in ctx.stack:
            raise Untranslatable("recursive helper %s" % key)
        decos = self.decorators(fn)
        static = decos == ["staticmethod"]
        if decos and not static and decos != ["property"]:
            raise Untranslatable("decorated helper %s" % key)
        a = fn.args
        if a.vararg or a.kwarg or a.kwonlyargs or a.defaults or a.posonlyargs or a.kw_defaults:
            raise Untranslatable("helper %s: only plain positional parameters are supported" % key)
        params = [x.arg for x in a.args]
        if method and not static:
            if not params:
                raise Untranslatable("method %s without self" % key)
            params = params[1:]
        given: typing.Dict[str, ast.AST] = {}
        if len(args) > len(params) or any(isinstance(x, ast.Starred) for x in args):
            raise Untranslatable("call of %s: arguments" % key)
        for p, x in zip(params, args):
            given[p] = x
        order = params[:len(args)]
        for kw in keywords:
            if kw.arg is None or kw.arg not in params or kw.arg in given:
                raise Untranslatable("call of %s: keyword arguments" % key)
            given[kw.arg] = kw.value
            order.append(kw.arg)
        if set(given) != set(params):
            raise Untranslatable("call of %s: missing arguments" % key)
        ctx.helpers += 1
        sub = FnTranslator(ctx, self.cls if (method and not static) else None, "_h%d" % ctx.helpers)
        counts = count_assignments(fn.body)
        sub.mut = {k for k, v in counts.items() if v > 1} | {p for p in params if counts.get(p, 0) > 0}
        head: typing.List[str] = []
        for p in order:  # evaluation order of the call
            x = given[p]
            if isinstance(x, ast.GeneratorExp):
                if uses_of(fn.body, p) != 1 or p in counts:
                    raise Untranslatable("helper %s: generator argument `%s` is not consumed exactly once" % (key, p))
                sub.thunks[p] = (x, self)
                continue
            v = self.nat(self.e(x))
            if v.atom and p not in sub.mut:
                sub.subst[p] = v
            else:
                ln = sub.declare(p, v.tag)
                head.append("let %s%s := %s" % ("mut " if p in sub.mut else "", ln, v))
                if v.fresh:
                    sub.fresh_sets.add(p)  # a set built for this call only
        if not always_returns(fn.body):
            raise Untranslatable("helper %s: a path ends without `return`" % key)
        ctx.stack.append(key)
        try:
            body = sub.stmts(fn.body)
        finally:
            ctx.stack.pop()
        sorts = sub.return_sorts
        sort = next(iter(sorts)) if len(sorts) == 1 else None
        return self.bind("(do\n" + "\n".join(indent(head + body, 4)) + ")", sort=sort, fresh=sub.returns_fresh,
                         tag={"nat": "int", "bool": "bool"}.get(sort or ""))

    # --- comprehensions and loops
    def resolve_iter(self, node: ast.AST, scope: "FnTranslator") -> typing.Tuple[ast.AST, "FnTranslator"]:
        """A name bound to a generator-expression argument stands for that expression, read in the scope of the caller."""
        while isinstance(node, ast.Name) and node.id in scope.thunks:
            node, scope = scope.thunks[node.id]
        return node, scope

    @staticmethod
    def as_generators(node: ast.AST) -> typing.Optional[typing.Tuple[typing.List[ast.comprehension], ast.AST]]:
        """`(elt for …)`, `[elt for …]` and `map(f, xs)` as generators + element (None: not such an expression)."""
        if isinstance(node, (ast.GeneratorExp, ast.ListComp, ast.SetComp)):
            return node.generators, node.elt
        if (isinstance(node, ast.Call) and isinstance(node.func, ast.Name) and node.func.id == "map" and len(node.args) == 2
                and not node.keywords):
            fn, xs = node.args
            var = ast.Name(id="x", ctx=ast.Load())
            if isinstance(fn, ast.Lambda):
                la = fn.args
                if len(la.args) != 1 or la.vararg or la.kwarg or la.defaults or la.kwonlyargs:
                    raise Untranslatable("map with a lambda that does not take exactly one argument")
                return [ast.comprehension(target=ast.Name(id=la.args[0].arg, ctx=ast.Store()), iter=xs, ifs=[], is_async=0)], fn.body
            if isinstance(fn, (ast.Name, ast.Attribute)):
                free = {m.id for m in ast.walk(node) if isinstance(m, ast.Name)}
                while var.id in free:
                    var = ast.Name(id=var.id + "_", ctx=ast.Load())
                call = ast.Call(func=fn, args=[var], keywords=[])
                return [ast.comprehension(target=ast.Name(id=var.id, ctx=ast.Store()), iter=xs, ifs=[], is_async=0)], call
            raise Untranslatable("map with %s" % ast.unparse(fn))
        return None

    def loop_over(self, gens: typing.List[ast.comprehension], scope: "FnTranslator", state: str,
                  body: typing.Callable[["FnTranslator"], typing.List[str]], mut_state: typing.List[str],
                  uniq: str = "") -> typing.List[str]:
        """Statements that run `body` for every element the generators produce (exactly the nested `for` / `if` a comprehension
        means), threading the loop-carried `state` through `Py.forEach`.  `scope` is the translator in whose scope the generators
        are read (the caller's, for a generator argument); the statements are emitted for `self`."""
        g = gens[0]
        if getattr(g, "is_async", 0):
            raise Untranslatable("async comprehension")
        if not isinstance(g.target, ast.Name):
            raise Untranslatable("loop / comprehension target that is not a plain name")
        inner_node, inner_scope = self.resolve_iter(g.iter, scope)
        gg = self.as_generators(inner_node)
        if gg is not None and not isinstance(inner_node, ast.SetComp):
            # `for v in (elt for …)`: one fused loop, the element is computed where the generator would yield it; the
            # generator's own variables get names nothing else uses (they must not hide a local of the loop body)
            self.ctx.helpers += 1
            uniq_inner = "_g%d" % self.ctx.helpers

            def fused(s2: "FnTranslator", g=g, gens=gens, gg=gg, scope=scope) -> typing.List[str]:
                v = s2.nat(s2.e(gg[1]))
                lines = s2.take_pre()
                return lines + self.bind_target(g, gens, scope, v, state, body, mut_state)
            return self.loop_over(gg[0], inner_scope, state, fused, mut_state, uniq_inner)
        scope.pre, saved = [], scope.pre
        try:
            it = scope.consume(inner_node)
            lines = scope.take_pre()
        finally:
            scope.pre = saved
        sub = scope.child()
        elem_tag = {"oplist": "op", "setlist": "set", "set": "int", "list": "int"}.get(it.tag or "")
        var = sub.declare(g.target.id, elem_tag, uniq)
        inner = self.after_target(g, gens, sub, state, body, mut_state, uniq)
        lines.append("%s ← Py.forEach %s %s (fun %s %s => do" % (state, it, state, state, var))
        lines += indent(["let mut %s := %s" % (m, m) for m in mut_state] + inner + ["pure %s" % state], 4)
        lines[-1] += ")"
        return lines

    def bind_target(self, g, gens, outer: "FnTranslator", v: T, state, body, mut_state) -> typing.List[str]:
        sub = outer.child()
        if v.atom:
            sub.names.pop(g.target.id, None)
            sub.thunks.pop(g.target.id, None)
            sub.subst[g.target.id] = v
            lines: typing.List[str] = []
        else:
            lines = ["let %s := %s" % (sub.declare(g.target.id, v.tag), v)]
        return lines + self.after_target(g, gens, sub, state, body, mut_state)

    def after_target(self, g, gens, sub: "FnTranslator", state, body, mut_state, uniq: str = "") -> typing.List[str]:
        conds: typing.List[T] = []
        lines: typing.List[str] = []
        for c in g.ifs:
            t = sub.need_bool(sub.e(c), "comprehension condition")
            if sub.pre:
                raise Untranslatable("raising comprehension condition")
            conds.append(t)
        if len(gens) > 1:
            inner = self.loop_over(gens[1:], sub, state, body, mut_state, uniq)
        else:
            inner = body(sub)
        if conds:
            c = sub.boolop(" && ", conds)
            inner = ["if %s then" % (c.prop or c)] + indent(inner, 2)
        return lines + inner

    def set_builder(self, gens: typing.List[ast.comprehension], elt: ast.AST, scope: "FnTranslator") -> T:
        """`{elt for …}`, `set(elt for …)`, `set(map(f, xs))`: ONE form, the accumulation loop that the comprehension means."""
        acc = self.ctx.fresh_acc()

        def body(s: "FnTranslator") -> typing.List[str]:
            v = s.nat(s.e(elt))
            if v.sort != "nat":
                raise Untranslatable("set of non-integers")
            return s.take_pre() + ["%s := Py.setAdd %s %s" % (acc, acc, v)]

        lines = ["let mut %s := ([] : List Nat)" % acc] + self.loop_over(gens, scope, acc, body, [acc])
        self.pre += lines
        return mk(acc, fresh=True, tag="set")

    def eval_in(self, scope: "FnTranslator", fn: typing.Callable[["FnTranslator"], T]) -> T:
        """Evaluates in another scope (the caller's, for a generator argument); what has to be hoisted is hoisted here."""
        if scope is self:
            return fn(self)
        saved, scope.pre = scope.pre, []
        try:
            r = fn(scope)
            self.pre += scope.pre
        finally:
            scope.pre = saved
        return r

    def comp(self, n: ast.AST, scope: "FnTranslator") -> T:
        return self.eval_in(scope, lambda s: s.comp_here(n))

    def comp_here(self, n: ast.AST) -> T:
        """A list comprehension / generator expression / `map` as the list of its elements, in order (`mapM`)."""
        gg = self.as_generators(n)
        assert gg is not None
        gens, elt = gg
        if len(gens) != 1:
            raise Untranslatable("list comprehension / generator with several `for`")
        g = gens[0]
        if not isinstance(g.target, ast.Name):
            raise Untranslatable("comprehension target")
        it = self.iterable(g.iter)
        sub = self.child()
        elem_tag = {"oplist": "op", "setlist": "set", "set": "int", "list": "int"}.get(it.tag or "")
        var = sub.declare(g.target.id, elem_tag)
        its = str(it)
        for cond in g.ifs:
            c = sub.need_bool(sub.e(cond), "comprehension condition")
            if sub.pre:
                raise Untranslatable("raising comprehension condition")
            its = "(%s).filter (fun %s => %s)" % (its, var, c)
        b = sub.nat(sub.e(elt))
        out_tag = {"int": "list", "set": "setlist"}.get(b.tag or ("int" if b.sort == "nat" else ""))
        if sub.pre:
            lam = "(fun %s => do\n%s)" % (var, "\n".join(indent(sub.take_pre() + ["pure %s" % b], 6)))
            return self.bind("(%s).mapM %s" % (its, lam), sort=None, tag=out_tag)
        return mk("((%s).map (fun %s => %s))" % (its, var, b), tag=out_tag)

    def iterable(self, n: ast.AST) -> T:
        """The argument of a reduction (`sum`, `min`, `max`, `set`, `sorted`, `list`, `len`): a value, or a generator in place."""
        node, scope = self.resolve_iter(n, self)
        if self.as_generators(node) is not None and not isinstance(node, ast.SetComp):
            return self.comp(node, scope)
        if scope is not self:
            raise Untranslatable("generator argument bound to something that is not a generator expression")
        return self.consume(node)

    def call(self, n: ast.Call) -> T:
        f = n.func
        if isinstance(f, ast.Name) and f.id not in self.names and f.id not in self.subst:
            if f.id in self.ctx.module_funcs:
                return self.inline(self.ctx.module_funcs[f.id], n.args, n.keywords, method=False)
            if n.keywords:
                raise Untranslatable("keyword arguments")
            if f.id in ("min", "max"):
                if len(n.args) == 2:
                    a, b = self.nat(self.e(n.args[0])), self.nat(self.e(n.args[1]))
                    if a.sort != "nat" or b.sort != "nat":
                        raise Untranslatable("%s of non-integers" % f.id)
                    a, b = sorted((a, b), key=str)
                    return mk("(%s %s %s)" % (f.id, a, b), sort="nat", tag="int")
                if len(n.args) == 1:
                    return self.bind("Py.%sOf %s" % (f.id, self.iterable(n.args[0])), tag="int")
            if f.id == "sum" and len(n.args) == 1:
                return mk("(Py.sum %s)" % self.iterable(n.args[0]), sort="nat", tag="int")
            if f.id == "set":
                if not n.args:
                    return mk("([] : List Nat)", fresh=True, tag="set")
                if len(n.args) == 1:
                    node, scope = self.resolve_iter(n.args[0], self)
                    gg = self.as_generators(node)
                    if gg is not None:
                        return self.set_builder(gg[0], gg[1], scope)
                    return mk("(Py.set %s)" % self.e(node), fresh=True, tag="set")
            if f.id in ("sorted", "list", "tuple", "frozenset") and len(n.args) == 1:
                t = self.iterable(n.args[0])  # order of a set is never observed by the translated fragment
                return mk(str(t), tag=t.tag)
            if f.id == "len" and len(n.args) == 1:
                return mk("(%s).length" % self.iterable(n.args[0]), sort="nat", tag="int")
            if f.id == "int" and len(n.args) == 1:
                t = self.e(n.args[0])
                if t.sort not in ("nat", "int"):
                    raise Untranslatable("int() of a non-integer")
                return t
            if f.id == "map" and len(n.args) == 2:
                return self.comp(n, self)
            if f.id == "range" and len(n.args) == 1:
                return mk("(Py.range %s)" % self.nat(self.e(n.args[0])), tag="list")
            if f.id == "isinstance" and len(n.args) == 2:
                self.e(n.args[0])
                return mk("true", sort="bool", prop="True", atom=True)
        if isinstance(f, ast.Attribute):
            if isinstance(f.value, ast.Name) and f.value.id == "itertools" and not n.keywords:
                if f.attr == "combinations_with_replacement" and len(n.args) == 2:
                    return mk("(Py.cwr %s %s)" % (self.iterable(n.args[0]), self.nat(self.e(n.args[1]))), tag="setlist")
                if f.attr == "product" and len(n.args) == 1 and isinstance(n.args[0], ast.Starred):
                    return mk("(Py.product %s)" % self.iterable(n.args[0].value), tag="setlist")
            if isinstance(f.value, ast.Name) and f.value.id == "math" and f.attr == "lcm" and len(n.args) == 2 and not n.keywords:
                a, b = sorted((self.nat(self.e(n.args[0])), self.nat(self.e(n.args[1]))), key=str)  # commutative: one spelling
                return mk("(Py.lcm %s %s)" % (a, b), sort="nat", tag="int")
            if isinstance(f.value, ast.Name) and f.value.id == "self" and "self" not in self.names:
                if self.cls and f.attr in self.group["classes"][self.cls]["methods"]:
                    kind, rty = self.group["iface"][f.attr]
                    if kind == "prop" or n.keywords:
                        raise Untranslatable("call of self.%s" % f.attr)
                    args = [str(self.nat(self.e(a))) for a in n.args]
                    return self.bind(self.self_call(f.attr, args), sort=self.sort_of_tag(rty), tag=rty)
                fn = self.find_method(f.attr)
                if fn is not None and self.decorators(fn) != ["property"]:
                    return self.inline(fn, n.args, n.keywords, method=True)
                raise Untranslatable("self.%s()" % f.attr)
            if n.keywords:
                raise Untranslatable("keyword arguments")
            if f.attr == "bit_length" and not n.args:
                return mk("(Py.bitLength %s)" % self.nat(self.e(f.value)), sort="nat", tag="int")
            iface = self.group.get("iface", {})
            if f.attr in iface and iface[f.attr][0] in ("method", "method0"):
                o = self.e(f.value)
                if o.tag != "op":
                    raise Untranslatable("method .%s of something that is not an operator" % f.attr)
                kind, rty = iface[f.attr]
                if kind == "method":
                    args = [str(self.nat(self.e(a))) for a in n.args]
                    if len(args) != 1:
                        raise Untranslatable("arguments of .%s" % f.attr)
                    return self.bind("(%s).%s %s" % (o, f.attr, " ".join(args)), sort=None, tag=rty)
                if n.args:
                    raise Untranslatable("arguments of .%s" % f.attr)
                return self.bind("(%s).%s ()" % (o, f.attr), sort=None, tag=rty)
        raise Untranslatable("call %s" % ast.unparse(f))

    # --- statements
    def assign(self, name: str, v: T, lines: typing.List[str]) -> None:
        v = self.nat(v)
        lines += self.take_pre()
        if name in self.thunks:
            raise Untranslatable("assignment to a generator parameter")
        if v.atom and name not in self.mut and name not in self.names:
            self.subst[name] = v  # copy propagation: the local is just another name of `v`
            if v.tag:
                self.types[name] = v.tag
            return
        if name in self.names and name in self.mut:
            lines.append("%s := %s" % (self.names[name], v))
            if v.tag:
                self.types[name] = v.tag
        else:
            ln = self.declare(name, v.tag or ("int" if v.sort == "nat" else "bool" if v.sort == "bool" else None))
            lines.append("let %s%s := %s" % ("mut " if name in self.mut else "", ln, v))
        if v.fresh:
            self.fresh_sets.add(name)
        else:
            self.fresh_sets.discard(name)

    def mutable_set(self, target: ast.AST, what: str) -> str:
        """In-place mutation is translated as rebinding, which is right only when nothing else can see the object: the target must be
        a local that holds a set created by this very function (never a result of a child / a parameter / an attribute)."""
        if not isinstance(target, ast.Name):
            raise Untranslatable("%s on something that is not a local" % what)
        if target.id not in self.names or target.id not in self.fresh_sets:
            raise Untranslatable("%s on `%s`, which may alias an object owned by someone else" % (what, target.id))
        return self.names[target.id]

    def stmts(self, body: typing.List[ast.stmt]) -> typing.List[str]:
        lines: typing.List[str] = []
        for s in body:
            if isinstance(s, ast.Expr) and isinstance(s.value, ast.Constant):
                continue  # docstring
            if isinstance(s, ast.Pass):
                continue
            if isinstance(s, ast.Assign) and len(s.targets) == 1 and isinstance(s.targets[0], ast.Name):
                self.assign_value(s.targets[0].id, s.value, lines)
            elif isinstance(s, ast.AnnAssign) and isinstance(s.target, ast.Name) and s.value is not None:
                self.assign_value(s.target.id, s.value, lines)
            elif isinstance(s, ast.Assign) and len(s.targets) == 1 and isinstance(s.targets[0], ast.Tuple):
                self.tuple_assign(s.targets[0], s.value, lines)
            elif isinstance(s, ast.AugAssign) and isinstance(s.target, ast.Name):
                if isinstance(s.op, ast.BitOr):
                    v = self.iterable(s.value)
                    lines += self.take_pre()
                    t = self.mutable_set(s.target, "|=")
                    lines.append("%s := Py.setUnion %s %s" % (t, t, v))
                    continue
                cur = self.e(s.target)
                if s.target.id not in self.names:
                    raise Untranslatable("augmented assignment to `%s`" % s.target.id)
                fake = ast.BinOp(left=s.target, op=s.op, right=s.value)
                v = self.nat(self.binop(fake))
                lines += self.take_pre()
                lines.append("%s := %s" % (self.names[s.target.id], v))
                _ = cur
            elif (isinstance(s, ast.Expr) and isinstance(s.value, ast.Call) and isinstance(s.value.func, ast.Attribute)
                  and s.value.func.attr in ("add", "update") and len(s.value.args) == 1 and not s.value.keywords):
                if s.value.func.attr == "add":
                    v = self.nat(self.e(s.value.args[0]))
                    if v.sort != "nat":
                        raise Untranslatable("set of non-integers")
                    op = "Py.setAdd"
                else:
                    v = self.iterable(s.value.args[0])
                    op = "Py.setUnion"
                lines += self.take_pre()
                t = self.mutable_set(s.value.func.value, "." + s.value.func.attr)
                lines.append("%s := %s %s %s" % (t, op, t, v))
            elif isinstance(s, ast.Assert):
                v = self.need_bool(self.e(s.test), "assert")  # the message is evaluated only when the assertion fails
                lines += self.take_pre()
                lines.append("Py.assert %s" % v)
            elif isinstance(s, ast.Raise):
                lines.append("throw %s" % self.exception(s))
            elif isinstance(s, ast.Return):
                if s.value is None:
                    raise Untranslatable("bare return")
                was_fresh = isinstance(s.value, ast.Name) and s.value.id in self.fresh_sets
                v = self.nat(self.consume(s.value))
                lines += self.take_pre()
                is_fresh = v.fresh or was_fresh  # the local dies here
                self.returns_fresh = self.returns_fresh and is_fresh
                self.return_sorts.add(v.sort)
                lines.append("return %s" % v)
            elif isinstance(s, ast.If):
                self.if_stmt(s, lines)
            elif isinstance(s, ast.For) and not s.orelse:
                self.for_stmt(s, lines)
            else:
                raise Untranslatable("statement %s" % type(s).__name__)
        return lines

    def assign_value(self, name: str, value: ast.AST, lines: typing.List[str]) -> None:
        self.assign(name, self.e(value), lines)

    def tuple_assign(self, target: ast.Tuple, value: ast.AST, lines: typing.List[str]) -> None:
        names = [t.id for t in target.elts if isinstance(t, ast.Name)]
        if len(names) != len(target.elts) or len(set(names)) != len(names):
            raise Untranslatable("unpacking into anything but distinct plain names")
        if isinstance(value, ast.Tuple) and len(value.elts) == len(names) and not any(isinstance(x, ast.Starred) for x in value.elts):
            vals = [self.nat(self.e(x)) for x in value.elts]  # all right-hand sides first, left to right
            lines += self.take_pre()
            tmps = []
            for v in vals:
                if v.atom:
                    tmps.append(v)
                else:
                    t = self.ctx.fresh_tmp()
                    lines.append("let %s := %s" % (t, v))
                    tmps.append(mk(t, sort=v.sort, atom=True, tag=v.tag, fresh=v.fresh))
            for nme, v in zip(names, tmps):
                if str(v) in self.names.values() and not v.fresh:
                    v = mk(str(v), sort=v.sort, atom=False, tag=v.tag)
                self.assign(nme, v, lines)
            return
        if (isinstance(value, ast.Call) and isinstance(value.func, ast.Name) and value.func.id == "divmod" and len(value.args) == 2
                and not value.keywords and len(names) == 2 and "divmod" not in self.names):
            a, b = self.nat(self.e(value.args[0])), self.nat(self.e(value.args[1]))
            if a.sort != "nat" or b.sort != "nat":
                raise Untranslatable("divmod of non-integers")
            t = self.bind("Py.divmod %s %s" % (a, b), sort=None)
            self.assign(names[0], mk("%s.1" % t, sort="nat", tag="int"), lines)
            self.assign(names[1], mk("%s.2" % t, sort="nat", tag="int"), lines)
            return
        raise Untranslatable("unpacking of %s" % type(value).__name__)

    def exception(self, s: ast.Raise) -> str:
        if s.exc is None or s.cause is not None:
            raise Untranslatable("re-raise / raise from")
        c = s.exc.func if isinstance(s.exc, ast.Call) else s.exc
        if not isinstance(c, ast.Name):
            raise Untranslatable("raise of %s" % ast.unparse(c))
        return {"ValueError": ".valueError", "AssertionError": ".assertion", "TypeError": ".typeError", "KeyError": ".keyError",
                "ZeroDivisionError": ".zeroDivision"}.get(c.id, "(.other %s)" % lean_str(c.id))

    def if_stmt(self, s: ast.If, lines: typing.List[str]) -> None:
        c = self.need_bool(self.e(s.test), "if")
        lines += self.take_pre()
        if str(c) == "true" and c.atom:
            lines += self.stmts(s.body)  # `if isinstance(x, <declared type>)`
            return
        conv = self.if_convert(s, c)
        if conv is not None:
            lines += conv
            return
        before = set(self.names) | set(self.subst)
        branches = []
        for blk in (s.body, s.orelse):
            sub = self.child()
            sub.returns_fresh, sub.return_sorts = True, set()
            branches.append((sub, sub.stmts(blk) if blk else []))
            self.fresh_sets &= sub.fresh_sets
            self.returns_fresh = self.returns_fresh and sub.returns_fresh
            self.return_sorts |= sub.return_sorts
        for name in assigned_in(s.body) | assigned_in(s.orelse):
            # a local first assigned under a condition is not definitely assigned afterwards; one that was reassigned keeps
            # its (mutable) binding but loses what was known about the object it holds
            if name not in before:
                self.names.pop(name, None)
                self.subst.pop(name, None)
            if name in plainly_assigned(s.body) | plainly_assigned(s.orelse):
                self.fresh_sets.discard(name)
                if name in self.subst:
                    raise Untranslatable("conditional reassignment of `%s`" % name)
        lines.append("if %s then" % (c.prop or c))
        lines += indent(branches[0][1] or ["pure ()"], 2)
        if s.orelse:
            lines.append("else")
            lines += indent(branches[1][1] or ["pure ()"], 2)

    def if_convert(self, s: ast.If, c: T) -> typing.Optional[typing.List[str]]:
        """`if c: x = a [else: x = b]` with non-raising right-hand sides is the assignment `x = a if c else b` (one term instead of
        two copies of everything that follows).  Only when no right-hand side reads a local that the statement assigns (other than
        its own target), so that the order of the assignments cannot matter."""
        def simple(blk: typing.List[ast.stmt]) -> typing.Optional[typing.Dict[str, ast.AST]]:
            out: typing.Dict[str, ast.AST] = {}
            for st in blk:
                if isinstance(st, ast.Pass):
                    continue
                if not (isinstance(st, ast.Assign) and len(st.targets) == 1 and isinstance(st.targets[0], ast.Name)):
                    return None
                if st.targets[0].id in out:
                    return None
                out[st.targets[0].id] = st.value
            return out
        a, b = simple(s.body), simple(s.orelse)
        if a is None or b is None or not (a or b):
            return None
        targets = list(a) + [k for k in b if k not in a]
        for k, v in list(a.items()) + list(b.items()):
            reads = {m.id for m in ast.walk(v) if isinstance(m, ast.Name)}
            if reads & (set(targets) - {k}):
                return None
        reads_c = {m.id for m in ast.walk(s.test) if isinstance(m, ast.Name)}
        if len(targets) > 1 and reads_c & set(targets):
            return None
        for k in targets:
            if k in self.thunks:
                return None
            if not (k in a and k in b) and k not in self.names and k not in self.subst:
                return None  # not definitely assigned afterwards
        probe = self.child()
        vals: typing.Dict[str, typing.Tuple[T, T]] = {}
        try:
            for k in targets:
                cur = probe.e(ast.Name(id=k, ctx=ast.Load())) if (k in self.names or k in self.subst) else None
                va = probe.nat(probe.e(a[k])) if k in a else cur
                vb = probe.nat(probe.e(b[k])) if k in b else cur
                assert va is not None and vb is not None
                vals[k] = (va, vb)
        except Untranslatable:
            return None
        if probe.pre:
            return None  # a right-hand side may raise: keep the statement form
        lines: typing.List[str] = []
        for k in targets:
            va, vb = vals[k]
            self.assign(k, self.ite(c, va, vb), lines)
        return lines

    def for_stmt(self, s: ast.For, lines: typing.List[str]) -> None:
        if not isinstance(s.target, ast.Name):
            raise Untranslatable("loop target that is not a plain name")
        if contains(s.body, (ast.Return, ast.Break, ast.Continue)):
            raise Untranslatable("return / break / continue inside a for loop")
        carried = sorted(v for v in assigned_in(s.body) if v in self.names)
        if not carried:
            raise Untranslatable("for loop without loop-carried state")
        for v in carried:
            if v not in self.mut:
                raise Untranslatable("loop-carried `%s` is not a mutable local" % v)
        for v in plainly_assigned(s.body):
            self.fresh_sets.discard(v)  # rebound somewhere in the loop: from the second iteration on it may hold anything
        ln = [self.names[v] for v in carried]
        state = ln[0] if len(ln) == 1 else "(" + ", ".join(ln) + ")"
        gen = ast.comprehension(target=s.target, iter=s.iter, ifs=[], is_async=0)

        lost: typing.Set[str] = set()

        def body(sub: "FnTranslator") -> typing.List[str]:
            before = set(sub.fresh_sets)
            r = sub.stmts(s.body)
            lost.update(before - sub.fresh_sets)
            return r

        lines += self.take_pre()
        saved = (self.ctx.tmp, self.ctx.acc, self.ctx.helpers, set(self.fresh_sets))
        self.loop_over([gen], self, state, body, ln)  # probe: an alias made in one iteration is mutated in the next
        self.ctx.tmp, self.ctx.acc, self.ctx.helpers, self.fresh_sets = saved
        self.pre = []
        self.fresh_sets -= lost
        lines += self.loop_over([gen], self, state, body, ln)
        self.fresh_sets -= lost


def assigned_in(body: typing.List[ast.stmt]) -> typing.Set[str]:
    out: typing.Set[str] = set()
    for n in ast.walk(ast.Module(body=body, type_ignores=[])):
        if isinstance(n, ast.Assign):
            for t in n.targets:
                out |= {m.id for m in ast.walk(t) if isinstance(m, ast.Name)}
        elif isinstance(n, (ast.AugAssign, ast.AnnAssign)) and isinstance(n.target, ast.Name):
            out.add(n.target.id)
        elif (isinstance(n, ast.Call) and isinstance(n.func, ast.Attribute) and n.func.attr in ("add", "update")
              and isinstance(n.func.value, ast.Name)):
            out.add(n.func.value.id)
    return out


def plainly_assigned(body: typing.List[ast.stmt]) -> typing.Set[str]:
    """Names rebound by `=` (as opposed to mutated in place)."""
    out: typing.Set[str] = set()
    for n in ast.walk(ast.Module(body=body, type_ignores=[])):
        if isinstance(n, ast.Assign):
            for t in n.targets:
                out |= {m.id for m in ast.walk(t) if isinstance(m, ast.Name)}
        elif isinstance(n, ast.AnnAssign) and isinstance(n.target, ast.Name):
            out.add(n.target.id)
    return out


def contains(body: typing.List[ast.stmt], kinds) -> bool:
    return any(isinstance(n, kinds) for n in ast.walk(ast.Module(body=body, type_ignores=[])))


def uses_of(body: typing.List[ast.stmt], name: str) -> int:
    """Number of places that read `name`; a place inside a loop / comprehension / lambda counts as many."""
    def walk(n: ast.AST, weight: int) -> int:
        total = 0
        if isinstance(n, ast.Name) and n.id == name and isinstance(n.ctx, ast.Load):
            total += weight
        for field, value in ast.iter_fields(n):
            kids = value if isinstance(value, list) else [value]
            for k in kids:
                if not isinstance(k, ast.AST):
                    continue
                w = weight
                if isinstance(n, (ast.For, ast.While)) and field in ("body", "orelse"):
                    w = 2
                if isinstance(n, ast.Lambda) or (isinstance(n, (ast.ListComp, ast.SetComp, ast.GeneratorExp, ast.DictComp))
                                                  and not (field == "generators" and k is value[0])):
                    w = 2
                if isinstance(n, ast.comprehension) and field != "iter":
                    w = 2
                total += walk(k, w)
        return total
    return sum(walk(s, 1) for s in body)


def always_returns(body: typing.List[ast.stmt]) -> bool:
    if not body:
        return False
    last = body[-1]
    if isinstance(last, (ast.Return, ast.Raise)):
        return True
    if isinstance(last, ast.If):
        return always_returns(last.body) and always_returns(last.orelse)
    return False


def count_assignments(body: typing.List[ast.stmt]) -> typing.Dict[str, int]:
    cnt: typing.Dict[str, int] = {}

    def bump(name: str, k: int) -> None:
        cnt[name] = cnt.get(name, 0) + k
    for n in ast.walk(ast.Module(body=body, type_ignores=[])):
        if isinstance(n, ast.Assign):
            for t in n.targets:
                for m in ast.walk(t):
                    if isinstance(m, ast.Name):
                        bump(m.id, 1)
        elif isinstance(n, ast.AnnAssign) and isinstance(n.target, ast.Name) and n.value is not None:
            bump(n.target.id, 1)
        elif isinstance(n, (ast.AugAssign,)) and isinstance(n.target, ast.Name):
            bump(n.target.id, 2)
        elif (isinstance(n, ast.Call) and isinstance(n.func, ast.Attribute) and n.func.attr in ("add", "update")
              and isinstance(n.func.value, ast.Name)):
            bump(n.func.value.id, 2)
        elif isinstance(n, (ast.For, ast.If)):
            for v in assigned_in(n.body) | assigned_in(n.orelse):
                bump(v, 2)
    return cnt


def gen_name(cls: typing.Optional[str], fname: str) -> str:
    return ("Gen.%s.%s" % (cls, fname)) if cls else "Gen.%s" % fname


def lean_ret(ret: str) -> str:
    return "(" + LEAN_TY[ret] + ")" if " " in LEAN_TY[ret] else LEAN_TY[ret]


def translate_function(ctx: Ctx, cls: typing.Optional[str], fn: ast.FunctionDef, ret: str, argtypes: typing.List[str]) -> typing.List[str]:
    params: typing.List[str] = []
    t = FnTranslator(ctx, cls)
    ctx.tmp = ctx.acc = ctx.helpers = 0
    if cls:
        for (ln, ty) in ctx.fields[cls].values():
            params.append("(%s : %s)" % (ln, LEAN_TY[ty]))
    a = fn.args
    if a.vararg or a.kwarg or a.kwonlyargs or a.posonlyargs:
        raise Untranslatable("parameters other than plain positional ones")
    args = a.args[1:] if cls else a.args
    if len(args) != len(argtypes):
        raise Untranslatable("takes %d arguments, the interface has %d" % (len(args), len(argtypes)))
    counts = count_assignments(fn.body)
    t.mut = {k for k, v in counts.items() if v > 1} | {x.arg for x in args if counts.get(x.arg, 0) > 0}
    for x, ty in zip(args, argtypes):
        ln = t.declare(x.arg, ty)
        params.append("(%s : %s)" % (ln, LEAN_TY[ty]))
    for x in args:
        if x.arg in t.mut:
            raise Untranslatable("parameter `%s` is reassigned" % x.arg)
    if not always_returns(fn.body):
        raise Untranslatable("a path ends without `return`")
    body = t.stmts(fn.body)
    want = {"int": "nat", "bool": "bool"}.get(ret)
    if any(s != want for s in t.return_sorts):
        raise Untranslatable("returns something that is not %s" % ret)
    head = "def %s %s : Py.M %s := do" % (gen_name(cls, fn.name), " ".join(params), lean_ret(ret))
    return [head] + indent(body, 2)


def failing_stub(group: dict, cls: typing.Optional[str], fname: str, ret: str, argtypes: typing.List[str], why: str) -> typing.List[str]:
    params = []
    if cls:
        for (ln, ty) in group["classes"][cls]["ctor"]:
            params.append("(_%s : %s)" % (ln, LEAN_TY[ty]))
    for i, ty in enumerate(argtypes):
        params.append("(_a%d : %s)" % (i, LEAN_TY[ty]))
    return ["def %s %s : Py.M %s :=" % (gen_name(cls, fname), " ".join(params), lean_ret(ret)),
            "  throw (.other %s)" % lean_str("untranslatable: " + why)]


def lean_str(s: str) -> str:
    return '"' + s.replace("\\", "\\\\").replace('"', '\\"').replace("\n", " ") + '"'


def is_self_attr(n: ast.AST) -> bool:
    return isinstance(n, ast.Attribute) and isinstance(n.value, ast.Name) and n.value.id == "self"


def derive_fields(group: dict, cname: str, cls: ast.ClassDef) -> typing.Dict[str, typing.Tuple[str, str]]:
    """Which private attribute holds which constructor parameter: read off `__init__`, which has to be a list of validations
    (`if …: raise …`, `for …: if …: raise …`) and of plain stores `self._x = param` / `int(param)` / `set(param)` / `list(param)`,
    one per parameter; no other method may assign an attribute (operators are immutable values for the translation)."""
    spec = group["classes"][cname]["ctor"]
    bases = [ast.unparse(b) for b in cls.bases]
    if bases != [group["iface_class"]]:
        raise Untranslatable("base classes %s (methods may be inherited or overridden)" % bases)
    if cls.keywords:
        raise Untranslatable("class keywords")
    init = next((f for f in cls.body if isinstance(f, ast.FunctionDef) and f.name == "__init__"), None)
    if init is None:
        raise Untranslatable("no __init__")
    a = init.args
    if a.vararg or a.kwarg or a.kwonlyargs or a.posonlyargs or a.defaults or init.decorator_list:
        raise Untranslatable("__init__: only plain positional parameters are supported")
    params = [x.arg for x in a.args[1:]]
    if len(params) != len(spec):
        raise Untranslatable("__init__ takes %d parameters, the model has %d" % (len(params), len(spec)))

    def only_raises(body: typing.List[ast.stmt]) -> bool:
        for st in body:
            if isinstance(st, (ast.Raise, ast.Pass)):
                continue
            if isinstance(st, ast.If) and only_raises(st.body) and only_raises(st.orelse):
                continue
            if isinstance(st, ast.For) and not st.orelse and only_raises(st.body):
                continue
            return False
        return True

    stored: typing.Dict[str, str] = {}  # parameter -> attribute
    fields: typing.Dict[str, typing.Tuple[str, str]] = {}
    for st in init.body:
        if isinstance(st, ast.Expr) and isinstance(st.value, ast.Constant):
            continue
        if isinstance(st, (ast.If, ast.For)) and only_raises([st]):
            continue
        target = value = None
        if isinstance(st, ast.Assign) and len(st.targets) == 1:
            target, value = st.targets[0], st.value
        elif isinstance(st, ast.AnnAssign) and st.value is not None:
            target, value = st.target, st.value
        if target is None or not is_self_attr(target):
            raise Untranslatable("__init__: statement `%s` is neither a validation nor a store of a parameter"
                                 % ast.unparse(st).splitlines()[0])
        wrapper = None
        if isinstance(value, ast.Call) and isinstance(value.func, ast.Name) and len(value.args) == 1 and not value.keywords:
            wrapper, value = value.func.id, value.args[0]
        if not (isinstance(value, ast.Name) and value.id in params):
            raise Untranslatable("__init__: `self.%s` is not set to a parameter" % target.attr)
        ln, ty = spec[params.index(value.id)]
        if wrapper not in CTOR_WRAPPERS[ty]:
            raise Untranslatable("__init__: `self.%s = %s(%s)` (expected one of %s for a parameter of type %s)"
                                 % (target.attr, wrapper, value.id, CTOR_WRAPPERS[ty], ty))
        if value.id in stored or target.attr in fields:
            raise Untranslatable("__init__: parameter `%s` / attribute `%s` stored twice" % (value.id, target.attr))
        stored[value.id] = target.attr
        fields[target.attr] = (ln, ty)
    if set(stored) != set(params):
        raise Untranslatable("__init__: parameters %s are not stored" % sorted(set(params) - set(stored)))
    for f in cls.body:
        for n in ast.walk(f):
            if f is not init and is_self_attr(n) and isinstance(n.ctx, (ast.Store, ast.Del)):  # type: ignore[attr-defined]
                raise Untranslatable("attribute self.%s is assigned outside __init__" % n.attr)  # type: ignore[attr-defined]
    for f in cls.body:  # a class-level name that shadows an attribute / a method defined twice: not the simple class we translate
        if isinstance(f, (ast.Assign, ast.AnnAssign)):
            raise Untranslatable("class-level assignment")
    names = [f.name for f in cls.body if isinstance(f, ast.FunctionDef)]
    if len(names) != len(set(names)):
        raise Untranslatable("a method is defined twice")
    # keep the order of the constructor parameters (it is the order of the parameters of the generated definitions)
    return {stored[p]: fields[stored[p]] for p in params}


def method_order(cls: ast.ClassDef, wanted: typing.Dict[str, str]) -> typing.List[ast.FunctionDef]:
    """Public methods in dependency order (a method that uses self.m, directly or through private helpers, comes after m)."""
    allf = {f.name: f for f in cls.body if isinstance(f, ast.FunctionDef)}
    fns = {k: v for k, v in allf.items() if k in wanted}

    def used(f: ast.FunctionDef, seen: typing.Set[str]) -> typing.Set[str]:
        out: typing.Set[str] = set()
        for n in ast.walk(f):
            if is_self_attr(n):
                a = n.attr  # type: ignore[attr-defined]
                if a in fns:
                    out.add(a)
                elif a in allf and a not in seen:
                    seen.add(a)
                    out |= used(allf[a], seen)
        return out
    deps = {name: used(f, {name}) - {name} for name, f in fns.items()}
    order: typing.List[str] = []
    while len(order) < len(fns):
        ready = [n for n in fns if n not in order and deps[n] <= set(order)]
        if not ready:
            raise Untranslatable("recursive self-reference among %s" % sorted(set(fns) - set(order)))
        order.append(sorted(ready, key=lambda n: fns[n].lineno)[0])
    return [fns[n] for n in order]


def translate_group(group: dict, repo: Path) -> typing.Tuple[str, typing.List[str]]:
    """Returns (lean text, list of problems)."""
    problems: typing.List[str] = []
    src_path = repo / group["source"]
    out = ["import PyLib", "/-! GENERATED by tools/py2lean.py from %s -- do not edit. -/" % group["source"],
           "set_option linter.unusedVariables false", ""]
    out += group.get("preamble", []) + [""]
    try:
        src = src_path.read_text()
        tree = ast.parse(src)
    except (OSError, SyntaxError) as ex:
        problems.append("%s: cannot read / parse: %s" % (group["source"], ex))
        tree = ast.Module(body=[], type_ignores=[])
        src = ""
    lines = src.splitlines()
    classes = {n.name: n for n in tree.body if isinstance(n, ast.ClassDef)}
    funcs = {n.name: n for n in tree.body if isinstance(n, ast.FunctionDef)}
    for n in tree.body:  # a name defined twice at module level (or rebound) could make a helper mean something else
        if isinstance(n, (ast.FunctionDef, ast.ClassDef)) and sum(1 for m in tree.body if getattr(m, "name", None) == n.name) > 1:
            problems.append("%s: `%s` is defined more than once" % (group["source"], n.name))
            funcs.pop(n.name, None)
    for n in ast.walk(tree):
        if isinstance(n, (ast.Global, ast.Nonlocal)):
            problems.append("%s: global / nonlocal statement" % group["source"])
    rebound = {t.id for n in tree.body if isinstance(n, (ast.Assign, ast.AugAssign, ast.AnnAssign))
               for t in ast.walk(n) if isinstance(t, ast.Name) and isinstance(t.ctx, ast.Store)}
    for n in tree.body:
        if isinstance(n, (ast.Import, ast.ImportFrom)):
            rebound |= {(al.asname or al.name).split(".")[0] for al in n.names} - {"itertools", "math"}
            if isinstance(n, ast.ImportFrom):
                rebound |= {al.asname or al.name for al in n.names}
            rebound |= {al.asname for al in n.names if al.asname in ("itertools", "math") and al.name != al.asname}
    for name in rebound & (set(funcs) | {"min", "max", "sum", "set", "len", "int", "map", "range", "isinstance", "sorted", "list",
                                          "itertools", "math", "divmod", "tuple", "frozenset"}):
        problems.append("%s: module-level name `%s` is rebound" % (group["source"], name))
        funcs.pop(name, None)

    def span(fn) -> str:
        text = "\n".join(lines[fn.lineno - 1: fn.end_lineno])
        return "lines %d-%d sha256 %s" % (fn.lineno, fn.end_lineno, hashlib.sha256(text.encode()).hexdigest()[:16])

    fields: typing.Dict[str, typing.Dict[str, typing.Tuple[str, str]]] = {}
    broken: typing.Dict[str, str] = {}
    for cname in group["classes"]:
        cls = classes.get(cname)
        if cls is None:
            broken[cname] = "class not found"
            continue
        try:
            fields[cname] = derive_fields(group, cname, cls)
        except Untranslatable as ex:
            broken[cname] = str(ex)
    ctx = Ctx(group, funcs, classes, fields)
    nargs = {"prop": 0, "method0": 0, "method": 1}
    for cname, spec in group["classes"].items():
        cls = classes.get(cname)
        if cname in broken:
            problems.append("%s %s: %s" % (group["source"], cname, broken[cname]))
        ordered: typing.List[ast.FunctionDef] = []
        if cname not in broken:
            try:
                ordered = method_order(cls, spec["methods"])
            except Untranslatable as ex:
                problems.append("%s.%s: %s" % (group["source"], cname, ex))
        done = set()
        for fn in ordered:
            ret = spec["methods"][fn.name]
            kind = group["iface"][fn.name][0]
            argtypes = ["int"] * nargs[kind]
            try:
                want = ["property"] if kind == "prop" else []
                if FnTranslator.decorators(fn) != want:
                    raise Untranslatable("decorators %s" % FnTranslator.decorators(fn))
                try:
                    body = translate_function(ctx, cname, fn, ret, argtypes)
                except Untranslatable:
                    raise
                except Exception as ex:  # pylint: disable=broad-except
                    raise Untranslatable("internal error of the translator: %r" % (ex,))
                out.append("/- %s.%s  %s %s -/" % (cname, fn.name, group["source"], span(fn)))
            except Untranslatable as ex:
                problems.append("%s %s.%s: %s" % (group["source"], cname, fn.name, ex))
                body = failing_stub(group, cname, fn.name, ret, argtypes, str(ex))
            out += body + [""]
            done.add(fn.name)
        for mname, ret in spec["methods"].items():
            if mname not in done:
                if cname not in broken:
                    problems.append("%s %s.%s: not found" % (group["source"], cname, mname))
                out += failing_stub(group, cname, mname, ret, ["int"] * nargs[group["iface"][mname][0]],
                                    broken.get(cname, "not found")) + [""]
    return "\n".join(out) + "\n", problems


def main() -> int:
    ap = argparse.ArgumentParser()
    ap.add_argument("--repo", default=os.environ.get("VERIF_REPO", "/repo"))
    ap.add_argument("--out", default=str(VERIF / "lean" / "Gen"))
    ap.add_argument("--print", action="store_true")
    args = ap.parse_args()
    outdir = Path(args.out)
    outdir.mkdir(parents=True, exist_ok=True)
    all_problems: typing.List[str] = []
    for g in TARGETS:
        text, problems = translate_group(g, Path(args.repo))
        all_problems += ["[%s] %s" % (g["module"], x) for x in problems]
        p = outdir / (g["module"].split(".")[-1] + ".lean")
        if args.print:
            print(text)
        if not p.exists() or p.read_text() != text:
            p.write_text(text)
    sys.path.insert(0, str(Path(__file__).resolve().parent))
    import py2lean_layout  # noqa: E402

    text, problems = py2lean_layout.translate_layout(Path(args.repo))
    all_problems += ["[Gen.Layout] " + x for x in problems]
    p = outdir / "Layout.lean"
    if args.print:
        print(text)
    if not p.exists() or p.read_text() != text:
        p.write_text(text)
    text, problems = py2lean_layout.translate_primitive(Path(args.repo))
    all_problems += ["[Gen.Primitive] " + x for x in problems]
    p = outdir / "Primitive.lean"
    if args.print:
        print(text)
    if not p.exists() or p.read_text() != text:
        p.write_text(text)
    text, problems = py2lean_layout.translate_rules(Path(args.repo))
    all_problems += ["[Gen.Rules] " + x for x in problems]
    p = outdir / "Rules.lean"
    if args.print:
        print(text)
    if not p.exists() or p.read_text() != text:
        p.write_text(text)
    text, problems = py2lean_layout.translate_namespace(Path(args.repo))
    all_problems += ["[Gen.Namespace] " + x for x in problems]
    p = outdir / "Namespace.lean"
    if args.print:
        print(text)
    if not p.exists() or p.read_text() != text:
        p.write_text(text)
    import py2lean_expr  # noqa: E402

    text, problems = py2lean_expr.translate_exprops(Path(args.repo))
    all_problems += ["[Gen.ExprOps] " + x for x in problems]
    p = outdir / "ExprOps.lean"
    if args.print:
        print(text)
    if not p.exists() or p.read_text() != text:
        p.write_text(text)
    import py2lean_serdes  # noqa: E402

    text, problems = py2lean_serdes.translate_serdes(Path(args.repo))
    all_problems += ["[Gen.Serdes] " + x for x in problems]
    p = outdir / "Serdes.lean"
    if args.print:
        print(text)
    if not p.exists() or p.read_text() != text:
        p.write_text(text)
    import py2lean_names  # noqa: E402

    text, problems = py2lean_names.translate_names(Path(args.repo))
    all_problems += ["[Gen.Names] " + x for x in problems]
    p = outdir / "Names.lean"
    if args.print:
        print(text)
    if not p.exists() or p.read_text() != text:
        p.write_text(text)
    import py2lean_const  # noqa: E402

    text, problems = py2lean_const.translate_constant(Path(args.repo))
    all_problems += ["[Gen.Constant] " + x for x in problems]
    p = outdir / "Constant.lean"
    if args.print:
        print(text)
    if not p.exists() or p.read_text() != text:
        p.write_text(text)
    import py2lean_filename  # noqa: E402

    for fn, mod in ((py2lean_filename.translate_filename, "FileName"), (py2lean_filename.translate_composite_name, "CompositeName")):
        text, problems = fn(Path(args.repo))
        all_problems += ["[Gen.%s] %s" % (mod, x) for x in problems]
        p = outdir / (mod + ".lean")
        if args.print:
            print(text)
        if not p.exists() or p.read_text() != text:
            p.write_text(text)
    import py2lean_reader  # noqa: E402

    text, problems = py2lean_reader.translate_reader(Path(args.repo))
    all_problems += ["[Gen.Reader] " + x for x in problems]
    p = outdir / "Reader.lean"
    if args.print:
        print(text)
    if not p.exists() or p.read_text() != text:
        p.write_text(text)
    import py2lean_codec  # noqa: E402

    text, problems = py2lean_codec.translate_codec(Path(args.repo))
    all_problems += ["[Gen.Codec] " + x for x in problems]
    p = outdir / "Codec.lean"
    if args.print:
        print(text)
    if not p.exists() or p.read_text() != text:
        p.write_text(text)
    for pr in all_problems:
        print("py2lean: " + pr)
    return 3 if all_problems else 0


if __name__ == "__main__":
    sys.exit(main())
