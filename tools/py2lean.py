#!/venv/bin/python
"""
py2lean -- syntax-directed translation of the arithmetic / decision kernels of pydsdl into Lean 4 (DESIGN.md I.2, tie 1).

    tools/py2lean.py [--repo /repo] [--out lean/Gen] [--check]

Reads the Python sources under $VERIF_REPO (default /repo), translates the *targets* listed in TARGETS below and
writes one Lean module per target group to lean/Gen/ (only when the text changes, so that `lake build` stays a no-op
on an unchanged tree).  Exit status 0 = every target translated; 3 = at least one target uses Python that is outside
the supported subset, or a target disappeared (the tie is broken: the caller starts a failing-input search).
A target that cannot be translated is still emitted, as a definition that always fails (`throw (.other "untranslatable …")`),
so that the bridge theorems about it break rather than the whole build.

Supported Python (everything else raises Untranslatable):
  expressions  int / bool literals, names, self._field, self.method / self.prop (inlined as calls of the generated
               definition of the same class), child.method(args) / child.prop on objects of an *interface* type,
               + * // % - (checked) **  (2 ** n), comparison chains, and / or / not, conditional expressions,
               min/max (two arguments or one iterable), sum, set, sorted (ignored on sets), len, range, map with lambda / bound method / sum,
               set / list / generator comprehensions (one generator, optional ifs), itertools.product(*x),
               itertools.combinations_with_replacement, math.lcm / least_common_multiple, isinstance (-> True for the declared type),
               int(x) on an int, x.bit_length()
  statements   assignment to a local, `s.add(e)`, `s |= e`, `x += e`, assert, return, if / elif / else (both as statement with returns
               in all branches, or updating locals), for over an iterable with loop-carried locals, docstrings, `pass`
"""
from __future__ import annotations

import argparse
import ast
import hashlib
import os
import sys
import typing
from pathlib import Path

VERIF = Path(__file__).resolve().parent.parent


class Untranslatable(Exception):
    pass


# ----------------------------------------------------------------------------------------------- target tables
# A class target: fields (python attribute -> (lean name, lean type)), methods to translate with their result type.
# Types: "int" -> Nat, "bool" -> Bool, "set" -> List Nat, "op" -> interface record, "oplist" -> List of it.

LEAN_TY = {"int": "Nat", "bool": "Bool", "set": "List Nat", "list": "List Nat", "op": "OperatorI", "oplist": "List OperatorI",
           "setlist": "List (List Nat)"}

SYMBOLIC = {
    "module": "Gen.Symbolic",
    "source": "pydsdl/_bit_length_set/_symbolic.py",
    "preamble": [
        "/-- `Operator`: the abstract interface of `_symbolic.py` (open recursion: a node sees its children only through it). -/",
        "structure OperatorI where",
        "  min : Py.M Nat",
        "  max : Py.M Nat",
        "  modulo : Nat → Py.M (List Nat)",
        "  expand : Unit → Py.M (List Nat)",
    ],
    "iface": {"min": ("prop", "int"), "max": ("prop", "int"), "modulo": ("method", "set"), "expand": ("method0", "set")},
    "functions": {"least_common_multiple": (["int", "int"], "int")},
    "classes": {
        "NullaryOperator": {"fields": {"_value": ("value", "set")},
                            "methods": {"modulo": "set", "min": "int", "max": "int", "expand": "set"}},
        "PaddingOperator": {"fields": {"_child": ("child", "op"), "_padding": ("padding", "int")},
                            "methods": {"_pad": "int", "min": "int", "max": "int", "modulo": "set", "expand": "set"}},
        "ConcatenationOperator": {"fields": {"_children": ("children", "oplist")},
                                  "methods": {"modulo": "set", "min": "int", "max": "int", "expand": "set"}},
        "RepetitionOperator": {"fields": {"_child": ("child", "op"), "_k": ("k", "int")},
                               "methods": {"modulo": "set", "min": "int", "max": "int", "expand": "set"}},
        "RangeRepetitionOperator": {"fields": {"_child": ("child", "op"), "_k_max": ("k_max", "int")},
                                    "methods": {"modulo": "set", "min": "int", "max": "int", "expand": "set"}},
        "UnionOperator": {"fields": {"_children": ("children", "oplist")},
                          "methods": {"modulo": "set", "min": "int", "max": "int", "expand": "set"}},
    },
}

TARGETS = [SYMBOLIC]


def lname(n: str) -> str:
    return n + "'" if n in {"end", "at", "from", "by", "do", "then", "fun", "let", "in", "open", "show", "have", "match", "with",
                            "where", "instance", "class", "structure", "def", "theorem", "mut", "type"} else n


class FnTranslator:
    """Translates one function body.  Expressions are translated to *pure* Lean terms; every sub-expression that may raise
    (or that calls an interface method) is hoisted into a monadic `let t ← …` in front of the statement."""

    def __init__(self, group: dict, cls: typing.Optional[str], locals_: typing.Dict[str, str]):
        self.group = group
        self.cls = cls
        self.fields = group["classes"][cls]["fields"] if cls else {}
        self.types = dict(locals_)  # python local -> type tag
        self.pre: typing.List[str] = []
        self.tmp = 0

    # --- helpers
    def fresh(self) -> str:
        self.tmp += 1
        return "t%d" % self.tmp

    def bind(self, mexpr: str) -> str:
        v = self.fresh()
        self.pre.append("let %s ← %s" % (v, mexpr))
        return v

    def self_call(self, meth: str, args: typing.List[str]) -> str:
        assert self.cls
        fl = " ".join(ln for (ln, _) in self.fields.values())
        return ("Gen.%s.%s %s %s" % (self.cls, meth.lstrip("_") if meth != "_pad" else "pad", fl, " ".join(args))).strip()

    def typeof(self, n: ast.AST) -> typing.Optional[str]:
        if isinstance(n, ast.Name):
            return self.types.get(n.id)
        if isinstance(n, ast.Attribute) and isinstance(n.value, ast.Name) and n.value.id == "self" and n.attr in self.fields:
            return self.fields[n.attr][1]
        return None

    # --- expressions
    def e(self, n: ast.AST) -> str:
        if isinstance(n, ast.Constant):
            if isinstance(n.value, bool):
                return "true" if n.value else "false"
            if isinstance(n.value, int) and n.value >= 0:
                return "(%d : Nat)" % n.value
            raise Untranslatable("constant %r" % (n.value,))
        if isinstance(n, ast.Name):
            return lname(n.id)
        if isinstance(n, ast.Attribute):
            return self.attr(n)
        if isinstance(n, ast.BinOp):
            a, b = self.e(n.left), self.e(n.right)
            if isinstance(n.op, ast.Mod):
                return self.bind("Py.mod %s %s" % (a, b))
            if isinstance(n.op, ast.FloorDiv):
                return self.bind("Py.floordiv %s %s" % (a, b))
            if isinstance(n.op, ast.Sub):
                return self.bind("Py.sub %s %s" % (a, b))
            if isinstance(n.op, ast.Pow):
                return "(%s ^ %s)" % (a, b)
            if isinstance(n.op, ast.Add):
                return "(%s + %s)" % (a, b)
            if isinstance(n.op, ast.Mult):
                return "(%s * %s)" % (a, b)
            raise Untranslatable("operator %s" % type(n.op).__name__)
        if isinstance(n, ast.UnaryOp) and isinstance(n.op, ast.Not):
            return "(!%s)" % self.e(n.operand)
        if isinstance(n, ast.Compare):
            parts = []
            left = self.e(n.left)
            for op, c in zip(n.ops, n.comparators):
                r = self.e(c)
                sym = {ast.Eq: "==", ast.NotEq: "!=", ast.LtE: "≤", ast.Lt: "<", ast.GtE: "≥", ast.Gt: ">"}.get(type(op))
                if sym is None:
                    raise Untranslatable("comparison %s" % type(op).__name__)
                parts.append("(%s %s %s)" % (left, sym, r) if sym in ("==", "!=") else "decide (%s %s %s)" % (left, sym, r))
                left = r
            return "(" + " && ".join(parts) + ")"
        if isinstance(n, ast.BoolOp):
            # `and` / `or` on booleans; operands that may raise are hoisted, which is sound only when they cannot raise
            # after short-circuiting matters -- the targets use them on pure comparisons only.
            before = len(self.pre)
            vals = [self.e(v) for v in n.values]
            if len(self.pre) != before:
                raise Untranslatable("short-circuit operator with raising operands")
            return "(" + (" && " if isinstance(n.op, ast.And) else " || ").join(vals) + ")"
        if isinstance(n, ast.IfExp):
            before = len(self.pre)
            c, a, b = self.e(n.test), self.e(n.body), self.e(n.orelse)
            if len(self.pre) != before:
                raise Untranslatable("conditional expression with raising operands")
            return "(if %s then %s else %s)" % (c, a, b)
        if isinstance(n, ast.Call):
            return self.call(n)
        if isinstance(n, (ast.SetComp, ast.GeneratorExp, ast.ListComp)):
            return self.comp(n)
        raise Untranslatable(type(n).__name__)

    def attr(self, n: ast.Attribute) -> str:
        if isinstance(n.value, ast.Name) and n.value.id == "self":
            if n.attr in self.fields:
                return self.fields[n.attr][0]
            if self.cls and n.attr in self.group["classes"][self.cls]["methods"]:  # own property
                return self.bind(self.self_call(n.attr, []))
            raise Untranslatable("self.%s" % n.attr)
        if n.attr in self.group.get("iface", {}) and self.group["iface"][n.attr][0] == "prop":
            return self.bind("(%s).%s" % (self.e(n.value), n.attr))
        raise Untranslatable("attribute .%s" % n.attr)

    def lam(self, var: str, body: ast.AST, vartype: typing.Optional[str] = None) -> typing.Tuple[bool, str]:
        sub = FnTranslator(self.group, self.cls, self.types)
        if vartype:
            sub.types[var] = vartype
        sub.tmp = self.tmp + 100
        b = sub.e(body)
        if sub.pre:
            return True, "(fun %s => do\n      %s\n      pure %s)" % (lname(var), "\n      ".join(sub.pre), b)
        return False, "(fun %s => %s)" % (lname(var), b)

    def comp(self, n) -> str:
        if len(n.generators) != 1:
            raise Untranslatable("comprehension with several generators")
        g = n.generators[0]
        if not isinstance(g.target, ast.Name):
            raise Untranslatable("comprehension target")
        it = self.e(g.iter)
        var = g.target.id
        for cond in g.ifs:
            m, f = self.lam(var, cond)
            if m:
                raise Untranslatable("raising comprehension condition")
            it = "(%s).filter %s" % (it, f)
        et = "op" if self.typeof(g.iter) == "oplist" else None
        m, f = self.lam(var, n.elt, et)
        lst = self.bind("(%s).mapM %s" % (it, f)) if m else "((%s).map %s)" % (it, f)
        return "(Py.set %s)" % lst if isinstance(n, ast.SetComp) else lst

    def call(self, n: ast.Call) -> str:
        f = n.func
        if n.keywords:
            raise Untranslatable("keyword arguments")
        if isinstance(f, ast.Name):
            if f.id in ("min", "max"):
                if len(n.args) == 2:
                    return "(%s %s %s)" % (f.id, self.e(n.args[0]), self.e(n.args[1]))
                if len(n.args) == 1:
                    return self.bind("Py.%sOf %s" % (f.id, self.e(n.args[0])))
            if f.id == "sum" and len(n.args) == 1:
                return "(Py.sum %s)" % self.e(n.args[0])
            if f.id == "set":
                if not n.args:
                    return "([] : List Nat)"
                return "(Py.set %s)" % self.e(n.args[0])
            if f.id == "len" and len(n.args) == 1:
                return "(%s).length" % self.e(n.args[0])
            if f.id == "int" and len(n.args) == 1:
                return self.e(n.args[0])
            if f.id == "map" and len(n.args) == 2:
                fn, it = n.args[0], self.e(n.args[1])
                if isinstance(fn, ast.Lambda):
                    m, lf = self.lam(fn.args.args[0].arg, fn.body)
                elif isinstance(fn, ast.Name) and fn.id == "sum":
                    m, lf = False, "Py.sum"
                elif isinstance(fn, ast.Attribute) and isinstance(fn.value, ast.Name) and fn.value.id == "self":
                    m, lf = True, "(fun x => %s)" % self.self_call(fn.attr, ["x"])
                else:
                    raise Untranslatable("map with %s" % ast.dump(fn))
                return self.bind("(%s).mapM %s" % (it, lf)) if m else "((%s).map %s)" % (it, lf)
            if f.id == "range" and len(n.args) == 1:
                return "(Py.range %s)" % self.e(n.args[0])
            if f.id == "isinstance":
                return "true"
            if f.id in self.group.get("functions", {}):
                return self.bind("Gen.%s %s" % (f.id, " ".join(self.e(a) for a in n.args)))
        if isinstance(f, ast.Attribute):
            if isinstance(f.value, ast.Name) and f.value.id == "itertools":
                if f.attr == "combinations_with_replacement" and len(n.args) == 2:
                    return "(Py.cwr %s %s)" % (self.e(n.args[0]), self.e(n.args[1]))
                if f.attr == "product" and len(n.args) == 1 and isinstance(n.args[0], ast.Starred):
                    return "(Py.product %s)" % self.e(n.args[0].value)
            if isinstance(f.value, ast.Name) and f.value.id == "math" and f.attr == "lcm" and len(n.args) == 2:
                return "(Py.lcm %s %s)" % (self.e(n.args[0]), self.e(n.args[1]))
            if isinstance(f.value, ast.Name) and f.value.id == "self":
                if self.cls and f.attr in self.group["classes"][self.cls]["methods"]:
                    return self.bind(self.self_call(f.attr, [self.e(a) for a in n.args]))
                raise Untranslatable("self.%s()" % f.attr)
            if f.attr == "bit_length" and not n.args:
                return "(Py.bitLength %s)" % self.e(f.value)
            iface = self.group.get("iface", {})
            if f.attr in iface:
                kind = iface[f.attr][0]
                if kind == "method":
                    return self.bind("(%s).%s %s" % (self.e(f.value), f.attr, " ".join(self.e(a) for a in n.args)))
                if kind == "method0":
                    return self.bind("(%s).%s ()" % (self.e(f.value), f.attr))
        raise Untranslatable("call %s" % ast.unparse(f))

    # --- statements
    def flush(self, out: typing.List[str], ind: str) -> None:
        out.extend(ind + p for p in self.pre)
        self.pre = []

    def assign(self, name: str, value: str, out: typing.List[str], ind: str, declared: typing.Set[str], mut: typing.Set[str]) -> None:
        name = lname(name)
        if name in declared:
            out.append("%s%s := %s" % (ind, name, value))
        else:
            out.append("%s%s %s := %s" % (ind, "let mut" if name in mut else "let", name, value))
            declared.add(name)

    def stmts(self, body: typing.List[ast.stmt], ind: str, out: typing.List[str], declared: typing.Set[str], mut: typing.Set[str]) -> None:
        for s in body:
            if isinstance(s, ast.Expr) and isinstance(s.value, ast.Constant):
                continue  # docstring
            if isinstance(s, ast.Pass):
                continue
            if isinstance(s, ast.Assign) and len(s.targets) == 1 and isinstance(s.targets[0], ast.Name):
                v = self.e(s.value)
                self.flush(out, ind)
                self.assign(s.targets[0].id, v, out, ind, declared, mut)
            elif isinstance(s, ast.AnnAssign) and isinstance(s.target, ast.Name) and s.value is not None:
                v = self.e(s.value)
                self.flush(out, ind)
                self.assign(s.target.id, v, out, ind, declared, mut)
            elif isinstance(s, ast.AugAssign) and isinstance(s.target, ast.Name):
                v = self.e(s.value)
                self.flush(out, ind)
                t = lname(s.target.id)
                if isinstance(s.op, ast.BitOr):
                    out.append("%s%s := Py.setUnion %s %s" % (ind, t, t, v))
                elif isinstance(s.op, ast.Add):
                    out.append("%s%s := %s + %s" % (ind, t, t, v))
                else:
                    raise Untranslatable("augmented assignment %s" % type(s.op).__name__)
            elif (isinstance(s, ast.Expr) and isinstance(s.value, ast.Call) and isinstance(s.value.func, ast.Attribute)
                  and s.value.func.attr == "add" and isinstance(s.value.func.value, ast.Name) and len(s.value.args) == 1):
                v = self.e(s.value.args[0])
                self.flush(out, ind)
                t = lname(s.value.func.value.id)
                out.append("%s%s := Py.setAdd %s %s" % (ind, t, t, v))
            elif isinstance(s, ast.Assert):
                v = self.e(s.test)
                self.flush(out, ind)
                out.append("%sPy.assert %s" % (ind, v))
            elif isinstance(s, ast.Return):
                if s.value is None:
                    raise Untranslatable("bare return")
                v = self.e(s.value)
                self.flush(out, ind)
                out.append("%sreturn %s" % (ind, v))
            elif isinstance(s, ast.If):
                c = self.e(s.test)
                self.flush(out, ind)
                out.append("%sif %s then" % (ind, c))
                self.stmts(s.body, ind + "  ", out, declared, mut)
                if s.orelse:
                    out.append("%selse" % ind)
                    self.stmts(s.orelse, ind + "  ", out, declared, mut)
            elif isinstance(s, ast.For) and isinstance(s.target, ast.Name) and not s.orelse:
                it = self.e(s.iter)
                self.flush(out, ind)
                carried = sorted(v for v in assigned_in(s.body) if lname(v) in declared)
                fresh_locals = assigned_in(s.body) - set(carried)
                if not carried:
                    raise Untranslatable("for loop without loop-carried state")
                if contains(s.body, (ast.Return, ast.Break, ast.Continue)):
                    raise Untranslatable("return / break / continue inside a for loop")
                state = lname(carried[0]) if len(carried) == 1 else "(" + ", ".join(map(lname, carried)) + ")"
                body: typing.List[str] = []
                if self.typeof(s.iter) == "oplist":
                    self.types[s.target.id] = "op"
                self.stmts(s.body, ind + "    ", body, set(declared), mut | {lname(v) for v in fresh_locals})
                out.append("%s%s ← Py.forEach %s %s (fun %s %s => do" % (ind, state, it, state, state, lname(s.target.id)))
                for v in carried:  # the lambda's parameters become mutable locals of the body
                    out.append("%s    let mut %s := %s" % (ind, lname(v), lname(v)))
                out.extend(body)
                out.append("%s    pure %s)" % (ind, state))
            else:
                raise Untranslatable("statement %s" % type(s).__name__)


def assigned_in(body: typing.List[ast.stmt]) -> typing.Set[str]:
    out: typing.Set[str] = set()
    for n in ast.walk(ast.Module(body=body, type_ignores=[])):
        if isinstance(n, ast.Assign):
            out |= {t.id for t in n.targets if isinstance(t, ast.Name)}
        elif isinstance(n, (ast.AugAssign, ast.AnnAssign)) and isinstance(n.target, ast.Name):
            out.add(n.target.id)
        elif isinstance(n, ast.Call) and isinstance(n.func, ast.Attribute) and n.func.attr == "add" and isinstance(n.func.value, ast.Name):
            out.add(n.func.value.id)
    return out


def contains(body: typing.List[ast.stmt], kinds) -> bool:
    return any(isinstance(n, kinds) for n in ast.walk(ast.Module(body=body, type_ignores=[])))


def count_assignments(body: typing.List[ast.stmt]) -> typing.Dict[str, int]:
    cnt: typing.Dict[str, int] = {}
    for n in ast.walk(ast.Module(body=body, type_ignores=[])):
        if isinstance(n, ast.Assign):
            for t in n.targets:
                if isinstance(t, ast.Name):
                    cnt[t.id] = cnt.get(t.id, 0) + 1
        elif isinstance(n, (ast.AugAssign,)) and isinstance(n.target, ast.Name):
            cnt[n.target.id] = cnt.get(n.target.id, 0) + 2
        elif isinstance(n, ast.Call) and isinstance(n.func, ast.Attribute) and n.func.attr == "add" and isinstance(n.func.value, ast.Name):
            cnt[n.func.value.id] = cnt.get(n.func.value.id, 0) + 2
        elif isinstance(n, ast.For):
            for v in assigned_in(n.body):
                cnt[v] = cnt.get(v, 0) + 2
    return cnt


def translate_function(group: dict, cls: typing.Optional[str], fn: ast.FunctionDef, ret: str, argtypes: typing.List[str]) -> typing.List[str]:
    params: typing.List[str] = []
    locals_: typing.Dict[str, str] = {}
    if cls:
        for (ln, ty) in group["classes"][cls]["fields"].values():
            params.append("(%s : %s)" % (ln, LEAN_TY[ty]))
    args = fn.args.args[1:] if cls else fn.args.args
    for a, ty in zip(args, argtypes):
        params.append("(%s : %s)" % (lname(a.arg), LEAN_TY[ty]))
        locals_[a.arg] = ty
    t = FnTranslator(group, cls, locals_)
    body: typing.List[str] = []
    mut = {lname(k) for k, v in count_assignments(fn.body).items() if v > 1}
    t.stmts(fn.body, "  ", body, set(), mut)
    name = ("Gen.%s.%s" % (cls, "pad" if fn.name == "_pad" else fn.name.lstrip("_"))) if cls else "Gen.%s" % fn.name
    head = "def %s %s : Py.M %s := do" % (name, " ".join(params), "(" + LEAN_TY[ret] + ")" if " " in LEAN_TY[ret] else LEAN_TY[ret])
    return [head] + body


def failing_stub(group: dict, cls: typing.Optional[str], fname: str, ret: str, argtypes: typing.List[str], why: str) -> typing.List[str]:
    params = []
    if cls:
        for (ln, ty) in group["classes"][cls]["fields"].values():
            params.append("(_%s : %s)" % (ln, LEAN_TY[ty]))
    for i, ty in enumerate(argtypes):
        params.append("(_a%d : %s)" % (i, LEAN_TY[ty]))
    name = ("Gen.%s.%s" % (cls, "pad" if fname == "_pad" else fname.lstrip("_"))) if cls else "Gen.%s" % fname
    rt = "(" + LEAN_TY[ret] + ")" if " " in LEAN_TY[ret] else LEAN_TY[ret]
    return ["def %s %s : Py.M %s :=" % (name, " ".join(params), rt), "  throw (.other %s)" % lean_str("untranslatable: " + why)]


def lean_str(s: str) -> str:
    return '"' + s.replace("\\", "\\\\").replace('"', '\\"').replace("\n", " ") + '"'


def method_order(cls: ast.ClassDef, wanted: typing.Dict[str, str]) -> typing.List[ast.FunctionDef]:
    """Methods in dependency order (a method that uses self.m comes after m)."""
    fns = {f.name: f for f in cls.body if isinstance(f, ast.FunctionDef) and f.name in wanted}
    deps = {}
    for name, f in fns.items():
        used = {n.attr for n in ast.walk(f) if isinstance(n, ast.Attribute) and isinstance(n.value, ast.Name) and n.value.id == "self"}
        deps[name] = {u for u in used if u in fns and u != name}
    order: typing.List[str] = []
    while len(order) < len(fns):
        ready = [n for n in fns if n not in order and deps[n] <= set(order)]
        if not ready:
            raise Untranslatable("recursive self-reference among %s" % sorted(set(fns) - set(order)))
        order.append(sorted(ready, key=lambda n: fns[n].lineno)[0])
    return [fns[n] for n in order]


def translate_group(group: dict, repo: Path) -> typing.Tuple[str, typing.List[str]]:
    """Returns (lean text, list of problems)."""
    problems: typing.List[str] = []
    src_path = repo / group["source"]
    out = ["import PyLib", "/-! GENERATED by tools/py2lean.py from %s -- do not edit. -/" % group["source"],
           "set_option linter.unusedVariables false", ""]
    out += group.get("preamble", []) + [""]
    try:
        src = src_path.read_text()
        tree = ast.parse(src)
    except (OSError, SyntaxError) as ex:
        problems.append("%s: cannot read / parse: %s" % (group["source"], ex))
        tree = ast.Module(body=[], type_ignores=[])
        src = ""
    lines = src.splitlines()
    classes = {n.name: n for n in tree.body if isinstance(n, ast.ClassDef)}
    funcs = {n.name: n for n in tree.body if isinstance(n, ast.FunctionDef)}

    def span(fn) -> str:
        text = "\n".join(lines[fn.lineno - 1: fn.end_lineno])
        return "lines %d-%d sha256 %s" % (fn.lineno, fn.end_lineno, hashlib.sha256(text.encode()).hexdigest()[:16])

    for fname, (argtypes, ret) in group.get("functions", {}).items():
        fn = funcs.get(fname)
        try:
            if fn is None:
                raise Untranslatable("function not found")
            body = translate_function(group, None, fn, ret, argtypes)
            out.append("/- %s  %s %s -/" % (fname, group["source"], span(fn)))
        except Untranslatable as ex:
            problems.append("%s.%s: %s" % (group["source"], fname, ex))
            body = failing_stub(group, None, fname, ret, argtypes, str(ex))
        out += body + [""]
    for cname, spec in group["classes"].items():
        cls = classes.get(cname)
        present = {f.name for f in cls.body if isinstance(f, ast.FunctionDef)} if cls else set()
        try:
            ordered = method_order(cls, spec["methods"]) if cls else []
        except Untranslatable as ex:
            problems.append("%s.%s: %s" % (group["source"], cname, ex))
            ordered = []
        done = set()
        for fn in ordered:
            ret = spec["methods"][fn.name]
            argtypes = ["int"] * (len(fn.args.args) - 1)
            try:
                body = translate_function(group, cname, fn, ret, argtypes)
                out.append("/- %s.%s  %s %s -/" % (cname, fn.name, group["source"], span(fn)))
            except Untranslatable as ex:
                problems.append("%s %s.%s: %s" % (group["source"], cname, fn.name, ex))
                body = failing_stub(group, cname, fn.name, ret, argtypes, str(ex))
            out += body + [""]
            done.add(fn.name)
        for mname, ret in spec["methods"].items():
            if mname not in done:
                problems.append("%s %s.%s: not found" % (group["source"], cname, mname))
                nargs = 1 if mname in ("modulo", "_pad") else 0
                out += failing_stub(group, cname, mname, ret, ["int"] * nargs, "not found") + [""]
        _ = present
    return "\n".join(out) + "\n", problems


def main() -> int:
    ap = argparse.ArgumentParser()
    ap.add_argument("--repo", default=os.environ.get("VERIF_REPO", "/repo"))
    ap.add_argument("--out", default=str(VERIF / "lean" / "Gen"))
    ap.add_argument("--print", action="store_true")
    args = ap.parse_args()
    outdir = Path(args.out)
    outdir.mkdir(parents=True, exist_ok=True)
    all_problems: typing.List[str] = []
    for g in TARGETS:
        text, problems = translate_group(g, Path(args.repo))
        all_problems += ["[%s] %s" % (g["module"], x) for x in problems]
        p = outdir / (g["module"].split(".")[-1] + ".lean")
        if args.print:
            print(text)
        if not p.exists() or p.read_text() != text:
            p.write_text(text)
    sys.path.insert(0, str(Path(__file__).resolve().parent))
    import py2lean_layout  # noqa: E402

    text, problems = py2lean_layout.translate_layout(Path(args.repo))
    all_problems += ["[Gen.Layout] " + x for x in problems]
    p = outdir / "Layout.lean"
    if args.print:
        print(text)
    if not p.exists() or p.read_text() != text:
        p.write_text(text)
    text, problems = py2lean_layout.translate_primitive(Path(args.repo))
    all_problems += ["[Gen.Primitive] " + x for x in problems]
    p = outdir / "Primitive.lean"
    if args.print:
        print(text)
    if not p.exists() or p.read_text() != text:
        p.write_text(text)
    text, problems = py2lean_layout.translate_rules(Path(args.repo))
    all_problems += ["[Gen.Rules] " + x for x in problems]
    p = outdir / "Rules.lean"
    if args.print:
        print(text)
    if not p.exists() or p.read_text() != text:
        p.write_text(text)
    text, problems = py2lean_layout.translate_namespace(Path(args.repo))
    all_problems += ["[Gen.Namespace] " + x for x in problems]
    p = outdir / "Namespace.lean"
    if args.print:
        print(text)
    if not p.exists() or p.read_text() != text:
        p.write_text(text)
    import py2lean_expr  # noqa: E402

    text, problems = py2lean_expr.translate_exprops(Path(args.repo))
    all_problems += ["[Gen.ExprOps] " + x for x in problems]
    p = outdir / "ExprOps.lean"
    if args.print:
        print(text)
    if not p.exists() or p.read_text() != text:
        p.write_text(text)
    import py2lean_serdes  # noqa: E402

    text, problems = py2lean_serdes.translate_serdes(Path(args.repo))
    all_problems += ["[Gen.Serdes] " + x for x in problems]
    p = outdir / "Serdes.lean"
    if args.print:
        print(text)
    if not p.exists() or p.read_text() != text:
        p.write_text(text)
    import py2lean_names  # noqa: E402

    text, problems = py2lean_names.translate_names(Path(args.repo))
    all_problems += ["[Gen.Names] " + x for x in problems]
    p = outdir / "Names.lean"
    if args.print:
        print(text)
    if not p.exists() or p.read_text() != text:
        p.write_text(text)
    import py2lean_const  # noqa: E402

    text, problems = py2lean_const.translate_constant(Path(args.repo))
    all_problems += ["[Gen.Constant] " + x for x in problems]
    p = outdir / "Constant.lean"
    if args.print:
        print(text)
    if not p.exists() or p.read_text() != text:
        p.write_text(text)
    import py2lean_filename  # noqa: E402

    for fn, mod in ((py2lean_filename.translate_filename, "FileName"), (py2lean_filename.translate_composite_name, "CompositeName")):
        text, problems = fn(Path(args.repo))
        all_problems += ["[Gen.%s] %s" % (mod, x) for x in problems]
        p = outdir / (mod + ".lean")
        if args.print:
            print(text)
        if not p.exists() or p.read_text() != text:
            p.write_text(text)
    import py2lean_reader  # noqa: E402

    text, problems = py2lean_reader.translate_reader(Path(args.repo))
    all_problems += ["[Gen.Reader] " + x for x in problems]
    p = outdir / "Reader.lean"
    if args.print:
        print(text)
    if not p.exists() or p.read_text() != text:
        p.write_text(text)
    import py2lean_codec  # noqa: E402

    text, problems = py2lean_codec.translate_codec(Path(args.repo))
    all_problems += ["[Gen.Codec] " + x for x in problems]
    p = outdir / "Codec.lean"
    if args.print:
        print(text)
    if not p.exists() or p.read_text() != text:
        p.write_text(text)
    for pr in all_problems:
        print("py2lean: " + pr)
    return 3 if all_problems else 0


if __name__ == "__main__":
    sys.exit(main())
