#!/usr/bin/env python3
"""tools/seed_table.py [prefix]: markdown table of the seeded changes under seeded/ (from meta.json + notes.txt)."""
import json, sys, glob, os
pref = sys.argv[1] if len(sys.argv) > 1 else ""
print("| seed | change | needs | result when first run | ")
print("|---|---|---|---|")
for d in sorted(glob.glob("/verif/seeded/*%s*" % pref)):
    try:
        m = json.load(open(d + "/meta.json"))
    except Exception:
        continue
    name = os.path.basename(d)
    first = open(d + "/notes.txt").read().strip().splitlines()[0][:230].replace("|", "\\|")
    res = []
    for k, v in m.get("check_results", {}).items():
        viol = [l for l in v if l.startswith("VIOLATION")]
        if not viol:
            res.append("%s: **missed**" % k)
        elif all("no-failing-input-found" in l for l in viol):
            res.append("%s: tie broken, no failing input" % k)
        else:
            res.append("%s: caught" % k)
    print("| %s | %s | %s | %s |" % (name, first, (m.get("needs_to_manifest") or "")[:160].replace("|", "\\|").replace("\n", " "), "; ".join(res)))
