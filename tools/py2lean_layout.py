"""
Second target group of py2lean: the layout kernels of pydsdl/_serializable (array / composite constructors' bit length set
construction, length-prefix / tag widths, alignment, the `iterate_fields_with_offsets` generators, `enumerate_elements_with_offsets`)
and DataSchemaBuilder.offset.  Output: lean/Gen/Layout.lean.

Differences from the _symbolic.py group:
  * values of type BitLengthSet are *operator trees* (`Bls.Op`): the composition API of BitLengthSet is mapped to the
    constructors it wraps (`a + b` -> ConcatenationOperator([a, b]), `.pad_to_alignment(n)` -> PaddingOperator, `.repeat(k)`,
    `.repeat_range(k)`, `BitLengthSet.unite(xs)`, `BitLengthSet(n)` -> NullaryOperator([n])); these mappings are PyLib
    primitives (`Py.bls*`), raising what the Python constructors raise;
  * a target is either a whole method / function, or a *slice* of a constructor: the top-level statements that assign the
    listed attributes, the `if …: raise` guards and the `assert`s that can be expressed over the slice's inputs;
  * attribute paths (`self.element_type.alignment_requirement`, `x.data_type.bit_length_set`, …) are resolved through a
    per-target table to parameters of the generated definition; serializable types are seen through the record `TypeI`
    (alignment_requirement, bit_length_set, extent); `f.data_type` of a field is the field's type (fields are `TypeI`);
  * generators: `yield a, b` appends `b` to the result list.
"""
from __future__ import annotations

import ast
import hashlib
import typing
from pathlib import Path


class Untranslatable(Exception):
    pass


LEAN_TY = {"int": "Nat", "bool": "Bool", "bls": "Bls.Op", "ty": "TypeI", "tylist": "List TypeI", "blslist": "List Bls.Op",
           "intlist": "List Nat", "offsets": "List Bls.Op", "iter": "(Bls.Op → Py.M (List Bls.Op))", "sint": "Int", "range": "Int × Int", "str": "String", "optint": "Option Nat", "comp": "CompI", "sec": "SecI",
           "complist": "List CompI", "unit": "Unit", "strlist": "List String", "pairfn": "(SecI → SecI → Py.M Unit)"}

PREAMBLE = [
    "/-- A serializable type as the layout code sees it. -/",
    "structure TypeI where",
    "  alignment_requirement : Nat",
    "  bit_length_set : Bls.Op",
    "  extent : Nat",
    "",
]

COMPOSITE = "pydsdl/_serializable/_composite.py"
ARRAY = "pydsdl/_serializable/_array.py"
BUILDER = "pydsdl/_data_schema_builder.py"

# name -> spec.  kind: "method" (whole body), "slice" (constructor slice), "generator"
ITEMS: typing.List[dict] = [
    {"name": "CompositeType.alignment_requirement", "source": COMPOSITE, "cls": "CompositeType", "fn": "alignment_requirement", "kind": "method",
     "params": [("fields", "tylist")], "ret": "int",
     "paths": {"self.BITS_PER_BYTE": ("(8 : Nat)", "int"), "self.fields": ("fields", "tylist")}},
    {"name": "UnionType.compute_tag_bit_length", "source": COMPOSITE, "cls": "UnionType", "fn": "_compute_tag_bit_length", "kind": "method",
     "params": [("field_types", "tylist")], "ret": "int",
     "paths": {"SerializableType.BITS_PER_BYTE": ("(8 : Nat)", "int")}},
    {"name": "UnionType.aggregate_bit_length_sets", "source": COMPOSITE, "cls": "UnionType", "fn": "aggregate_bit_length_sets", "kind": "method",
     "params": [("field_types", "tylist")], "ret": "bls",
     "calls": {"UnionType._compute_tag_bit_length": ("Gen.UnionType.compute_tag_bit_length", "int")}, "paths": {}},
    {"name": "StructureType.aggregate_bit_length_sets", "source": COMPOSITE, "cls": "StructureType", "fn": "aggregate_bit_length_sets", "kind": "method",
     "params": [("field_types", "tylist")], "ret": "bls", "paths": {}},
    {"name": "UnionType.iterate_fields_with_offsets", "source": COMPOSITE, "cls": "UnionType", "fn": "iterate_fields_with_offsets", "kind": "generator",
     "params": [("alignment", "int"), ("tag_bits", "int"), ("fields", "tylist"), ("base_offset", "bls")], "ret": "offsets",
     "paths": {"self.alignment_requirement": ("alignment", "int"), "self.tag_field_type.bit_length": ("tag_bits", "int"),
               "self.fields": ("fields", "tylist")}},
    {"name": "StructureType.iterate_fields_with_offsets", "source": COMPOSITE, "cls": "StructureType", "fn": "iterate_fields_with_offsets", "kind": "generator",
     "params": [("alignment", "int"), ("fields", "tylist"), ("base_offset", "bls")], "ret": "offsets",
     "paths": {"self.alignment_requirement": ("alignment", "int"), "self.fields": ("fields", "tylist")}},
    {"name": "DelimitedType.iterate_fields_with_offsets", "source": COMPOSITE, "cls": "DelimitedType", "fn": "iterate_fields_with_offsets", "kind": "method",
     "params": [("header_bls", "bls"), ("inner_iterate", "iter"), ("base_offset", "bls")], "ret": "offsets",
     "paths": {"self.delimiter_header_type.bit_length_set": ("header_bls", "bls")},
     "calls": {"self.inner_type.iterate_fields_with_offsets": ("inner_iterate", "offsets")}},
    {"name": "UnionType.bls", "source": COMPOSITE, "cls": "UnionType", "fn": "__init__", "kind": "slice",
     "params": [("alignment", "int"), ("fields", "tylist")], "ret": "bls", "targets": ["self._bls"], "result": "self._bls",
     "paths": {"self.alignment_requirement": ("alignment", "int"), "self.fields": ("fields", "tylist")},
     "calls": {"self.aggregate_bit_length_sets": ("Gen.UnionType.aggregate_bit_length_sets", "bls")}},
    {"name": "StructureType.bls", "source": COMPOSITE, "cls": "StructureType", "fn": "__init__", "kind": "slice",
     "params": [("alignment", "int"), ("fields", "tylist")], "ret": "bls", "targets": ["self._bls"], "result": "self._bls",
     "paths": {"self.alignment_requirement": ("alignment", "int"), "self.fields": ("fields", "tylist")},
     "calls": {"self.aggregate_bit_length_sets": ("Gen.StructureType.aggregate_bit_length_sets", "bls")}},
    {"name": "DelimitedType.bls", "source": COMPOSITE, "cls": "DelimitedType", "fn": "__init__", "kind": "slice",
     "params": [("alignment", "int"), ("inner", "ty"), ("extent", "int")], "ret": "bls",
     "targets": ["self._extent", "delimiter_header_bit_length", "self._bls"], "result": "self._bls",
     "aliases": {"self.extent": "self._extent", "self.bit_length_set": "self._bls", "self.inner_type.extent": "inner.extent",
                 "self.delimiter_header_type.bit_length": "delimiter_header_bit_length"},
     "paths": {"self.alignment_requirement": ("alignment", "int"), "inner.extent": ("inner.extent", "int"),
               "self._DEFAULT_DELIMITER_HEADER_BIT_LENGTH": ("(32 : Nat)", "int"), "self.BITS_PER_BYTE": ("(8 : Nat)", "int")},
     "consts": {"_DEFAULT_DELIMITER_HEADER_BIT_LENGTH": 32}},
    {"name": "FixedLengthArrayType.bls", "source": ARRAY, "cls": "FixedLengthArrayType", "fn": "__init__", "kind": "slice",
     "params": [("element_type", "ty"), ("capacity", "int")], "ret": "bls", "targets": ["self._bls"], "result": "self._bls",
     "paths": {"self.element_type.bit_length_set": ("element_type.bit_length_set", "bls"), "self.capacity": ("capacity", "int"),
               "self.alignment_requirement": ("element_type.alignment_requirement", "int")}},
    {"name": "FixedLengthArrayType.enumerate_elements_with_offsets", "source": ARRAY, "cls": "FixedLengthArrayType",
     "fn": "enumerate_elements_with_offsets", "kind": "generator",
     "params": [("element_type", "ty"), ("capacity", "int"), ("base_offset", "bls")], "ret": "offsets",
     "paths": {"self.element_type.bit_length_set": ("element_type.bit_length_set", "bls"), "self.capacity": ("capacity", "int"),
               "self.alignment_requirement": ("element_type.alignment_requirement", "int"),
               "self.element_type.alignment_requirement": ("element_type.alignment_requirement", "int")}},
    {"name": "VariableLengthArrayType.bls", "source": ARRAY, "cls": "VariableLengthArrayType", "fn": "__init__", "kind": "slice",
     "params": [("element_type", "ty"), ("capacity", "int")], "ret": "bls", "targets": ["length_field_length", "self._bls"], "result": "self._bls",
     "aliases": {"self.length_field_type.bit_length": "length_field_length"},
     "paths": {"self.element_type.bit_length_set": ("element_type.bit_length_set", "bls"), "self.capacity": ("capacity", "int"),
               "self.alignment_requirement": ("element_type.alignment_requirement", "int"),
               "self.element_type.alignment_requirement": ("element_type.alignment_requirement", "int"),
               "self.BITS_PER_BYTE": ("(8 : Nat)", "int")}},
    {"name": "VariableLengthArrayType.length_field_length", "source": ARRAY, "cls": "VariableLengthArrayType", "fn": "__init__", "kind": "slice",
     "params": [("element_type", "ty"), ("capacity", "int")], "ret": "int", "targets": ["length_field_length"], "result": "length_field_length",
     "paths": {"self.capacity": ("capacity", "int"), "self.alignment_requirement": ("element_type.alignment_requirement", "int"),
               "self.element_type.alignment_requirement": ("element_type.alignment_requirement", "int"),
               "self.BITS_PER_BYTE": ("(8 : Nat)", "int")}},
]

ITEMS += [
    {"name": "DataSchemaBuilder.offset", "source": BUILDER, "cls": "DataSchemaBuilder", "fn": "offset", "kind": "method",
     "params": [("union", "bool"), ("fields", "tylist")], "ret": "bls",
     "paths": {"self.union": ("union", "bool"), "self.fields": ("fields", "tylist"), "self._bit_length_computed_at_least_once": ("true", "bool")},
     "ignored_assignments": ["self._bit_length_computed_at_least_once"],
     "classes": {"_serializable.UnionType": "UnionType", "_serializable.StructureType": "StructureType"},
     "class_methods": {"aggregate_bit_length_sets": "bls"}},
]
PRIMITIVE = "pydsdl/_serializable/_primitive.py"
PRIMITIVE_ITEMS: typing.List[dict] = [
    {"name": "SignedIntegerType.inclusive_value_range", "source": PRIMITIVE, "cls": "SignedIntegerType", "fn": "inclusive_value_range", "kind": "method",
     "params": [("bit_length", "int")], "ret": "range", "paths": {"self.bit_length": ("bit_length", "int")}},
    {"name": "UnsignedIntegerType.inclusive_value_range", "source": PRIMITIVE, "cls": "UnsignedIntegerType", "fn": "inclusive_value_range", "kind": "method",
     "params": [("bit_length", "int")], "ret": "range", "paths": {"self.bit_length": ("bit_length", "int")}},
]

NAMESPACE = "pydsdl/_namespace.py"
NS_PREAMBLE = [
    "/-- One section of a composite (the request or response structure of a service, or a message type itself) as the",
    "    cross-definition checks of `_namespace.py` see it. -/",
    "structure SecI where",
    "  full_name : String",
    "  major : Nat",
    "  minor : Nat",
    "  has_fixed_port_id : Bool",
    "  fixed_port_id : Option Nat",
    "  extent : Nat",
    "  is_delimited : Bool",
    "/-- A composite type as the cross-definition checks see it (`is_service` = `isinstance(x, ServiceType)`). -/",
    "structure CompI where",
    "  full_name : String",
    "  major : Nat",
    "  minor : Nat",
    "  is_service : Bool",
    "  has_fixed_port_id : Bool",
    "  fixed_port_id : Option Nat",
    "  extent : Nat",
    "  is_delimited : Bool",
    "  request_type : SecI",
    "  response_type : SecI",
    "",
]
NS_ITEMS: typing.List[dict] = [
    {"name": "Namespace.pairwise_section", "source": NAMESPACE, "cls": None, "fn": "_ensure_minor_version_compatibility_pairwise", "kind": "method",
     "params": [("recur", "pairfn"), ("a", "sec"), ("b", "sec")], "ret": "unit", "paths": {},
     "calls": {"_ensure_minor_version_compatibility_pairwise": ("recur", "unit")}},
    {"name": "Namespace.pairwise", "source": NAMESPACE, "cls": None, "fn": "_ensure_minor_version_compatibility_pairwise", "kind": "method",
     "params": [("recur", "pairfn"), ("a", "comp"), ("b", "comp")], "ret": "unit", "paths": {},
     "calls": {"_ensure_minor_version_compatibility_pairwise": ("recur", "unit")}},
    {"name": "Namespace.ensure_no_fixed_port_id_collisions", "source": NAMESPACE, "cls": None, "fn": "_ensure_no_fixed_port_id_collisions", "kind": "method",
     "params": [("types", "complist")], "ret": "unit", "paths": {}},
]

VOID = "pydsdl/_serializable/_void.py"
RULE_ITEMS: typing.List[dict] = [
    {"name": "PrimitiveType.check", "source": PRIMITIVE, "cls": "PrimitiveType", "fn": "__init__", "kind": "slice", "from_start": True,
     "params": [("bit_length", "int")], "ret": "unit", "targets": ["self._bit_length"],
     "paths": {"self.MAX_BIT_LENGTH": ("(64 : Nat)", "int"), "self.BITS_IN_BYTE": ("(8 : Nat)", "int")}},
    {"name": "SignedIntegerType.check", "source": PRIMITIVE, "cls": "SignedIntegerType", "fn": "__init__", "kind": "slice", "from_start": True,
     "params": [("bit_length", "int"), ("saturated", "bool")], "ret": "unit", "targets": [],
     "paths": {"self._bit_length": ("bit_length", "int")},
     "exprs": {"cast_mode != PrimitiveType.CastMode.SATURATED": ("(!saturated)", "bool")}},
    {"name": "VoidType.check", "source": VOID, "cls": "VoidType", "fn": "__init__", "kind": "slice", "from_start": True,
     "params": [("bit_length", "int")], "ret": "unit", "targets": ["self._bit_length"],
     "paths": {"self.MAX_BIT_LENGTH": ("(64 : Nat)", "int")}},
    {"name": "ArrayType.check", "source": ARRAY, "cls": "ArrayType", "fn": "__init__", "kind": "slice", "from_start": True,
     "params": [("capacity", "int")], "ret": "unit", "targets": ["self._capacity"], "paths": {}},
    {"name": "UnionType.check", "source": COMPOSITE, "cls": "UnionType", "fn": "__init__", "kind": "slice", "from_start": True,
     "params": [("number_of_variants", "int")], "ret": "unit", "targets": [],
     "paths": {"self.number_of_variants": ("number_of_variants", "int"), "self.MIN_NUMBER_OF_VARIANTS": ("(2 : Nat)", "int")}},
    {"name": "CompositeType.check_version_and_port", "source": COMPOSITE, "cls": "CompositeType", "fn": "__init__", "kind": "slice",
     "params": [("major", "int"), ("minor", "int"), ("is_service", "bool"), ("fixed_port_id", "optint")], "ret": "unit",
     "targets": ["version_valid", "port_id"],
     "paths": {"self._version.major": ("major", "int"), "self._version.minor": ("minor", "int"), "self.MAX_VERSION_NUMBER": ("(255 : Nat)", "int"),
               "self._fixed_port_id": ("fixed_port_id", "optint"),
               "_port_id_ranges.MAX_SERVICE_ID": ("(511 : Nat)", "int"), "_port_id_ranges.MAX_SUBJECT_ID": ("(8191 : Nat)", "int")},
     "exprs": {"isinstance(self, ServiceType)": ("is_service", "bool")}},
]

# class constants the tables above assume; checked against the source on every run
CONSTANTS = [
    ("pydsdl/_serializable/_serializable.py", "SerializableType", "BITS_PER_BYTE", 8),
    (COMPOSITE, "DelimitedType", "_DEFAULT_DELIMITER_HEADER_BIT_LENGTH", 32),
    (PRIMITIVE, "PrimitiveType", "MAX_BIT_LENGTH", 64),
    (PRIMITIVE, "PrimitiveType", "BITS_IN_BYTE", 8),
    (VOID, "VoidType", "MAX_BIT_LENGTH", 64),
    (COMPOSITE, "CompositeType", "MAX_VERSION_NUMBER", 255),
    (COMPOSITE, "UnionType", "MIN_NUMBER_OF_VARIANTS", 2),
    ("pydsdl/_port_id_ranges.py", None, "MAX_SUBJECT_ID", 8191),
    ("pydsdl/_port_id_ranges.py", None, "MAX_SERVICE_ID", 511),
]

KEYWORDS = {"end", "at", "from", "by", "do", "then", "fun", "let", "in", "open", "show", "have", "match", "with", "where", "instance",
            "class", "structure", "def", "theorem", "mut", "type"}


def lname(n: str) -> str:
    n = n.lstrip("_") or n
    return n + "'" if n in KEYWORDS else n


class Tr:
    def __init__(self, item: dict):
        self.item = item
        self.paths: typing.Dict[str, typing.Tuple[str, str]] = dict(item.get("paths", {}))
        self.calls: typing.Dict[str, typing.Tuple[str, str]] = dict(item.get("calls", {}))
        self.aliases: typing.Dict[str, str] = dict(item.get("aliases", {}))
        self.types: typing.Dict[str, str] = {p: t for p, t in item["params"]}
        self.pre: typing.List[str] = []
        self.tmp = 0

    def fresh(self) -> str:
        self.tmp += 1
        return "t%d" % self.tmp

    def bind(self, m: str) -> str:
        v = self.fresh()
        self.pre.append("let %s ← %s" % (v, m))
        return v

    # ---- typed expression translation: returns (lean term, type tag)
    def path(self, n: ast.AST) -> typing.Optional[typing.Tuple[str, str]]:
        try:
            s = ast.unparse(n)
        except Exception:  # pragma: no cover
            return None
        s = self.aliases.get(s, s)
        if s in self.paths:
            return self.paths[s]
        if s in self.types:
            return lname(s), self.types[s]
        return None

    def e(self, n: ast.AST) -> typing.Tuple[str, str]:
        ex = self.item.get("exprs")
        if ex:
            try:
                key = ast.unparse(n)
            except Exception:  # pragma: no cover
                key = None
            if key in ex:
                return ex[key]
        p = self.path(n) if isinstance(n, (ast.Attribute, ast.Name)) else None
        if p is not None:
            return p
        if isinstance(n, ast.Constant):
            if isinstance(n.value, bool):
                return ("true" if n.value else "false"), "bool"
            if isinstance(n.value, int) and n.value >= 0:
                return "(%d : Nat)" % n.value, "int"
            if isinstance(n.value, str):
                return '"' + n.value.replace("\\", "\\\\").replace('"', '\\"') + '"', "str"
            raise Untranslatable("constant %r" % (n.value,))
        if isinstance(n, ast.Name):
            raise Untranslatable("unknown name %s" % n.id)
        if isinstance(n, ast.Attribute):
            base, bt = self.e(n.value)
            if n.attr == "data_type" and bt == "ty":
                return base, "ty"
            if bt == "ty" and n.attr in ("alignment_requirement", "extent"):
                return "(%s).%s" % (base, n.attr), "int"
            if bt == "ty" and n.attr == "bit_length_set":
                return "(%s).bit_length_set" % base, "bls"
            if bt in ("comp", "sec"):
                if n.attr == "version":
                    return base, "ver:" + bt
                tbl = {"full_name": "str", "has_fixed_port_id": "bool", "fixed_port_id": "optint", "extent": "int"}
                if n.attr in tbl:
                    return "(%s).%s" % (base, n.attr), tbl[n.attr]
                if n.attr in ("request_type", "response_type"):
                    return ("(%s).%s" % (base, n.attr), "sec") if bt == "comp" else (base, "sec")
            if bt.startswith("ver:") and n.attr in ("major", "minor"):
                return "(%s).%s" % (base, n.attr), "int"
            if bt == "bls" and n.attr == "max":
                return "(Bls.Op.max %s)" % base, "int"
            if bt == "bls" and n.attr == "min":
                return "(Bls.Op.min %s)" % base, "int"
            raise Untranslatable("attribute %s" % ast.unparse(n))
        if isinstance(n, ast.BinOp):
            a, ta = self.e(n.left)
            b, tb = self.e(n.right)
            if isinstance(n.op, ast.Add):
                if ta == "bls" or tb == "bls":
                    return "(Py.blsAdd %s %s)" % (self.as_bls(a, ta), self.as_bls(b, tb)), "bls"
                if ta in ("intlist", "tylist", "blslist") and ta == tb:
                    return "(%s ++ %s)" % (a, b), ta
                if ta == tb == "int":
                    return "(%s + %s)" % (a, b), "int"
            if "sint" in (ta, tb) and ta in ("int", "sint") and tb in ("int", "sint"):
                sym = {ast.Add: "+", ast.Sub: "-", ast.Mult: "*"}.get(type(n.op))
                if sym is None:
                    raise Untranslatable("operator %s on signed integers" % type(n.op).__name__)
                return "(%s %s %s)" % (self.as_sint(a, ta), sym, self.as_sint(b, tb)), "sint"
            if ta == tb == "int" and isinstance(n.op, ast.LShift):
                return "(%s <<< %s)" % (a, b), "int"
            if ta == tb == "int":
                if isinstance(n.op, ast.Sub):
                    return self.bind("Py.sub %s %s" % (a, b)), "int"
                if isinstance(n.op, ast.Mult):
                    return "(%s * %s)" % (a, b), "int"
                if isinstance(n.op, ast.FloorDiv):
                    return self.bind("Py.floordiv %s %s" % (a, b)), "int"
                if isinstance(n.op, ast.Mod):
                    return self.bind("Py.mod %s %s" % (a, b)), "int"
                if isinstance(n.op, ast.Pow):
                    return "(%s ^ %s)" % (a, b), "int"
            raise Untranslatable("operator %s on %s, %s" % (type(n.op).__name__, ta, tb))
        if isinstance(n, ast.UnaryOp) and isinstance(n.op, (ast.USub, ast.UAdd)):
            a, ta = self.e(n.operand)
            if ta not in ("int", "sint"):
                raise Untranslatable("unary sign on %s" % ta)
            a = self.as_sint(a, ta)
            return ("(-%s)" % a if isinstance(n.op, ast.USub) else a), "sint"
        if isinstance(n, ast.UnaryOp) and isinstance(n.op, ast.Not):
            a, ta = self.e(n.operand)
            if ta != "bool":
                raise Untranslatable("not on %s" % ta)
            return "(!%s)" % a, "bool"
        if isinstance(n, ast.Compare):
            parts = []
            left, tl = self.e(n.left)
            for op, c in zip(n.ops, n.comparators):
                if isinstance(op, ast.In) and isinstance(c, ast.Set):
                    elems = [self.e(x)[0] for x in c.elts]
                    parts.append("(" + " || ".join("(%s == %s)" % (left, x) for x in elems) + ")")
                    continue
                if isinstance(op, (ast.Is, ast.IsNot)) and isinstance(c, ast.Constant) and c.value is None and tl == "optint":
                    parts.append("(%s).isSome" % left if isinstance(op, ast.IsNot) else "(%s).isNone" % left)
                    continue
                if isinstance(op, (ast.Is, ast.IsNot)) and isinstance(c, ast.Constant) and c.value is None and tl == "int":
                    parts.append("true" if isinstance(op, ast.IsNot) else "false")  # an integer is never None
                    continue
                r, tr = self.e(c)
                if isinstance(op, (ast.Is, ast.IsNot)) and tl == tr and tl in ("comp", "sec"):
                    # object identity of two records is not modelled: the callers pass distinct objects
                    parts.append("true" if isinstance(op, ast.IsNot) else "false")
                    left, tl = r, tr
                    continue
                if tl == tr and tl in ("str", "bool", "optint") and isinstance(op, (ast.Eq, ast.NotEq)):
                    parts.append("(%s %s %s)" % (left, "==" if isinstance(op, ast.Eq) else "!=", r))
                    left, tl = r, tr
                    continue
                if tl != "int" or tr != "int":
                    raise Untranslatable("comparison of %s and %s" % (tl, tr))
                sym = {ast.Eq: "==", ast.NotEq: "!=", ast.LtE: "≤", ast.Lt: "<", ast.GtE: "≥", ast.Gt: ">"}.get(type(op))
                if sym is None:
                    raise Untranslatable("comparison %s" % type(op).__name__)
                parts.append("(%s %s %s)" % (left, sym, r) if sym in ("==", "!=") else "decide (%s %s %s)" % (left, sym, r))
                left, tl = r, tr
            return "(" + " && ".join(parts) + ")", "bool"
        if isinstance(n, ast.BoolOp):
            before = len(self.pre)
            vals = [self.e(v) for v in n.values]
            if len(self.pre) != before or any(t != "bool" for _, t in vals):
                raise Untranslatable("short-circuit operator with raising or non-boolean operands")
            return "(" + (" && " if isinstance(n.op, ast.And) else " || ").join(v for v, _ in vals) + ")", "bool"
        if isinstance(n, ast.IfExp):
            c, tc = self.e(n.test)
            sa, sb = self.sub(), self.sub()
            a, ta = sa.e(n.body)
            b, tb = sb.e(n.orelse)
            if ta != tb:
                if "bls" in (ta, tb):
                    a, b, ta = sa.as_bls(a, ta), sb.as_bls(b, tb), "bls"
                else:
                    raise Untranslatable("conditional expression of types %s / %s" % (ta, tb))
            self.tmp = max(sa.tmp, sb.tmp)
            if sa.pre or sb.pre:
                blk = lambda s, v: "(do\n      " + "\n      ".join(s.pre + ["pure %s" % v]) + ")"  # noqa: E731
                return self.bind("(if %s then %s else %s)" % (c, blk(sa, a), blk(sb, b))), ta
            return "(if %s then %s else %s)" % (c, a, b), ta
        if isinstance(n, ast.Subscript):
            base, bt = self.e(n.value)
            et = {"tylist": "ty", "blslist": "bls", "intlist": "int"}.get(bt)
            if et is None:
                raise Untranslatable("subscript of %s" % bt)
            if isinstance(n.slice, ast.Slice):
                if n.slice.upper is None and n.slice.step is None and isinstance(n.slice.lower, ast.Constant) and isinstance(n.slice.lower.value, int) and n.slice.lower.value >= 0:
                    return "((%s).drop %d)" % (base, n.slice.lower.value), bt
                raise Untranslatable("slice %s" % ast.unparse(n.slice))
            i, ti = self.e(n.slice)
            if ti != "int":
                raise Untranslatable("index of type %s" % ti)
            return self.bind("Py.index %s %s" % (base, i)), et
        if isinstance(n, ast.List):
            elems = [self.e(x) for x in n.elts]
            ts = {t for _, t in elems}
            if len(ts) != 1:
                raise Untranslatable("heterogeneous list")
            t = ts.pop()
            lt = {"int": "intlist", "ty": "tylist", "bls": "blslist", "str": "strlist"}.get(t)
            if lt is None:
                raise Untranslatable("list of %s" % t)
            return "[" + ", ".join(v for v, _ in elems) + "]", lt
        if isinstance(n, (ast.ListComp, ast.GeneratorExp)):
            if len(n.generators) != 1 or n.generators[0].ifs or not isinstance(n.generators[0].target, ast.Name):
                raise Untranslatable("comprehension shape")
            g = n.generators[0]
            it, tit = self.e(g.iter)
            et = {"tylist": "ty", "blslist": "bls", "intlist": "int"}.get(tit)
            if et is None:
                raise Untranslatable("comprehension over %s" % tit)
            s = self.sub()
            s.types[g.target.id] = et
            body, tb = s.e(n.elt)
            self.tmp = s.tmp
            rt = {"int": "intlist", "ty": "tylist", "bls": "blslist"}.get(tb)
            if rt is None:
                raise Untranslatable("comprehension yielding %s" % tb)
            v = lname(g.target.id)
            if s.pre:
                return self.bind("(%s).mapM (fun %s => do\n      %s\n      pure %s)" % (it, v, "\n      ".join(s.pre), body)), rt
            return "((%s).map (fun %s => %s))" % (it, v, body), rt
        if isinstance(n, ast.Call):
            return self.call(n)
        raise Untranslatable(type(n).__name__)

    def sub(self) -> "Tr":
        s = Tr(self.item)
        s.paths, s.calls, s.aliases, s.types = self.paths, self.calls, self.aliases, dict(self.types)
        s.choices = getattr(self, "choices", {})
        s.tmp = self.tmp + 50
        return s

    @staticmethod
    def as_sint(v: str, t: str) -> str:
        if t == "sint":
            return v
        if t == "int":
            return "(%s : Int)" % v
        raise Untranslatable("%s used as an integer" % t)

    @staticmethod
    def as_bls(v: str, t: str) -> str:
        if t == "bls":
            return v
        if t == "int":
            return "(Py.blsOfInt %s)" % v
        raise Untranslatable("%s used as a bit length set" % t)

    def call(self, n: ast.Call) -> typing.Tuple[str, str]:
        f = n.func
        try:
            fs = ast.unparse(f)
        except Exception:  # pragma: no cover
            fs = "?"
        if fs == "ValueRange" and not n.args and [k.arg for k in n.keywords] == ["min", "max"]:
            lo, tlo = self.e(n.keywords[0].value)
            hi, thi = self.e(n.keywords[1].value)
            return "(%s, %s)" % (self.as_sint(lo, tlo), self.as_sint(hi, thi)), "range"
        if fs in ("fractions.Fraction", "Fraction") and len(n.args) == 1 and not n.keywords:
            a, ta = self.e(n.args[0])
            if ta in ("int", "sint"):
                return a, ta
        if n.keywords:
            raise Untranslatable("keyword arguments")
        try:
            fs = ast.unparse(f)
        except Exception:  # pragma: no cover
            fs = "?"
        choices = getattr(self, "choices", {})
        if isinstance(f, ast.Attribute) and isinstance(f.value, ast.Name) and f.value.id in choices:
            c, ca, cb = choices[f.value.id]
            meths = self.item.get("class_methods", {})
            if f.attr not in meths:
                raise Untranslatable("method %s of a class chosen at run time" % f.attr)
            rt = meths[f.attr]
            args = " ".join(self.e(a)[0] for a in n.args)
            return self.bind("(if %s then Gen.%s.%s %s else Gen.%s.%s %s)" % (c, ca, f.attr, args, cb, f.attr, args)), rt
        if fs in self.calls:
            target, rt = self.calls[fs]
            args = " ".join(self.e(a)[0] for a in n.args)
            return self.bind(("%s %s" % (target, args)).strip()), rt
        if isinstance(f, ast.Name):
            if f.id in ("min", "max"):
                if len(n.args) == 2:
                    a, b = self.e(n.args[0]), self.e(n.args[1])
                    if a[1] == b[1] == "int":
                        return "(%s %s %s)" % (f.id, a[0], b[0]), "int"
                if len(n.args) == 1:
                    a = self.e(n.args[0])
                    if a[1] == "intlist":
                        return self.bind("Py.%sOf %s" % (f.id, a[0])), "int"
                raise Untranslatable("%s(...)" % f.id)
            if f.id == "len" and len(n.args) == 1:
                a = self.e(n.args[0])
                if a[1] in ("tylist", "blslist", "intlist"):
                    return "(%s).length" % a[0], "int"
                if a[1] == "bls":
                    return "(Py.blsLen %s)" % a[0], "int"
                raise Untranslatable("len of %s" % a[1])
            if f.id == "int" and len(n.args) == 1:
                a = self.e(n.args[0])
                if a[1] == "int":
                    return a
            if f.id == "range" and len(n.args) == 1:
                a = self.e(n.args[0])
                if a[1] == "int":
                    return "(Py.range %s)" % a[0], "intlist"
            if f.id == "isinstance" and len(n.args) == 2:
                a = self.e(n.args[0])
                want = ast.unparse(n.args[1])
                if a[1] in ("comp", "sec") and want.endswith("ServiceType"):
                    return ("(%s).is_service" % a[0] if a[1] == "comp" else "false"), "bool"
                if a[1] in ("comp", "sec") and want.endswith("DelimitedType"):
                    return "(%s).is_delimited" % a[0], "bool"
                ok = {"int": "int", "BitLengthSet": "bls", "_bit_length_set.BitLengthSet": "bls"}.get(want)
                if ok is not None and a[1] == ok:
                    return "true", "bool"
                raise Untranslatable("isinstance(%s, %s)" % (a[1], want))
            if f.id == "BitLengthSet" and len(n.args) == 1:
                a = self.e(n.args[0])
                return self.as_bls(*a), "bls"
        if isinstance(f, ast.Attribute):
            if isinstance(f.value, ast.Name) and f.value.id == "math":
                if f.attr == "ceil" and len(n.args) == 1 and isinstance(n.args[0], ast.Call) and ast.unparse(n.args[0].func) == "math.log2":
                    a = self.e(n.args[0].args[0])
                    if a[1] == "int":
                        return self.bind("Py.ceilLog2 %s" % a[0]), "int"
            if ast.unparse(f.value) in ("BitLengthSet", "_bit_length_set.BitLengthSet") and f.attr == "unite" and len(n.args) == 1:
                a = self.e(n.args[0])
                if a[1] == "blslist":
                    return self.bind("Py.blsUnite %s" % a[0]), "bls"
            base, bt = self.e(f.value)
            if bt == "bls":
                args = [self.e(a) for a in n.args]
                if f.attr == "pad_to_alignment" and len(args) == 1 and args[0][1] == "int":
                    return self.bind("Py.blsPad %s %s" % (base, args[0][0])), "bls"
                if f.attr == "repeat" and len(args) == 1 and args[0][1] == "int":
                    return "(Py.blsRepeat %s %s)" % (base, args[0][0]), "bls"
                if f.attr == "repeat_range" and len(args) == 1 and args[0][1] == "int":
                    return "(Py.blsRepeatRange %s %s)" % (base, args[0][0]), "bls"
                if f.attr == "is_aligned_at" and len(args) == 1 and args[0][1] == "int":
                    return self.bind("Py.blsIsAlignedAt %s %s" % (base, args[0][0])), "bool"
                if f.attr == "is_aligned_at_byte" and not args:
                    return self.bind("Py.blsIsAlignedAt %s (8 : Nat)" % base), "bool"
            if bt == "int" and f.attr == "bit_length" and not n.args:
                return "(Py.bitLength %s)" % base, "int"
        raise Untranslatable("call %s" % fs)

    # ---- statements
    def flush(self, out: typing.List[str], ind: str) -> None:
        out.extend(ind + p for p in self.pre)
        self.pre = []

    def assign(self, target: ast.AST, value: ast.AST, out, ind, declared: typing.Set[str], mut: typing.Set[str]) -> None:
        # `ty = A if cond else B` with A, B classes whose static methods are translated: remembered, not emitted
        classes = self.item.get("classes", {})
        if isinstance(target, ast.Name) and isinstance(value, ast.IfExp) and ast.unparse(value.body) in classes and ast.unparse(value.orelse) in classes:
            c, tc = self.e(value.test)
            if tc != "bool":
                raise Untranslatable("class choice on %s" % tc)
            self.choices = getattr(self, "choices", {})
            self.choices[target.id] = (c, classes[ast.unparse(value.body)], classes[ast.unparse(value.orelse)])
            return
        v, t = self.e(value)
        self.flush(out, ind)
        ts = ast.unparse(target)
        if ts in self.item.get("ignored_assignments", ()):
            return
        name = lname(ts[5:] if ts.startswith("self.") else ts)
        if not (isinstance(target, ast.Name) or ts.startswith("self._")):
            raise Untranslatable("assignment to %s" % ts)
        if name in declared and name in mut:
            if self.types.get(name, t) != t and "bls" in (t, self.types.get(name)):
                v, t = self.as_bls(v, t), "bls"
            out.append("%s%s := %s" % (ind, name, v))
        elif name in declared:  # a parameter or single-assignment local: shadow it
            if v != name:
                out.append("%slet %s := %s" % (ind, name, v))
        else:
            out.append("%s%s %s := %s" % (ind, "let mut" if name in mut else "let", name, v))
            declared.add(name)
        self.types[name] = t
        self.paths[ts] = (name, t)

    def stmts(self, body, ind, out, declared, mut, gen: bool) -> None:
        for s in body:
            if isinstance(s, ast.Expr) and isinstance(s.value, ast.Constant):
                continue
            if isinstance(s, ast.Pass):
                continue
            if isinstance(s, ast.Assign) and len(s.targets) == 1:
                self.assign(s.targets[0], s.value, out, ind, declared, mut)
            elif isinstance(s, ast.Assert):
                v, t = self.e(s.test)
                self.flush(out, ind)
                out.append("%sPy.assert %s" % (ind, v))
            elif isinstance(s, ast.Return) and s.value is not None:
                v, t = self.e(s.value)
                if self.item["ret"] == "bls":
                    v = self.as_bls(v, t)
                self.flush(out, ind)
                out.append("%sreturn %s" % (ind, v))
            elif isinstance(s, ast.If):
                c, tc = self.e(s.test)
                self.flush(out, ind)
                out.append("%sif %s then" % (ind, c))
                narrowed = None
                t0 = s.test
                if (isinstance(t0, ast.Compare) and len(t0.ops) == 1 and isinstance(t0.ops[0], ast.IsNot) and isinstance(t0.left, ast.Name)
                        and isinstance(t0.comparators[0], ast.Constant) and t0.comparators[0].value is None
                        and self.types.get(lname(t0.left.id)) == "optint"):
                    # inside `if x is not None:` the optional integer is an integer
                    nm = lname(t0.left.id)
                    narrowed = (nm, self.paths.get(t0.left.id), self.types.get(nm))
                    self.types[nm] = "int"
                    self.paths[t0.left.id] = ("(%s).get!" % nm, "int")
                self.stmts(s.body, ind + "  ", out, set(declared), mut, gen)
                if narrowed is not None:
                    nm, oldp, oldt = narrowed
                    self.types[nm] = oldt
                    if oldp is None:
                        self.paths.pop(t0.left.id, None)
                    else:
                        self.paths[t0.left.id] = oldp
                if s.orelse:
                    out.append("%selse" % ind)
                    self.stmts(s.orelse, ind + "  ", out, set(declared), mut, gen)
            elif isinstance(s, ast.Raise) and s.exc is not None:
                cls = s.exc.func if isinstance(s.exc, ast.Call) else s.exc
                out.append('%sthrow (.other "%s")' % (ind, ast.unparse(cls)))
            elif isinstance(s, ast.Expr) and isinstance(s.value, ast.Call) and ast.unparse(s.value.func) in self.calls:
                self.e(s.value)
                self.flush(out, ind)
            elif isinstance(s, ast.Expr) and isinstance(s.value, ast.Yield) and gen:
                y = s.value.value
                if isinstance(y, ast.Tuple) and len(y.elts) == 2:
                    v, t = self.e(y.elts[1])
                    self.flush(out, ind)
                    out.append("%sys := ys ++ [%s]" % (ind, self.as_bls(v, t)))
                else:
                    raise Untranslatable("yield shape")
            elif isinstance(s, ast.For) and isinstance(s.target, ast.Name) and not s.orelse:
                it, tit = self.e(s.iter)
                et = {"tylist": "ty", "blslist": "bls", "intlist": "int", "complist": "comp"}.get(tit)
                if et is None:
                    raise Untranslatable("for over %s" % tit)
                self.flush(out, ind)
                assigned = assigned_in(s.body) | ({"ys"} if gen and contains(s.body, ast.Yield) else set())
                carried = sorted(v for v in assigned if lname(v) in declared)
                if contains(s.body, (ast.Return, ast.Break, ast.Continue)):
                    raise Untranslatable("return / break / continue inside a for loop")
                if not carried:  # a loop that only checks (raises or not)
                    self.types[s.target.id] = et
                    body0: typing.List[str] = []
                    self.stmts(s.body, ind + "    ", body0, set(declared), mut | {lname(v) for v in assigned}, gen)
                    out.append("%sPy.forEach %s () (fun () %s => do" % (ind, it, lname(s.target.id)))
                    out.extend(body0)
                    out.append("%s    pure ())" % ind)
                    continue
                state = lname(carried[0]) if len(carried) == 1 else "(" + ", ".join(map(lname, carried)) + ")"
                self.types[s.target.id] = et
                body: typing.List[str] = []
                inner_mut = mut | {lname(v) for v in assigned - set(carried)}
                self.stmts(s.body, ind + "    ", body, set(declared), inner_mut, gen)
                out.append("%s%s ← Py.forEach %s %s (fun %s %s => do" % (ind, state, it, state, state, lname(s.target.id)))
                for v in carried:
                    out.append("%s    let mut %s := %s" % (ind, lname(v), lname(v)))
                out.extend(body)
                out.append("%s    pure %s)" % (ind, state))
            else:
                raise Untranslatable("statement %s" % type(s).__name__)


def assigned_in(body) -> typing.Set[str]:
    out: typing.Set[str] = set()
    for n in ast.walk(ast.Module(body=body, type_ignores=[])):
        if isinstance(n, ast.Assign):
            out |= {t.id for t in n.targets if isinstance(t, ast.Name)}
        elif isinstance(n, ast.AugAssign) and isinstance(n.target, ast.Name):
            out.add(n.target.id)
    return out


def contains(body, kinds) -> bool:
    return any(isinstance(n, kinds) for n in ast.walk(ast.Module(body=body, type_ignores=[])))


def multi_assigned(body) -> typing.Set[str]:
    cnt: typing.Dict[str, int] = {}
    for n in ast.walk(ast.Module(body=body, type_ignores=[])):
        if isinstance(n, ast.Assign):
            for t in n.targets:
                s = ast.unparse(t)
                nm = lname(s[5:] if s.startswith("self.") else s)
                cnt[nm] = cnt.get(nm, 0) + 1
        elif isinstance(n, ast.For):
            for v in assigned_in(n.body):
                cnt[lname(v)] = cnt.get(lname(v), 0) + 2
    return {k for k, v in cnt.items() if v > 1}


def select_slice(item: dict, fn: ast.FunctionDef) -> typing.List[ast.stmt]:
    """Top-level statements of a constructor that belong to a slice: assignments to the listed targets, `if …: raise` guards and
    asserts -- the latter two only when they can be expressed over the slice's inputs (checked by a trial translation)."""
    targets = set(item["targets"])
    chosen: typing.List[ast.stmt] = []
    started = bool(item.get("from_start"))

    def guard_only(body) -> bool:
        return all(isinstance(x, (ast.Raise, ast.Assert)) or (isinstance(x, ast.If) and guard_only(x.body) and guard_only(x.orelse)) for x in body)

    for s in fn.body:
        if isinstance(s, ast.Assign) and len(s.targets) == 1 and ast.unparse(s.targets[0]) in targets:
            chosen.append(s)
            started = True
        elif started and isinstance(s, (ast.Assert, ast.If)):
            if isinstance(s, ast.If) and not (guard_only(s.body) and guard_only(s.orelse)):
                continue
            chosen.append(s)
    found = {ast.unparse(s.targets[0]) for s in chosen if isinstance(s, ast.Assign)}
    if found != targets:
        raise Untranslatable("slice targets not found: %s" % sorted(targets - found))
    return chosen


def translate_item(item: dict, repo: Path) -> typing.Tuple[typing.List[str], typing.Optional[str]]:
    params = " ".join("(%s : %s)" % (lname(p), LEAN_TY[t]) for p, t in item["params"])
    rt = LEAN_TY[item["ret"]]
    head = "def Gen.%s %s : Py.M %s := do" % (item["name"], params, "(" + rt + ")" if " " in rt else rt)
    try:
        src = (repo / item["source"]).read_text()
        tree = ast.parse(src)
        if item["cls"] is None:
            cls = tree
        else:
            cls = next((c for c in tree.body if isinstance(c, ast.ClassDef) and c.name == item["cls"]), None)
        if cls is None:
            raise Untranslatable("class %s not found" % item["cls"])
        fn = next((f for f in cls.body if isinstance(f, ast.FunctionDef) and f.name == item["fn"]), None)
        if fn is None:
            raise Untranslatable("%s.%s not found" % (item["cls"], item["fn"]))
        lines = src.splitlines()
        text = "\n".join(lines[fn.lineno - 1: fn.end_lineno])
        span = "%s lines %d-%d sha256 %s" % (item["source"], fn.lineno, fn.end_lineno, hashlib.sha256(text.encode()).hexdigest()[:16])
        tr = Tr(item)
        body: typing.List[str] = []
        declared = {lname(p) for p, _ in item["params"]}
        if item["kind"] == "slice":
            stmts = select_slice(item, fn)
            skipped = []
            mut = multi_assigned([x for x in stmts if isinstance(x, ast.Assign)])
            for s in stmts:
                if isinstance(s, ast.Assign):
                    tr.stmts([s], "  ", body, declared, mut, False)
                    continue
                # guards / asserts that mention things outside the slice are left out (and listed in the header comment)
                saved = (len(body), list(tr.pre), tr.tmp)
                try:
                    tr.stmts([s], "  ", body, declared, mut, False)
                except Untranslatable as ex:
                    del body[saved[0]:]
                    tr.pre, tr.tmp = saved[1], saved[2]
                    skipped.append("%s (%s)" % (ast.unparse(s.test)[:80].replace("-/", "- /"), ex))
            if item["ret"] == "unit":
                body.append("  pure ()")
            else:
                res, rtag = tr.e(ast.parse(item["result"], mode="eval").body)
                if item["ret"] == "bls":
                    res = tr.as_bls(res, rtag)
                tr.flush(body, "  ")
                body.append("  return %s" % res)
            note = "/- %s (constructor slice: %s)  %s%s -/" % (item["name"], ", ".join(item["targets"]), span,
                                                               ("; left out: " + "; ".join(skipped)) if skipped else "")
        else:
            gen = item["kind"] == "generator"
            mut = multi_assigned(fn.body) | ({"ys"} if gen else set())
            if gen:
                body.append("  let mut ys : List Bls.Op := []")
                declared.add("ys")
            tr.stmts(fn.body, "  ", body, declared, mut, gen)
            if gen:
                body.append("  return ys")
            if item["ret"] == "unit":
                body.append("  pure ()")
            note = "/- %s  %s -/" % (item["name"], span)
        return [note, head] + body + [""], None
    except (Untranslatable, OSError, SyntaxError) as ex:
        ps = " ".join("(_%s : %s)" % (lname(p), LEAN_TY[t]) for p, t in item["params"])
        stub = ["def Gen.%s %s : Py.M %s :=" % (item["name"], ps, "(" + rt + ")" if " " in rt else rt),
                '  throw (.other "untranslatable: %s")' % str(ex).replace("\\", "/").replace('"', "'")[:200], ""]
        return stub, "%s %s: %s" % (item["source"], item["name"], ex)


RULE_CONSTANT_NAMES = {"MAX_BIT_LENGTH", "BITS_IN_BYTE", "MAX_VERSION_NUMBER", "MIN_NUMBER_OF_VARIANTS", "MAX_SUBJECT_ID", "MAX_SERVICE_ID"}


def check_constants(repo: Path, rules: bool = False) -> typing.List[str]:
    probs = []
    for src, cls, name, want in CONSTANTS:
        if (name in RULE_CONSTANT_NAMES) != rules:
            continue
        try:
            tree = ast.parse((repo / src).read_text())
            c = tree if cls is None else next(x for x in tree.body if isinstance(x, ast.ClassDef) and x.name == cls)
            val = None
            for s in c.body:
                if isinstance(s, ast.Assign) and len(s.targets) == 1 and isinstance(s.targets[0], ast.Name) and s.targets[0].id == name:
                    val = ast.literal_eval(s.value)
            if val != want:
                probs.append("%s %s.%s = %r, the translation tables assume %r" % (src, cls, name, val, want))
        except Exception as ex:  # noqa: BLE001
            probs.append("%s %s.%s: %s" % (src, cls, name, ex))
    return probs


def translate_layout(repo: Path) -> typing.Tuple[str, typing.List[str]]:
    out = ["import PyLib", "/-! GENERATED by tools/py2lean.py (layout group) from pydsdl/_serializable -- do not edit. -/",
           "set_option linter.unusedVariables false", ""] + PREAMBLE
    problems = check_constants(repo)
    for item in ITEMS:
        lines, prob = translate_item(item, repo)
        out += lines
        if prob:
            problems.append(prob)
    return "\n".join(out) + "\n", problems


def translate_primitive(repo: Path) -> typing.Tuple[str, typing.List[str]]:
    out = ["import PyLib", "/-! GENERATED by tools/py2lean.py (value ranges of pydsdl/_serializable/_primitive.py) -- do not edit. -/",
           "set_option linter.unusedVariables false", ""]
    problems: typing.List[str] = []
    for item in PRIMITIVE_ITEMS:
        lines, prob = translate_item(item, repo)
        out += lines
        if prob:
            problems.append(prob)
    return "\n".join(out) + "\n", problems


def translate_rules(repo: Path) -> typing.Tuple[str, typing.List[str]]:
    out = ["import PyLib", "/-! GENERATED by tools/py2lean.py (rules group: constructor guards of pydsdl/_serializable) -- do not edit. -/",
           "set_option linter.unusedVariables false", ""]
    problems: typing.List[str] = check_constants(repo, rules=True)
    for item in RULE_ITEMS:
        lines, prob = translate_item(item, repo)
        out += lines
        if prob:
            problems.append(prob)
    return "\n".join(out) + "\n", problems


def translate_namespace(repo: Path) -> typing.Tuple[str, typing.List[str]]:
    out = ["import PyLib", "/-! GENERATED by tools/py2lean.py (namespace group) from pydsdl/_namespace.py -- do not edit. -/",
           "set_option linter.unusedVariables false", ""] + NS_PREAMBLE
    problems: typing.List[str] = []
    for item in NS_ITEMS:
        lines, prob = translate_item(item, repo)
        out += lines
        if prob:
            problems.append(prob)
    return "\n".join(out) + "\n", problems
