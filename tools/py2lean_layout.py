"""
Second target group of py2lean: the layout kernels of pydsdl/_serializable (array / composite constructors' bit length set
construction, length-prefix / tag widths, alignment, the `iterate_fields_with_offsets` generators, `enumerate_elements_with_offsets`)
and DataSchemaBuilder.offset.  Output: lean/Gen/Layout.lean.

Differences from the _symbolic.py group:
  * values of type BitLengthSet are *operator trees* (`Bls.Op`): the composition API of BitLengthSet is mapped to the
    constructors it wraps (`a + b` -> ConcatenationOperator([a, b]), `.pad_to_alignment(n)` -> PaddingOperator, `.repeat(k)`,
    `.repeat_range(k)`, `BitLengthSet.unite(xs)`, `BitLengthSet(n)` -> NullaryOperator([n])); these mappings are PyLib
    primitives (`Py.bls*`), raising what the Python constructors raise;
  * a target is either a whole method / function, or a *slice* of a constructor: the top-level statements that assign the
    listed attributes, the `if …: raise` guards and the `assert`s that can be expressed over the slice's inputs;
  * attribute paths (`self.element_type.alignment_requirement`, `x.data_type.bit_length_set`, …) are resolved through a
    per-target table to parameters of the generated definition; serializable types are seen through the record `TypeI`
    (alignment_requirement, bit_length_set, extent); `f.data_type` of a field is the field's type (fields are `TypeI`);
  * generators: `yield a, b` appends `b` to the result list.

Robustness against behaviour-preserving refactorings (the same Lean term, or one that the bridges normalise away, for cosmetic edits;
everything whose meaning is not certain is still refused and becomes an always-failing stub):
  * canonical booleans (`b_*`): negations pushed to the atoms (De Morgan; `not (a < b)` is `b <= a` on integers), `>` / `>=` turned
    round, `0 <= n` dropped, constants folded (an `if` that the types decide keeps only its live branch), operands of `and` / `or` /
    `==` / `!=` / `+` / `*` / `max` / `min` sorted; `1 << n` is `2 ** n`; `x is None` is `not (x is not None)`; an integer / a list in
    a boolean context is `0 < n` / `0 < len`; `a and b` with a raising `b` is `b if a else False`;
  * statements: `continue` / a bare `return` become `if … else` (`norm_block`); `if c: x = A else: x = B` is `x = A if c else B`;
    `if x < y: x = y` is `x = max(x, y)`; tuple assignment; `+=`; `for i in range(a, len(xs)): … xs[i]` is `for x in xs[a:]`
    (`index_loop`); `[f(x) for x in xs if p(x)]` is filter + map; locals that only message texts read are dropped;
  * slices are closed under data flow: the statements that define what a chosen statement reads (locals, `self._x` assigned earlier in
    the constructor) are pulled in on demand (`Need`), so renaming / adding / removing a local does not matter; guards start after
    the first statement of the slice; calls of helper methods of `self` are guard candidates;
  * helpers: a function / method / property the target calls (same class or its bases in the file, module level, or imported from a
    sibling module) that the tables do not name is inlined as a local function applied to the arguments (`inline`), a single-`return`
    property or method as its expression; never through a method that a subclass in the file redefines;
  * attributes: `self._x` behind a declared property (`return self._x[:]`), class constants, constructor arguments
    (`{"attr", "ctor", "arg"}` aliases), cached values (`cached_attr`, with the syntactic immutability checks listed there),
    `try: return self._x  except AttributeError: return f()` when both branches are the same term;
  * private helpers that the tables name are found again through the call graph when they were renamed (`locate`).
"""
from __future__ import annotations

import ast
import hashlib
import re
import typing
from pathlib import Path


class Untranslatable(Exception):
    pass


LEAN_TY = {"int": "Nat", "bool": "Bool", "bls": "Bls.Op", "ty": "TypeI", "tylist": "List TypeI", "blslist": "List Bls.Op",
           "intlist": "List Nat", "offsets": "List Bls.Op", "iter": "(Bls.Op → Py.M (List Bls.Op))", "sint": "Int", "range": "Int × Int", "str": "String", "optint": "Option Nat", "comp": "CompI", "sec": "SecI",
           "complist": "List CompI", "unit": "Unit", "strlist": "List String", "pairfn": "(SecI → SecI → Py.M Unit)"}

PREAMBLE = [
    "/-- A serializable type as the layout code sees it. -/",
    "structure TypeI where",
    "  alignment_requirement : Nat",
    "  bit_length_set : Bls.Op",
    "  extent : Nat",
    "",
]

COMPOSITE = "pydsdl/_serializable/_composite.py"
ARRAY = "pydsdl/_serializable/_array.py"
BUILDER = "pydsdl/_data_schema_builder.py"

# name -> spec.  kind: "method" (whole body), "slice" (constructor slice), "generator"
ITEMS: typing.List[dict] = [
    {"name": "CompositeType.alignment_requirement", "source": COMPOSITE, "cls": "CompositeType", "fn": "alignment_requirement", "kind": "method",
     "params": [("fields", "tylist")], "ret": "int",
     "paths": {"self.BITS_PER_BYTE": ("(8 : Nat)", "int"), "self.fields": ("fields", "tylist")}},
    {"name": "UnionType.compute_tag_bit_length", "source": COMPOSITE, "cls": "UnionType", "fn": "_compute_tag_bit_length", "kind": "method",
     "locate": [("aggregate_bit_length_sets", "field_types")],
     "params": [("field_types", "tylist")], "ret": "int",
     "paths": {"SerializableType.BITS_PER_BYTE": ("(8 : Nat)", "int")}},
    {"name": "UnionType.aggregate_bit_length_sets", "source": COMPOSITE, "cls": "UnionType", "fn": "aggregate_bit_length_sets", "kind": "method",
     "params": [("field_types", "tylist")], "ret": "bls",
     "calls": {"UnionType._compute_tag_bit_length": ("Gen.UnionType.compute_tag_bit_length", "int")}, "paths": {}},
    {"name": "StructureType.aggregate_bit_length_sets", "source": COMPOSITE, "cls": "StructureType", "fn": "aggregate_bit_length_sets", "kind": "method",
     "params": [("field_types", "tylist")], "ret": "bls", "paths": {}},
    {"name": "UnionType.iterate_fields_with_offsets", "source": COMPOSITE, "cls": "UnionType", "fn": "iterate_fields_with_offsets", "kind": "generator",
     "params": [("alignment", "int"), ("tag_bits", "int"), ("fields", "tylist"), ("base_offset", "bls")], "ret": "offsets",
     "paths": {"self.alignment_requirement": ("alignment", "int"), "self.tag_field_type.bit_length": ("tag_bits", "int"),
               "self.fields": ("fields", "tylist")}},
    {"name": "StructureType.iterate_fields_with_offsets", "source": COMPOSITE, "cls": "StructureType", "fn": "iterate_fields_with_offsets", "kind": "generator",
     "params": [("alignment", "int"), ("fields", "tylist"), ("base_offset", "bls")], "ret": "offsets",
     "paths": {"self.alignment_requirement": ("alignment", "int"), "self.fields": ("fields", "tylist")}},
    {"name": "DelimitedType.iterate_fields_with_offsets", "source": COMPOSITE, "cls": "DelimitedType", "fn": "iterate_fields_with_offsets", "kind": "method",
     "params": [("header_bls", "bls"), ("inner_iterate", "iter"), ("base_offset", "bls")], "ret": "offsets",
     "paths": {"self.delimiter_header_type.bit_length_set": ("header_bls", "bls")},
     "calls": {"self.inner_type.iterate_fields_with_offsets": ("inner_iterate", "offsets")}},
    {"name": "UnionType.bls", "source": COMPOSITE, "cls": "UnionType", "fn": "__init__", "kind": "slice",
     "params": [("alignment", "int"), ("fields", "tylist")], "ret": "bls", "targets": ["self._bls"], "result": "self._bls",
     "paths": {"self.alignment_requirement": ("alignment", "int"), "self.fields": ("fields", "tylist")},
     "calls": {"self.aggregate_bit_length_sets": ("Gen.UnionType.aggregate_bit_length_sets", "bls")}},
    {"name": "StructureType.bls", "source": COMPOSITE, "cls": "StructureType", "fn": "__init__", "kind": "slice",
     "params": [("alignment", "int"), ("fields", "tylist")], "ret": "bls", "targets": ["self._bls"], "result": "self._bls",
     "paths": {"self.alignment_requirement": ("alignment", "int"), "self.fields": ("fields", "tylist")},
     "calls": {"self.aggregate_bit_length_sets": ("Gen.StructureType.aggregate_bit_length_sets", "bls")}},
    {"name": "DelimitedType.bls", "source": COMPOSITE, "cls": "DelimitedType", "fn": "__init__", "kind": "slice",
     "params": [("alignment", "int"), ("inner", "ty"), ("extent", "int")], "ret": "bls",
     "targets": ["self._extent", "self._bls"], "result": "self._bls",
     "aliases": {"self.delimiter_header_type.bit_length": {"attr": "self._delimiter_header_type", "ctor": "UnsignedIntegerType", "arg": 0}},
     "paths": {"self.alignment_requirement": ("alignment", "int"),
               "self._DEFAULT_DELIMITER_HEADER_BIT_LENGTH": ("(32 : Nat)", "int"), "self.BITS_PER_BYTE": ("(8 : Nat)", "int")}},
    {"name": "FixedLengthArrayType.bls", "source": ARRAY, "cls": "FixedLengthArrayType", "fn": "__init__", "kind": "slice",
     "params": [("element_type", "ty"), ("capacity", "int")], "ret": "bls", "targets": ["self._bls"], "result": "self._bls",
     "paths": {"self.element_type.bit_length_set": ("element_type.bit_length_set", "bls"), "self.capacity": ("capacity", "int"),
               "self.alignment_requirement": ("element_type.alignment_requirement", "int")}},
    {"name": "FixedLengthArrayType.enumerate_elements_with_offsets", "source": ARRAY, "cls": "FixedLengthArrayType",
     "fn": "enumerate_elements_with_offsets", "kind": "generator",
     "params": [("element_type", "ty"), ("capacity", "int"), ("base_offset", "bls")], "ret": "offsets",
     "paths": {"self.element_type.bit_length_set": ("element_type.bit_length_set", "bls"), "self.capacity": ("capacity", "int"),
               "self.alignment_requirement": ("element_type.alignment_requirement", "int"),
               "self.element_type.alignment_requirement": ("element_type.alignment_requirement", "int")}},
    {"name": "VariableLengthArrayType.bls", "source": ARRAY, "cls": "VariableLengthArrayType", "fn": "__init__", "kind": "slice",
     "params": [("element_type", "ty"), ("capacity", "int")], "ret": "bls", "targets": ["self._bls"], "result": "self._bls",
     "aliases": {"self.length_field_type.bit_length": {"attr": "self._length_field_type", "ctor": "UnsignedIntegerType", "arg": 0}},
     "paths": {"self.element_type.bit_length_set": ("element_type.bit_length_set", "bls"), "self.capacity": ("capacity", "int"),
               "self.alignment_requirement": ("element_type.alignment_requirement", "int"),
               "self.element_type.alignment_requirement": ("element_type.alignment_requirement", "int"),
               "self.BITS_PER_BYTE": ("(8 : Nat)", "int")}},
    {"name": "VariableLengthArrayType.length_field_length", "source": ARRAY, "cls": "VariableLengthArrayType", "fn": "__init__", "kind": "slice",
     "params": [("element_type", "ty"), ("capacity", "int")], "ret": "int", "targets": [], "from_start": True, "until": "self._length_field_type",
     "result": "self.length_field_type.bit_length",
     "aliases": {"self.length_field_type.bit_length": {"attr": "self._length_field_type", "ctor": "UnsignedIntegerType", "arg": 0}},
     "paths": {"self.capacity": ("capacity", "int"), "self.alignment_requirement": ("element_type.alignment_requirement", "int"),
               "self.element_type.alignment_requirement": ("element_type.alignment_requirement", "int"),
               "self.BITS_PER_BYTE": ("(8 : Nat)", "int")}},
]

ITEMS += [
    {"name": "DataSchemaBuilder.offset", "source": BUILDER, "cls": "DataSchemaBuilder", "fn": "offset", "kind": "method",
     "params": [("union", "bool"), ("fields", "tylist")], "ret": "bls",
     "paths": {"self.union": ("union", "bool"), "self.fields": ("fields", "tylist"), "self._bit_length_computed_at_least_once": ("true", "bool")},
     "ignored_assignments": ["self._bit_length_computed_at_least_once"],
     "classes": {"_serializable.UnionType": "UnionType", "_serializable.StructureType": "StructureType"},
     "class_methods": {"aggregate_bit_length_sets": "bls"}},
]
PRIMITIVE = "pydsdl/_serializable/_primitive.py"
PRIMITIVE_ITEMS: typing.List[dict] = [
    {"name": "SignedIntegerType.inclusive_value_range", "source": PRIMITIVE, "cls": "SignedIntegerType", "fn": "inclusive_value_range", "kind": "method",
     "params": [("bit_length", "int")], "ret": "range", "paths": {"self.bit_length": ("bit_length", "int")}},
    {"name": "UnsignedIntegerType.inclusive_value_range", "source": PRIMITIVE, "cls": "UnsignedIntegerType", "fn": "inclusive_value_range", "kind": "method",
     "params": [("bit_length", "int")], "ret": "range", "paths": {"self.bit_length": ("bit_length", "int")}},
]

NAMESPACE = "pydsdl/_namespace.py"
NS_PREAMBLE = [
    "/-- One section of a composite (the request or response structure of a service, or a message type itself) as the",
    "    cross-definition checks of `_namespace.py` see it. -/",
    "structure SecI where",
    "  full_name : String",
    "  major : Nat",
    "  minor : Nat",
    "  has_fixed_port_id : Bool",
    "  fixed_port_id : Option Nat",
    "  extent : Nat",
    "  is_delimited : Bool",
    "/-- A composite type as the cross-definition checks see it (`is_service` = `isinstance(x, ServiceType)`). -/",
    "structure CompI where",
    "  full_name : String",
    "  major : Nat",
    "  minor : Nat",
    "  is_service : Bool",
    "  has_fixed_port_id : Bool",
    "  fixed_port_id : Option Nat",
    "  extent : Nat",
    "  is_delimited : Bool",
    "  request_type : SecI",
    "  response_type : SecI",
    "",
]
NS_ITEMS: typing.List[dict] = [
    {"name": "Namespace.pairwise_section", "source": NAMESPACE, "cls": None, "fn": "_ensure_minor_version_compatibility_pairwise", "kind": "method",
     "locate": [("_complete_read_function", "definitions.transitive + definitions.direct"), ("$", "a, b")],
     "params": [("recur", "pairfn"), ("a", "sec"), ("b", "sec")], "ret": "unit", "paths": {},
     "calls": {"_ensure_minor_version_compatibility_pairwise": ("recur", "unit")}},
    {"name": "Namespace.pairwise", "source": NAMESPACE, "cls": None, "fn": "_ensure_minor_version_compatibility_pairwise", "kind": "method",
     "locate": [("_complete_read_function", "definitions.transitive + definitions.direct"), ("$", "a, b")],
     "params": [("recur", "pairfn"), ("a", "comp"), ("b", "comp")], "ret": "unit", "paths": {},
     "calls": {"_ensure_minor_version_compatibility_pairwise": ("recur", "unit")}},
    {"name": "Namespace.ensure_no_fixed_port_id_collisions", "source": NAMESPACE, "cls": None, "fn": "_ensure_no_fixed_port_id_collisions", "kind": "method",
     "locate": [("_complete_read_function", "definitions.direct")],
     "params": [("types", "complist")], "ret": "unit", "paths": {}},
]

VOID = "pydsdl/_serializable/_void.py"
RULE_ITEMS: typing.List[dict] = [
    {"name": "PrimitiveType.check", "source": PRIMITIVE, "cls": "PrimitiveType", "fn": "__init__", "kind": "slice", "from_start": True,
     "params": [("bit_length", "int")], "ret": "unit", "targets": ["self._bit_length"],
     "paths": {"self.MAX_BIT_LENGTH": ("(64 : Nat)", "int"), "self.BITS_IN_BYTE": ("(8 : Nat)", "int")}},
    {"name": "SignedIntegerType.check", "source": PRIMITIVE, "cls": "SignedIntegerType", "fn": "__init__", "kind": "slice", "from_start": True,
     "params": [("bit_length", "int"), ("saturated", "bool")], "ret": "unit", "targets": [],
     "paths": {"self._bit_length": ("bit_length", "int")},
     "exprs": {"cast_mode != PrimitiveType.CastMode.SATURATED": ("(!saturated)", "bool")}},
    {"name": "VoidType.check", "source": VOID, "cls": "VoidType", "fn": "__init__", "kind": "slice", "from_start": True,
     "params": [("bit_length", "int")], "ret": "unit", "targets": ["self._bit_length"],
     "paths": {"self.MAX_BIT_LENGTH": ("(64 : Nat)", "int")}},
    {"name": "ArrayType.check", "source": ARRAY, "cls": "ArrayType", "fn": "__init__", "kind": "slice", "from_start": True,
     "params": [("capacity", "int")], "ret": "unit", "targets": ["self._capacity"], "paths": {}},
    {"name": "UnionType.check", "source": COMPOSITE, "cls": "UnionType", "fn": "__init__", "kind": "slice", "from_start": True,
     "params": [("number_of_variants", "int")], "ret": "unit", "targets": [],
     "paths": {"self.number_of_variants": ("number_of_variants", "int"), "self.MIN_NUMBER_OF_VARIANTS": ("(2 : Nat)", "int")}},
    {"name": "CompositeType.check_version_and_port", "source": COMPOSITE, "cls": "CompositeType", "fn": "__init__", "kind": "slice", "from_start": True,
     "params": [("major", "int"), ("minor", "int"), ("is_service", "bool"), ("fixed_port_id", "optint")], "ret": "unit",
     "targets": [],
     "paths": {"self._version.major": ("major", "int"), "self._version.minor": ("minor", "int"), "self.MAX_VERSION_NUMBER": ("(255 : Nat)", "int"),
               "self._fixed_port_id": ("fixed_port_id", "optint"),
               "_port_id_ranges.MAX_SERVICE_ID": ("(511 : Nat)", "int"), "_port_id_ranges.MAX_SUBJECT_ID": ("(8191 : Nat)", "int")},
     "exprs": {"isinstance(self, ServiceType)": ("is_service", "bool")}},
]

# class constants the tables above assume; checked against the source on every run
CONSTANTS = [
    ("pydsdl/_serializable/_serializable.py", "SerializableType", "BITS_PER_BYTE", 8),
    (COMPOSITE, "DelimitedType", "_DEFAULT_DELIMITER_HEADER_BIT_LENGTH", 32),
    (PRIMITIVE, "PrimitiveType", "MAX_BIT_LENGTH", 64),
    (PRIMITIVE, "PrimitiveType", "BITS_IN_BYTE", 8),
    (VOID, "VoidType", "MAX_BIT_LENGTH", 64),
    (COMPOSITE, "CompositeType", "MAX_VERSION_NUMBER", 255),
    (COMPOSITE, "UnionType", "MIN_NUMBER_OF_VARIANTS", 2),
    ("pydsdl/_port_id_ranges.py", None, "MAX_SUBJECT_ID", 8191),
    ("pydsdl/_port_id_ranges.py", None, "MAX_SERVICE_ID", 511),
]

KEYWORDS = {"end", "at", "from", "by", "do", "then", "fun", "let", "in", "open", "show", "have", "match", "with", "where", "instance",
            "class", "structure", "def", "theorem", "mut", "type"}


def lname(n: str) -> str:
    n = n.lstrip("_") or n
    return n + "'" if n in KEYWORDS else n


# ----------------------------------------------------------------------------------------------- source context

class Ctx:
    """One parsed Python source file of the repository: classes, functions, imports; member lookup along the base classes that are
    defined in the same file (the dynamic type of `self` may be a subclass: a member that a subclass in the file redefines is ambiguous)."""

    _cache: typing.Dict[typing.Tuple[str, str], "Ctx"] = {}

    @classmethod
    def get(cls, repo: Path, rel: str) -> "Ctx":
        key = (str(repo), rel)
        if key not in cls._cache:
            cls._cache[key] = Ctx(repo, rel)
        return cls._cache[key]

    def __init__(self, repo: Path, rel: str):
        self.repo, self.rel = repo, rel
        self.src = (repo / rel).read_text()
        self.tree = ast.parse(self.src)
        self.classes = {c.name: c for c in self.tree.body if isinstance(c, ast.ClassDef)}
        self.funcs = {f.name: f for f in self.tree.body if isinstance(f, ast.FunctionDef)}
        self.imports: typing.Dict[str, typing.Tuple[str, str]] = {}  # local name -> (relative source path, name there)
        for s in self.tree.body:
            if isinstance(s, ast.ImportFrom) and s.level >= 1 and s.module:
                base = Path(rel).parent
                for _ in range(s.level - 1):
                    base = base.parent
                target = base.joinpath(*s.module.split("."))
                for cand in (str(target) + ".py", str(target / "__init__.py")):
                    if (repo / cand).is_file():
                        for a in s.names:
                            self.imports[a.asname or a.name] = (cand, a.name)
                        break

    def mro(self, cname: typing.Optional[str]) -> typing.List[ast.ClassDef]:
        out: typing.List[ast.ClassDef] = []
        todo = [cname]
        while todo:
            c = todo.pop(0)
            node = self.classes.get(c) if c else None
            if node is None or node in out:
                continue
            out.append(node)
            todo += [b.id for b in node.bases if isinstance(b, ast.Name)]
        return out

    def subclasses(self, cname: str) -> typing.List[ast.ClassDef]:
        return [c for c in self.classes.values() if c.name != cname and any(m.name == cname for m in self.mro(c.name))]

    @staticmethod
    def members(c: ast.ClassDef, attr: str) -> typing.List[ast.stmt]:
        out: typing.List[ast.stmt] = []
        for s in c.body:
            if isinstance(s, ast.FunctionDef) and s.name == attr:
                out.append(s)
            elif isinstance(s, ast.Assign) and any(isinstance(t, ast.Name) and t.id == attr for t in s.targets):
                out.append(s)
            elif isinstance(s, ast.AnnAssign) and isinstance(s.target, ast.Name) and s.target.id == attr and s.value is not None:
                out.append(s)
        return out

    def find_member(self, cname: typing.Optional[str], attr: str) -> typing.Optional[typing.Tuple[ast.stmt, ast.ClassDef]]:
        """The definition of `self.attr` for a `self` whose static class is `cname`; None when it is not in this file; Untranslatable when a
        subclass in this file redefines it (dynamic dispatch could pick either)."""
        for c in self.mro(cname):
            ms = self.members(c, attr)
            if len(ms) > 1:  # e.g. a property with a setter
                raise Untranslatable("several definitions of %s.%s" % (c.name, attr))
            if ms:
                for sub in self.subclasses(cname or ""):
                    if self.members(sub, attr):
                        raise Untranslatable("%s.%s is redefined in the subclass %s" % (c.name, attr, sub.name))
                return ms[0], c
        return None

    def function(self, name: str) -> typing.Optional[typing.Tuple[ast.FunctionDef, "Ctx"]]:
        if name in self.funcs:
            return self.funcs[name], self
        if name in self.imports:
            rel, orig = self.imports[name]
            other = Ctx.get(self.repo, rel)
            if orig in other.funcs:
                return other.funcs[orig], other
        return None


def decorators(fn: ast.FunctionDef) -> typing.Set[str]:
    return {ast.unparse(d) for d in fn.decorator_list}


def fn_body(fn: ast.FunctionDef) -> typing.List[ast.stmt]:
    return [s for s in fn.body if not (isinstance(s, ast.Expr) and isinstance(s.value, ast.Constant)) and not isinstance(s, ast.Pass)]


def single_return(fn: ast.FunctionDef) -> typing.Optional[ast.expr]:
    b = fn_body(fn)
    if len(b) == 1 and isinstance(b[0], ast.Return) and b[0].value is not None:
        return b[0].value
    return None


def strip_copy(e: ast.expr) -> ast.expr:
    """`x[:]`, `list(x)`, `tuple(x)`, `x.copy()`: the same sequence of elements as `x`."""
    while True:
        if isinstance(e, ast.Subscript) and isinstance(e.slice, ast.Slice) and e.slice.lower is None and e.slice.upper is None and e.slice.step is None:
            e = e.value
        elif isinstance(e, ast.Call) and isinstance(e.func, ast.Name) and e.func.id in ("list", "tuple") and len(e.args) == 1 and not e.keywords:
            e = e.args[0]
        elif isinstance(e, ast.Call) and isinstance(e.func, ast.Attribute) and e.func.attr == "copy" and not e.args and not e.keywords:
            e = e.func.value
        else:
            return e


# ----------------------------------------------------------------------------------------------- canonical boolean terms
# Booleans are built as small trees and rendered in a canonical form: negations pushed to the atoms (De Morgan; on integers
# `not (a < b)` is `b <= a`), `>` / `>=` turned round, `0 <= n` dropped for the naturals, constants folded, the operands of `and` / `or` /
# `==` / `!=` sorted.  Only pure terms get here (a raising operand of a short-circuit operator is refused), so all of these are identities.

LIT = re.compile(r"^\((\d+) : Nat\)$")
BIR: typing.Dict[str, tuple] = {"true": ("true",), "false": ("false",)}


def lit(s: str) -> typing.Optional[int]:
    m = LIT.match(s)
    return int(m.group(1)) if m else None


def okey(s: str) -> typing.Tuple[int, int, str]:
    v = lit(s)
    return (0, v, "") if v is not None else (1, 0, s)


def b_of(s: str) -> tuple:
    return BIR.get(s, ("atom", s))


def b_not(x: tuple) -> tuple:
    k = x[0]
    if k == "true":
        return ("false",)
    if k == "false":
        return ("true",)
    if k == "not":
        return x[1]
    if k == "and":
        return b_join("or", [b_not(y) for y in x[1]])
    if k == "or":
        return b_join("and", [b_not(y) for y in x[1]])
    if k == "lt":
        return b_cmp("le", x[2], x[1])
    if k == "le":
        return b_cmp("lt", x[2], x[1])
    if k == "eq":
        return ("ne", x[1], x[2])
    if k == "ne":
        return ("eq", x[1], x[2])
    return ("not", x)


def b_join(op: str, xs: typing.List[tuple]) -> tuple:
    unit, zero = (("true",), ("false",)) if op == "and" else (("false",), ("true",))
    flat: typing.List[tuple] = []
    for x in xs:
        for y in (x[1] if x[0] == op else [x]):
            if y == zero:
                return zero
            if y != unit and y not in flat:
                flat.append(y)
    if not flat:
        return unit
    if len(flat) == 1:
        return flat[0]
    return (op, sorted(flat, key=b_render))


def b_cmp(op: str, a: str, b: str) -> tuple:
    """`a < b` / `a <= b` on naturals."""
    la, lb = lit(a), lit(b)
    if la is not None and lb is not None:
        return ("true",) if (la < lb if op == "lt" else la <= lb) else ("false",)
    if op == "le" and la == 0:
        return ("true",)
    if op == "lt" and lb == 0:
        return ("false",)
    if a == b:
        return ("true",) if op == "le" else ("false",)
    return (op, a, b)


def b_eq(a: str, b: str, neg: bool = False) -> tuple:
    la, lb = lit(a), lit(b)
    if a == b or (la is not None and la == lb):
        r: tuple = ("true",)
    elif la is not None and lb is not None:
        r = ("false",)
    elif {a, b} == {"true", "false"}:
        r = ("false",)
    else:
        x, y = sorted([a, b], key=okey)
        r = ("eq", x, y)
    return b_not(r) if neg else r


def b_render(x: tuple) -> str:
    k = x[0]
    if k in ("true", "false"):
        return k
    if k == "atom":
        return x[1]
    if k == "not":
        return "(!%s)" % b_render(x[1])
    if k in ("and", "or"):
        return "(" + (" && " if k == "and" else " || ").join(b_render(y) for y in x[1]) + ")"
    if k == "lt":
        return "(decide (%s < %s))" % (x[1], x[2])
    if k == "le":
        return "(decide (%s ≤ %s))" % (x[1], x[2])
    if k == "eq":
        return "(%s == %s)" % (x[1], x[2])
    if k == "ne":
        return "(%s != %s)" % (x[1], x[2])
    raise AssertionError(k)


def b_str(x: tuple) -> str:
    s = b_render(x)
    BIR[s] = x
    return s


# ----------------------------------------------------------------------------------------------- statement normal form

def _has_jump(body: typing.List[ast.stmt], bare_return: bool) -> bool:
    for s in body:
        if isinstance(s, ast.Continue) and not bare_return:
            return True
        if isinstance(s, ast.Return) and s.value is None and bare_return:
            return True
        if isinstance(s, ast.If) and (_has_jump(s.body, bare_return) or _has_jump(s.orelse, bare_return)):
            return True
    return False


def norm_block(block: typing.List[ast.stmt], rest: typing.List[ast.stmt], bare_return: bool) -> typing.List[ast.stmt]:
    """Structured form of a block that leaves early: `continue` in a loop body (`bare_return` false) or `return` without a value in a function
    that returns nothing (`bare_return` true).  `if c: …; continue` followed by `rest` becomes `if c: … else: rest`; the statements after a
    jump / raise / return are unreachable and dropped.  Purely syntactic, no condition is evaluated more or less often."""
    out: typing.List[ast.stmt] = []
    for i, s in enumerate(block):
        following = block[i + 1:]
        if (isinstance(s, ast.Continue) and not bare_return) or (isinstance(s, ast.Return) and s.value is None and bare_return):
            return out
        if isinstance(s, (ast.Raise, ast.Return)):
            return out + [s]
        if isinstance(s, ast.If) and (_has_jump(s.body, bare_return) or _has_jump(s.orelse, bare_return)):
            k = norm_block(following, rest, bare_return)  # `rest` is in normal form already
            new = ast.If(test=s.test, body=norm_block(s.body, k, bare_return), orelse=norm_block(s.orelse, k, bare_return))
            return out + [ast.copy_location(new, s)]
        out.append(s)
    return out + rest


def terminates(body: typing.List[ast.stmt]) -> bool:
    return bool(body) and isinstance(body[-1], (ast.Raise, ast.Return, ast.Continue))


def none_test(t: ast.expr) -> typing.Optional[typing.Tuple[str, bool]]:
    """`x is not None` -> (x, True); `x is None` -> (x, False); through `not`."""
    if isinstance(t, ast.UnaryOp) and isinstance(t.op, ast.Not):
        r = none_test(t.operand)
        return (r[0], not r[1]) if r else None
    if (isinstance(t, ast.Compare) and len(t.ops) == 1 and isinstance(t.ops[0], (ast.Is, ast.IsNot)) and isinstance(t.left, ast.Name)
            and isinstance(t.comparators[0], ast.Constant) and t.comparators[0].value is None):
        return t.left.id, isinstance(t.ops[0], ast.IsNot)
    return None


def live_names(body: typing.List[ast.stmt]) -> typing.Set[str]:
    """Names that are read anywhere but in the arguments of a raised exception / the message of an assert (message texts are not translated)."""
    out: typing.Set[str] = set()

    def walk(n: ast.AST) -> None:
        if isinstance(n, ast.Raise):
            return
        if isinstance(n, ast.Assert):
            walk(n.test)
            return
        if isinstance(n, ast.Name) and isinstance(n.ctx, ast.Load):
            out.add(n.id)
        for c in ast.iter_child_nodes(n):
            walk(c)

    for s in body:
        walk(s)
    return out


PURE_CALLS = {"str", "repr", "len", "sorted", "list", "tuple", "int", "bool", "min", "max"}


def message_only(e: ast.expr) -> bool:
    """An expression that cannot have an effect worth keeping when its value is used in message texts only."""
    for n in ast.walk(e):
        if isinstance(n, ast.Call) and not (isinstance(n.func, ast.Name) and n.func.id in PURE_CALLS):
            return False
        if isinstance(n, (ast.Await, ast.Yield, ast.YieldFrom, ast.NamedExpr)):
            return False
    return True


class Need(Untranslatable):
    """A local or `self._attribute` that is defined by an earlier statement of the constructor which is not part of the slice yet."""

    def __init__(self, name: str):
        super().__init__("unknown name %s" % name)
        self.name = name


ELEM = {"tylist": "ty", "blslist": "bls", "intlist": "int", "complist": "comp", "strlist": "str"}
LISTOF = {v: k for k, v in ELEM.items()}
MUTATORS = {"append", "extend", "insert", "remove", "pop", "clear", "sort", "reverse", "update", "add", "discard", "setdefault", "popitem"}


class Tr:
    def __init__(self, item: dict, ctx: typing.Optional[Ctx] = None, cls: typing.Optional[str] = None):
        self.item = item
        self.ctx = ctx
        self.cls = cls
        self.paths: typing.Dict[str, typing.Tuple[str, str]] = dict(item.get("paths", {}))
        self.calls: typing.Dict[str, typing.Tuple[str, str]] = dict(item.get("calls", {}))
        self.aliases: typing.Dict[str, typing.Any] = dict(item.get("aliases", {}))
        self.types: typing.Dict[str, str] = {p: t for p, t in item["params"]}
        self.sym: typing.Dict[str, ast.expr] = {}  # local -> the attribute chain it is another name of
        self.pre: typing.List[str] = []
        self.tmp = 0
        self.choices: typing.Dict[str, typing.Tuple[str, str, str]] = {}
        self.stack: typing.List[str] = []  # helpers / properties being expanded (recursion guard)
        self.ctor: typing.Optional[ast.FunctionDef] = None  # the constructor a slice is taken from
        self.cur = -1  # index of the top-level statement of the constructor that is being translated
        self.live: typing.Optional[typing.Set[str]] = None
        self.ret: typing.Optional[str] = item.get("ret")
        self.ret_seen: typing.List[str] = []

    def fresh(self) -> str:
        self.tmp += 1
        return "t%d" % self.tmp

    def bind(self, m: str) -> str:
        v = self.fresh()
        self.pre.append("let %s ← %s" % (v, m))
        return v

    def sub(self) -> "Tr":
        s = Tr(self.item, self.ctx, self.cls)
        s.paths, s.calls, s.aliases, s.types, s.sym = self.paths, self.calls, self.aliases, dict(self.types), dict(self.sym)
        s.choices, s.stack, s.ctor, s.live, s.ret, s.cur = self.choices, self.stack, self.ctor, self.live, self.ret, self.cur
        s.tmp = self.tmp + 50
        return s

    def callee(self, ctx: typing.Optional[Ctx], keep_self: bool) -> "Tr":
        """Translator for the body of a helper: its own locals; `self` (when it is a method of the same object) and the module constants
        keep their meaning, the caller's locals are out of scope."""
        s = Tr(self.item, ctx, self.cls if keep_self else None)
        s.paths = {k: v for k, v in self.paths.items() if "." in k and (keep_self or not k.startswith("self."))}
        s.calls = {k: v for k, v in self.calls.items() if keep_self or not k.startswith("self.")}
        s.aliases = dict(self.aliases) if keep_self else {}
        s.types = {}
        s.stack = self.stack
        s.ctor = self.ctor if keep_self else None
        s.cur = self.cur
        s.tmp = self.tmp + 50
        s.ret = None
        return s

    # ---- typed expression translation: returns (lean term, type tag)
    def path(self, n: ast.AST) -> typing.Optional[typing.Tuple[str, str]]:
        try:
            s = ast.unparse(n)
        except Exception:  # pragma: no cover
            return None
        a = self.aliases.get(s)
        if isinstance(a, str):
            s = a
        if s in self.paths:
            return self.paths[s]
        if s in self.types:
            return lname(s), self.types[s]
        if isinstance(a, dict):  # the n-th argument of the constructor call that is assigned to an attribute
            return self.ctor_arg(a)
        return None

    def ctor_arg(self, a: dict) -> typing.Tuple[str, str]:
        if self.ctor is None:
            raise Untranslatable("constructor argument alias outside a constructor slice")
        sites = [s for s in self.ctor.body if isinstance(s, ast.Assign) and len(s.targets) == 1 and ast.unparse(s.targets[0]) == a["attr"]]
        if len(sites) != 1 or not (isinstance(sites[0].value, ast.Call) and ast.unparse(sites[0].value.func) == a["ctor"]
                                   and len(sites[0].value.args) > a["arg"] and not sites[0].value.keywords):
            raise Untranslatable("%s is not assigned %s(...) exactly once" % (a["attr"], a["ctor"]))
        return self.e(sites[0].value.args[a["arg"]])

    def e(self, n: ast.AST) -> typing.Tuple[str, str]:
        ex = self.item.get("exprs")
        if ex:
            try:
                key = ast.unparse(n)
            except Exception:  # pragma: no cover
                key = None
            if key in ex:
                return ex[key]
        if isinstance(n, (ast.Attribute, ast.Name)):
            root = n
            while isinstance(root, ast.Attribute):
                root = root.value
            if isinstance(root, ast.Name) and root.id in self.sym:
                return self.e(_subst_root(n, self.sym[root.id]))
            p = self.path(n)
            if p is not None:
                return p
        if isinstance(n, ast.Constant):
            if isinstance(n.value, bool):
                return ("true" if n.value else "false"), "bool"
            if isinstance(n.value, int) and n.value >= 0:
                return "(%d : Nat)" % n.value, "int"
            if isinstance(n.value, str):
                return '"' + n.value.replace("\\", "\\\\").replace('"', '\\"') + '"', "str"
            raise Untranslatable("constant %r" % (n.value,))
        if isinstance(n, ast.Name):
            raise Need(n.id)
        if isinstance(n, ast.Attribute):
            if isinstance(n.value, ast.Name) and n.value.id == "self" and self.cls is not None:
                r = self.self_attr(n.attr)
                if r is not None:
                    return r
            if isinstance(n.value, ast.Name) and self.ctx is not None and n.value.id in self.ctx.classes and n.value.id not in self.types:
                r = self.class_constant(n.value.id, n.attr)
                if r is not None:
                    return r
            base, bt = self.e(n.value)
            if n.attr == "data_type" and bt == "ty":
                return base, "ty"
            if bt == "ty" and n.attr in ("alignment_requirement", "extent"):
                return "(%s).%s" % (base, n.attr), "int"
            if bt == "ty" and n.attr == "bit_length_set":
                return "(%s).bit_length_set" % base, "bls"
            if bt in ("comp", "sec"):
                if n.attr == "version":
                    return base, "ver:" + bt
                tbl = {"full_name": "str", "has_fixed_port_id": "bool", "fixed_port_id": "optint", "extent": "int"}
                if n.attr in tbl:
                    return "(%s).%s" % (base, n.attr), tbl[n.attr]
                if n.attr in ("request_type", "response_type"):
                    return ("(%s).%s" % (base, n.attr), "sec") if bt == "comp" else (base, "sec")
            if bt.startswith("ver:") and n.attr in ("major", "minor"):
                return "(%s).%s" % (base, n.attr), "int"
            if bt == "bls" and n.attr == "max":
                return "(Bls.Op.max %s)" % base, "int"
            if bt == "bls" and n.attr == "min":
                return "(Bls.Op.min %s)" % base, "int"
            raise Untranslatable("attribute %s" % ast.unparse(n))
        if isinstance(n, ast.BinOp):
            a, ta = self.e(n.left)
            b, tb = self.e(n.right)
            if isinstance(n.op, ast.Add):
                if ta == "bls" or tb == "bls":
                    return "(Py.blsAdd %s %s)" % (self.as_bls(a, ta), self.as_bls(b, tb)), "bls"
                if ta in ("intlist", "tylist", "blslist") and ta == tb:
                    return "(%s ++ %s)" % (a, b), ta
                if ta == tb == "int":
                    x, y = sorted([a, b], key=okey)
                    return "(%s + %s)" % (x, y), "int"
            if "sint" in (ta, tb) and ta in ("int", "sint") and tb in ("int", "sint"):
                sym = {ast.Add: "+", ast.Sub: "-", ast.Mult: "*"}.get(type(n.op))
                if sym is None:
                    raise Untranslatable("operator %s on signed integers" % type(n.op).__name__)
                return "(%s %s %s)" % (self.as_sint(a, ta), sym, self.as_sint(b, tb)), "sint"
            if ta == tb == "int" and isinstance(n.op, ast.LShift):
                if lit(a) == 1:  # 1 << n is 2 ** n for every n >= 0
                    return "((2 : Nat) ^ %s)" % b, "int"
                return "(%s <<< %s)" % (a, b), "int"
            if ta == tb == "int":
                if isinstance(n.op, ast.Sub):
                    return self.bind("Py.sub %s %s" % (a, b)), "int"
                if isinstance(n.op, ast.Mult):
                    x, y = sorted([a, b], key=okey)
                    return "(%s * %s)" % (x, y), "int"
                if isinstance(n.op, ast.FloorDiv):
                    return self.bind("Py.floordiv %s %s" % (a, b)), "int"
                if isinstance(n.op, ast.Mod):
                    return self.bind("Py.mod %s %s" % (a, b)), "int"
                if isinstance(n.op, ast.Pow):
                    return "(%s ^ %s)" % (a, b), "int"
            raise Untranslatable("operator %s on %s, %s" % (type(n.op).__name__, ta, tb))
        if isinstance(n, ast.UnaryOp) and isinstance(n.op, (ast.USub, ast.UAdd)):
            a, ta = self.e(n.operand)
            if ta not in ("int", "sint"):
                raise Untranslatable("unary sign on %s" % ta)
            a = self.as_sint(a, ta)
            return ("(-%s)" % a if isinstance(n.op, ast.USub) else a), "sint"
        if isinstance(n, ast.UnaryOp) and isinstance(n.op, ast.Not):
            a, ta = self.cond(n.operand)
            return b_str(b_not(b_of(a))), "bool"
        if isinstance(n, ast.Compare):
            parts: typing.List[tuple] = []
            left, tl = self.e(n.left)
            for op, c in zip(n.ops, n.comparators):
                if isinstance(op, (ast.In, ast.NotIn)) and isinstance(c, (ast.Set, ast.Tuple, ast.List)) and tl == "int":
                    elems = [self.e(x) for x in c.elts]
                    if any(t != "int" for _, t in elems):
                        raise Untranslatable("membership among non-integers")
                    r0 = b_join("or", [b_eq(left, x) for x, _ in elems])
                    parts.append(r0 if isinstance(op, ast.In) else b_not(r0))
                    continue
                if isinstance(op, (ast.Is, ast.IsNot)) and isinstance(c, ast.Constant) and c.value is None and tl == "optint":
                    some = ("atom", "(%s).isSome" % left)
                    parts.append(some if isinstance(op, ast.IsNot) else b_not(some))
                    continue
                if isinstance(op, (ast.Is, ast.IsNot)) and isinstance(c, ast.Constant) and c.value is None and tl == "int":
                    parts.append(("true",) if isinstance(op, ast.IsNot) else ("false",))  # an integer is never None
                    continue
                r, tr = self.e(c)
                if isinstance(op, (ast.Is, ast.IsNot)) and tl == tr and tl in ("comp", "sec"):
                    # object identity of two records is not modelled: the callers pass distinct objects
                    parts.append(("true",) if isinstance(op, ast.IsNot) else ("false",))
                    left, tl = r, tr
                    continue
                if tl == tr and tl in ("str", "bool", "optint", "int") and isinstance(op, (ast.Eq, ast.NotEq)):
                    parts.append(b_eq(left, r, neg=isinstance(op, ast.NotEq)))
                    left, tl = r, tr
                    continue
                if tl != "int" or tr != "int":
                    raise Untranslatable("comparison of %s and %s" % (tl, tr))
                if isinstance(op, ast.Lt):
                    parts.append(b_cmp("lt", left, r))
                elif isinstance(op, ast.LtE):
                    parts.append(b_cmp("le", left, r))
                elif isinstance(op, ast.Gt):
                    parts.append(b_cmp("lt", r, left))
                elif isinstance(op, ast.GtE):
                    parts.append(b_cmp("le", r, left))
                else:
                    raise Untranslatable("comparison %s" % type(op).__name__)
                left, tl = r, tr
            return b_str(b_join("and", parts)), "bool"
        if isinstance(n, ast.BoolOp):
            saved = (list(self.pre), self.tmp)
            vals = [self.e(v) for v in n.values]
            if any(t != "bool" for _, t in vals):
                raise Untranslatable("short-circuit operator with non-boolean operands")
            if len(self.pre) != len(saved[0]):
                # an operand may raise: `a and b` is `b if a else False`, `a or b` is `True if a else b` (the rest is evaluated, and may
                # raise, only when it is needed)
                self.pre, self.tmp = saved
                rest = n.values[1] if len(n.values) == 2 else ast.BoolOp(op=n.op, values=n.values[1:])
                if isinstance(n.op, ast.And):
                    chain = ast.IfExp(test=n.values[0], body=rest, orelse=ast.Constant(value=False))
                else:
                    chain = ast.IfExp(test=n.values[0], body=ast.Constant(value=True), orelse=rest)
                return self.e(ast.fix_missing_locations(ast.copy_location(chain, n)))
            return b_str(b_join("and" if isinstance(n.op, ast.And) else "or", [b_of(v) for v, _ in vals])), "bool"
        if isinstance(n, ast.IfExp):
            c, tc = self.cond(n.test)
            sa, sb = self.sub(), self.sub()
            a, ta = sa.e(n.body)
            b, tb = sb.e(n.orelse)
            if ta != tb:
                if "bls" in (ta, tb):
                    a, b, ta = sa.as_bls(a, ta), sb.as_bls(b, tb), "bls"
                else:
                    raise Untranslatable("conditional expression of types %s / %s" % (ta, tb))
            self.tmp = max(sa.tmp, sb.tmp)
            if c in ("true", "false"):
                s0, v0 = (sa, a) if c == "true" else (sb, b)
                self.pre += s0.pre
                return v0, ta
            if sa.pre or sb.pre:
                blk = lambda s, v: "(do\n      " + "\n      ".join(s.pre + ["pure %s" % v]) + ")"  # noqa: E731
                return self.bind("(if %s then %s else %s)" % (c, blk(sa, a), blk(sb, b))), ta
            return "(if %s then %s else %s)" % (c, a, b), ta
        if isinstance(n, ast.Subscript):
            base, bt = self.e(n.value)
            et = {"tylist": "ty", "blslist": "bls", "intlist": "int"}.get(bt)
            if et is None:
                raise Untranslatable("subscript of %s" % bt)
            if isinstance(n.slice, ast.Slice):
                if n.slice.upper is None and n.slice.step is None:
                    if n.slice.lower is None:
                        return base, bt  # a copy
                    if isinstance(n.slice.lower, ast.Constant) and isinstance(n.slice.lower.value, int) and n.slice.lower.value >= 0:
                        return ("((%s).drop %d)" % (base, n.slice.lower.value) if n.slice.lower.value else base), bt
                raise Untranslatable("slice %s" % ast.unparse(n.slice))
            i, ti = self.e(n.slice)
            if ti != "int":
                raise Untranslatable("index of type %s" % ti)
            return self.bind("Py.index %s %s" % (base, i)), et
        if isinstance(n, ast.List):
            elems = [self.e(x) for x in n.elts]
            ts = {t for _, t in elems}
            if len(ts) != 1:
                raise Untranslatable("heterogeneous list")
            t = ts.pop()
            lt = {"int": "intlist", "ty": "tylist", "bls": "blslist", "str": "strlist"}.get(t)
            if lt is None:
                raise Untranslatable("list of %s" % t)
            return "[" + ", ".join(v for v, _ in elems) + "]", lt
        if isinstance(n, (ast.ListComp, ast.GeneratorExp)):
            return self.comprehension(n)
        if isinstance(n, ast.Call):
            return self.call(n)
        raise Untranslatable(type(n).__name__)

    def cond(self, n: ast.AST) -> typing.Tuple[str, str]:
        """An expression in a boolean context (`if`, `assert`, `not`, the test of a conditional expression): booleans as they are; an integer
        is true when it is not zero, a list when it is not empty.  (Optional values and strings are refused: `if x:` conflates None and 0.)"""
        v, t = self.e(n)
        if t == "bool":
            return v, t
        if t == "int":
            return b_str(b_cmp("lt", "(0 : Nat)", v)), "bool"
        if t in ELEM:
            return b_str(b_cmp("lt", "(0 : Nat)", "(%s).length" % v)), "bool"
        raise Untranslatable("truth value of %s" % t)

    def comprehension(self, n) -> typing.Tuple[str, str]:
        if len(n.generators) != 1 or not isinstance(n.generators[0].target, ast.Name) or n.generators[0].is_async:
            raise Untranslatable("comprehension shape")
        g = n.generators[0]
        it, tit = self.e(g.iter)
        et = ELEM.get(tit)
        if et is None or et == "str":
            raise Untranslatable("comprehension over %s" % tit)
        s = self.sub()
        s.types[g.target.id] = et
        s.sym.pop(g.target.id, None)
        v = lname(g.target.id)
        for cond in g.ifs:  # a filter: pure conditions only
            c, tc = s.e(cond)
            if tc != "bool" or s.pre:
                raise Untranslatable("comprehension condition that may raise or is not a boolean")
            if c == "false":
                it = "([] : %s)" % LEAN_TY[tit]
            elif c != "true":
                it = "((%s).filter (fun %s => %s))" % (it, v, c)
        body, tb = s.e(n.elt)
        self.tmp = s.tmp
        rt = {"int": "intlist", "ty": "tylist", "bls": "blslist", "comp": "complist"}.get(tb)
        if rt is None:
            raise Untranslatable("comprehension yielding %s" % tb)
        if s.pre:
            return self.bind("(%s).mapM (fun %s => do\n      %s\n      pure %s)" % (it, v, "\n      ".join(s.pre), body)), rt
        if body == v:
            return it, rt
        return "((%s).map (fun %s => %s))" % (it, v, body), rt

    # ---- `self.<attr>` that the tables do not name: looked up in the class (never by guessing)
    def self_attr(self, attr: str) -> typing.Optional[typing.Tuple[str, str]]:
        assert self.ctx is not None
        full = "self." + attr
        # a property of the tables that merely hands out this attribute (possibly as a copy of the list): the same value
        for key, val in list(self.paths.items()):
            if key.startswith("self.") and key.count(".") == 1 and key != full:
                try:
                    m = self.ctx.find_member(self.cls, key[5:])
                except Untranslatable:
                    continue
                if m and isinstance(m[0], ast.FunctionDef) and "property" in decorators(m[0]):
                    r = single_return(m[0])
                    if r is not None:
                        r = strip_copy(r) if val[1] in ELEM else r
                        if ast.unparse(r) == full:
                            return val
        if self.ctor is not None and any(full in stored_names(s) for s in self.ctor.body):
            raise Need(full)
        key = "%s.%s" % (self.cls, attr)
        if key in self.stack:
            raise Untranslatable("recursive definition of %s" % full)
        m = self.ctx.find_member(self.cls, attr)
        if m is not None and isinstance(m[0], ast.FunctionDef):
            if "property" not in decorators(m[0]):
                raise Untranslatable("%s is a method, not a value" % full)
            r = single_return(m[0])
            if r is None:
                return self.inline(m[0], self.ctx, [], True, key)
            self.stack.append(key)
            try:
                s = self.callee(self.ctx, True)
                s.tmp = self.tmp
                out = s.e(r)
                self.pre += s.pre
                self.tmp = max(self.tmp, s.tmp)
                return out
            finally:
                self.stack.pop()
        if m is not None:
            return self.class_constant(m[1].name, attr)
        return self.cached_attr(attr)

    def class_constant(self, cname: str, attr: str) -> typing.Optional[typing.Tuple[str, str]]:
        assert self.ctx is not None
        m = self.ctx.find_member(cname, attr)
        if m is None or isinstance(m[0], ast.FunctionDef):
            return None
        v = m[0].value  # type: ignore[attr-defined]
        if isinstance(v, ast.Constant) and isinstance(v.value, (bool, int)) and (isinstance(v.value, bool) or v.value >= 0):
            for c in ast.walk(self.ctx.tree):  # a constant: never assigned again anywhere in the file
                if isinstance(c, ast.Attribute) and c.attr == attr and isinstance(c.ctx, (ast.Store, ast.Del)):
                    raise Untranslatable("%s.%s is assigned outside the class body" % (cname, attr))
            return self.e(v)
        return None

    def cached_attr(self, attr: str) -> typing.Optional[typing.Tuple[str, str]]:
        """`self._x` that a constructor of the class hierarchy assigns exactly once (nothing else in the file stores to an attribute of that
        name), from an expression that reads only attributes assigned earlier in the same constructor, none of which is ever assigned again or
        mutated in place in the file: the attribute holds the value of that expression for the whole life of the object (instances are
        immutable, which is also what the path tables assume), so reading it is evaluating the expression."""
        assert self.ctx is not None
        full = "self." + attr
        stores = [c for c in ast.walk(self.ctx.tree) if isinstance(c, ast.Attribute) and c.attr == attr and isinstance(c.ctx, (ast.Store, ast.Del))]
        sites = []
        for c in self.ctx.mro(self.cls):
            for f in c.body:
                if isinstance(f, ast.FunctionDef) and f.name == "__init__":
                    for i, s in enumerate(f.body):
                        if isinstance(s, ast.Assign) and len(s.targets) == 1 and ast.unparse(s.targets[0]) == full:
                            sites.append((c, f, i, s))
        if len(sites) != 1 or len(stores) != 1:
            return None
        if self.ctor is not None:  # read inside a constructor: only after the constructor of the base class has run
            sup = [j for j, t in enumerate(self.ctor.body) if isinstance(t, ast.Expr) and isinstance(t.value, ast.Call)
                   and ast.unparse(t.value.func) == "super().__init__"]
            if sites[0][1] is self.ctor or not sup or not (self.cur > sup[0]):
                raise Untranslatable("%s is read before the constructor that sets it has run" % full)
        if any(k in self.ctx.src for k in ("setattr(", "__dict__", "__setattr__", "object.__new__")):
            raise Untranslatable("%s: attributes of this module may be set reflectively" % full)
        c, f, i, s = sites[0]
        key = "%s.%s" % (c.name, attr)
        if key in self.stack:
            raise Untranslatable("recursive definition of %s" % full)
        for r in sorted(self.private_reads(s.value, set())):
            rs = [x for x in ast.walk(self.ctx.tree) if isinstance(x, ast.Attribute) and x.attr == r and isinstance(x.ctx, (ast.Store, ast.Del))]
            first = [j for j, t in enumerate(f.body) if "self." + r in stored_names(t) and isinstance(t, ast.Assign)]
            if len(rs) != 1 or len(first) != 1 or first[0] >= i:
                raise Untranslatable("%s is computed from self.%s, which is not fixed before it" % (full, r))
            for x in ast.walk(self.ctx.tree):
                if isinstance(x, ast.Call) and isinstance(x.func, ast.Attribute) and x.func.attr in MUTATORS and ast.unparse(x.func.value) == "self." + r:
                    raise Untranslatable("self.%s is changed in place" % r)
                if isinstance(x, ast.Subscript) and isinstance(x.ctx, (ast.Store, ast.Del)) and ast.unparse(x.value) == "self." + r:
                    raise Untranslatable("self.%s is changed in place" % r)
        self.stack.append(key)
        try:
            t = self.callee(self.ctx, True)
            t.ctor = None
            t.tmp = self.tmp
            out = t.e(s.value)
            self.pre += t.pre
            self.tmp = max(self.tmp, t.tmp)
            return out
        finally:
            self.stack.pop()

    def private_reads(self, e: ast.AST, seen: typing.Set[str]) -> typing.Set[str]:
        """Attributes of `self` that evaluating `e` reads, through the properties and methods of the class."""
        assert self.ctx is not None
        out: typing.Set[str] = set()
        for n in ast.walk(e):
            if isinstance(n, ast.Attribute) and isinstance(n.value, ast.Name) and n.value.id == "self":
                m = self.ctx.find_member(self.cls, n.attr)
                if m is None:
                    if n.attr.upper() == n.attr and "self." + n.attr in self.paths:
                        continue  # a class constant of the tables
                    out.add(n.attr)
                elif isinstance(m[0], ast.FunctionDef):
                    if n.attr not in seen:
                        seen.add(n.attr)
                        out |= self.private_reads(ast.Module(body=m[0].body, type_ignores=[]), seen)
        return out

    @staticmethod
    def as_sint(v: str, t: str) -> str:
        if t == "sint":
            return v
        if t == "int":
            return "(%s : Int)" % v
        raise Untranslatable("%s used as an integer" % t)

    @staticmethod
    def as_bls(v: str, t: str) -> str:
        if t == "bls":
            return v
        if t == "int":
            return "(Py.blsOfInt %s)" % v
        raise Untranslatable("%s used as a bit length set" % t)

    # ---- helper functions / methods: inlined as a local function applied to the arguments
    def inline(self, fn: ast.FunctionDef, ctx: Ctx, args: typing.List[typing.Tuple[str, str]], keep_self: bool, key: str) -> typing.Tuple[str, str]:
        if key in self.stack or len(self.stack) > 8:
            raise Untranslatable("recursive helper %s" % key)
        a = fn.args
        if a.vararg or a.kwarg or a.kwonlyargs or a.posonlyargs:
            raise Untranslatable("parameter list of %s" % key)
        names = [x.arg for x in a.args]
        dec = decorators(fn)
        if keep_self and "staticmethod" not in dec:
            names = names[1:]
        n_def = len(a.defaults)
        if not (len(names) - n_def <= len(args) <= len(names)):
            raise Untranslatable("arguments of %s" % key)
        if len(args) < len(names):
            raise Untranslatable("default arguments of %s" % key)
        if contains(fn.body, (ast.Yield, ast.YieldFrom, ast.Global, ast.Nonlocal, ast.Lambda, ast.FunctionDef, ast.ClassDef)):
            raise Untranslatable("helper %s: generator / nested definitions" % key)
        for _, t in args:
            if t not in LEAN_TY:
                raise Untranslatable("argument of type %s for %s" % (t, key))
        s = self.callee(ctx, keep_self and "staticmethod" not in dec)
        s.types = {p: t for p, (_, t) in zip(names, args)}
        self.stack.append(key)
        try:
            body = fn_body(fn)
            returns_value = any(isinstance(x, ast.Return) and x.value is not None for x in ast.walk(ast.Module(body=body, type_ignores=[])))
            if not returns_value:
                body = norm_block(body, [], True)
            s.live = live_names(body)
            lines: typing.List[str] = []
            declared = {lname(p) for p in names}
            s.stmts(body, "    ", lines, declared, multi_assigned(body), False)
            if returns_value:
                ts = set(s.ret_seen)
                if len(ts) != 1:
                    raise Untranslatable("helper %s returns %s" % (key, sorted(ts) or "nothing on some path"))
                rt = ts.pop()
                if not (body and isinstance(body[-1], (ast.Return, ast.Raise, ast.If))):
                    raise Untranslatable("helper %s may fall off its end" % key)
            else:
                rt = "unit"
                lines.append("    pure ()")
        finally:
            self.stack.pop()
        self.tmp = max(self.tmp, s.tmp)
        if rt not in LEAN_TY:
            raise Untranslatable("helper %s returns %s" % (key, rt))
        lt = LEAN_TY[rt]
        head = "".join("(%s : %s) " % (lname(p), LEAN_TY[t]) for p, (_, t) in zip(names, args))
        block = "(do\n" + "\n".join(lines) + "\n    : Py.M %s)" % ("(" + lt + ")" if " " in lt else lt)
        term = "((fun %s=> %s) %s)" % (head, block, " ".join(v for v, _ in args)) if args else block
        if rt == "unit":
            self.pre.append(term)
            return "()", "unit"
        return self.bind(term), rt

    def call(self, n: ast.Call) -> typing.Tuple[str, str]:
        f = n.func
        try:
            fs = ast.unparse(f)
        except Exception:  # pragma: no cover
            fs = "?"
        if fs == "ValueRange" and not n.args and [k.arg for k in n.keywords] == ["min", "max"]:
            lo, tlo = self.e(n.keywords[0].value)
            hi, thi = self.e(n.keywords[1].value)
            return "(%s, %s)" % (self.as_sint(lo, tlo), self.as_sint(hi, thi)), "range"
        if fs in ("fractions.Fraction", "Fraction") and len(n.args) == 1 and not n.keywords:
            a, ta = self.e(n.args[0])
            if ta in ("int", "sint"):
                return a, ta
        if n.keywords:
            raise Untranslatable("keyword arguments")
        if any(isinstance(a, ast.Starred) for a in n.args):
            raise Untranslatable("starred arguments")
        choices = self.choices
        if isinstance(f, ast.Attribute) and isinstance(f.value, ast.Name) and f.value.id in choices:
            c, ca, cb = choices[f.value.id]
            meths = self.item.get("class_methods", {})
            if f.attr not in meths:
                raise Untranslatable("method %s of a class chosen at run time" % f.attr)
            rt = meths[f.attr]
            args = " ".join(self.e(a)[0] for a in n.args)
            return self.bind("(if %s then Gen.%s.%s %s else Gen.%s.%s %s)" % (c, ca, f.attr, args, cb, f.attr, args)), rt
        fs = RENAMED.get(fs, fs) if RENAMED.get(fs, fs) in self.calls else fs
        if fs in self.calls:
            target, rt = self.calls[fs]
            args = " ".join(self.e(a)[0] for a in n.args)
            if rt == "unit":
                self.pre.append(("%s %s" % (target, args)).strip())
                return "()", "unit"
            return self.bind(("%s %s" % (target, args)).strip()), rt
        if isinstance(f, ast.Name) and f.id not in self.types:
            if f.id in ("min", "max"):
                if len(n.args) >= 2:
                    vals = [self.e(a) for a in n.args]
                    if all(t == "int" for _, t in vals):
                        terms = sorted({v for v, _ in vals}, key=okey)  # commutative, associative, idempotent
                        out = terms[0]
                        for v in terms[1:]:
                            out = "(%s %s %s)" % (f.id, out, v)
                        return out, "int"
                if len(n.args) == 1:
                    a = self.e(n.args[0])
                    if a[1] == "intlist":
                        return self.bind("Py.%sOf %s" % (f.id, a[0])), "int"
                raise Untranslatable("%s(...)" % f.id)
            if f.id == "len" and len(n.args) == 1:
                a = self.e(n.args[0])
                if a[1] in ELEM:
                    return "(%s).length" % a[0], "int"
                if a[1] == "bls":
                    return "(Py.blsLen %s)" % a[0], "int"
                raise Untranslatable("len of %s" % a[1])
            if f.id == "int" and len(n.args) == 1:
                a = self.e(n.args[0])
                if a[1] == "int":
                    return a
            if f.id in ("list", "tuple") and len(n.args) == 1:
                a = self.e(n.args[0])
                if a[1] in ELEM:
                    return a
            if f.id in ("any", "all") and len(n.args) == 1:
                a = self.e(n.args[0])
                if a[1] == "boollist":
                    return "(%s).%s id" % (a[0], f.id), "bool"
            if f.id == "range" and len(n.args) in (1, 2):
                vals = [self.e(a) for a in n.args]
                if all(t == "int" for _, t in vals):
                    if len(vals) == 1 or lit(vals[0][0]) == 0:
                        return "(Py.range %s)" % vals[-1][0], "intlist"
                    return "((Py.range %s).drop %s)" % (vals[1][0], vals[0][0]), "intlist"
            if f.id == "isinstance" and len(n.args) == 2:
                a = self.e(n.args[0])
                want = ast.unparse(n.args[1])
                if a[1] in ("comp", "sec") and want.endswith("ServiceType"):
                    return ("(%s).is_service" % a[0] if a[1] == "comp" else "false"), "bool"
                if a[1] in ("comp", "sec") and want.endswith("DelimitedType"):
                    return "(%s).is_delimited" % a[0], "bool"
                ok = {"int": "int", "BitLengthSet": "bls", "_bit_length_set.BitLengthSet": "bls"}.get(want)
                if ok is not None and a[1] == ok:
                    return "true", "bool"
                raise Untranslatable("isinstance(%s, %s)" % (a[1], want))
            if f.id == "BitLengthSet" and len(n.args) == 1:
                a = self.e(n.args[0])
                return self.as_bls(*a), "bls"
            if self.ctx is not None:
                r = self.ctx.function(f.id)
                if r is not None:
                    return self.inline(r[0], r[1], [self.e(a) for a in n.args], False, "%s:%s" % (r[1].rel, r[0].name))
        if isinstance(f, ast.Attribute):
            if isinstance(f.value, ast.Name) and f.value.id == "math":
                if f.attr == "ceil" and len(n.args) == 1 and isinstance(n.args[0], ast.Call) and ast.unparse(n.args[0].func) == "math.log2":
                    a = self.e(n.args[0].args[0])
                    if a[1] == "int":
                        return self.bind("Py.ceilLog2 %s" % a[0]), "int"
            if ast.unparse(f.value) in ("BitLengthSet", "_bit_length_set.BitLengthSet") and f.attr == "unite" and len(n.args) == 1:
                a = self.e(n.args[0])
                if a[1] == "blslist":
                    return self.bind("Py.blsUnite %s" % a[0]), "bls"
            if isinstance(f.value, ast.Name) and f.value.id in ("self", "cls") and self.cls is not None and self.ctx is not None:
                m = self.ctx.find_member(self.cls, f.attr)
                if m is not None and isinstance(m[0], ast.FunctionDef) and "property" not in decorators(m[0]):
                    if f.value.id == "cls" or "classmethod" in decorators(m[0]):
                        raise Untranslatable("class method %s" % f.attr)
                    key = "%s.%s" % (m[1].name, f.attr)
                    if not n.args and single_return(m[0]) is not None and "staticmethod" not in decorators(m[0]) and key not in self.stack:
                        self.stack.append(key)
                        try:
                            s = self.callee(self.ctx, True)
                            s.tmp = self.tmp
                            out = s.e(single_return(m[0]))
                            self.pre += s.pre
                            self.tmp = max(self.tmp, s.tmp)
                            return out
                        finally:
                            self.stack.pop()
                    return self.inline(m[0], self.ctx, [self.e(a) for a in n.args], True, "%s.%s" % (m[1].name, f.attr))
            if (isinstance(f.value, ast.Name) and self.ctx is not None and f.value.id in self.ctx.classes and f.value.id not in self.types):
                m = self.ctx.find_member(f.value.id, f.attr)
                if m is not None and isinstance(m[0], ast.FunctionDef) and "staticmethod" in decorators(m[0]):
                    return self.inline(m[0], self.ctx, [self.e(a) for a in n.args], True, "%s.%s" % (m[1].name, f.attr))
            base, bt = self.e(f.value)
            if bt == "bls":
                args = [self.e(a) for a in n.args]
                if f.attr == "pad_to_alignment" and len(args) == 1 and args[0][1] == "int":
                    return self.bind("Py.blsPad %s %s" % (base, args[0][0])), "bls"
                if f.attr == "repeat" and len(args) == 1 and args[0][1] == "int":
                    return "(Py.blsRepeat %s %s)" % (base, args[0][0]), "bls"
                if f.attr == "repeat_range" and len(args) == 1 and args[0][1] == "int":
                    return "(Py.blsRepeatRange %s %s)" % (base, args[0][0]), "bls"
                if f.attr == "is_aligned_at" and len(args) == 1 and args[0][1] == "int":
                    return self.bind("Py.blsIsAlignedAt %s %s" % (base, args[0][0])), "bool"
                if f.attr == "is_aligned_at_byte" and not args:
                    return self.bind("Py.blsIsAlignedAt %s (8 : Nat)" % base), "bool"
            if bt == "int" and f.attr == "bit_length" and not n.args:
                return "(Py.bitLength %s)" % base, "int"
        raise Untranslatable("call %s" % fs)

    # ---- statements
    def flush(self, out: typing.List[str], ind: str) -> None:
        for p in self.pre:
            out.extend(ind + line for line in p.split("\n"))
        self.pre = []

    def assign(self, target: ast.AST, value: ast.AST, out, ind, declared: typing.Set[str], mut: typing.Set[str]) -> None:
        # `ty = A if cond else B` with A, B classes whose static methods are translated: remembered, not emitted
        classes = self.item.get("classes", {})
        if isinstance(target, ast.Name) and isinstance(value, ast.IfExp) and ast.unparse(value.body) in classes and ast.unparse(value.orelse) in classes:
            c, tc = self.e(value.test)
            if tc != "bool":
                raise Untranslatable("class choice on %s" % tc)
            self.choices[target.id] = (c, classes[ast.unparse(value.body)], classes[ast.unparse(value.orelse)])
            return
        ts = ast.unparse(target)
        if ts in self.item.get("ignored_assignments", ()):
            return
        if isinstance(target, ast.Name):
            self.sym.pop(target.id, None)
        for k in [k for k, v in self.sym.items() if ts in ast.unparse(v)]:
            del self.sym[k]
        if isinstance(target, ast.Name) and self.live is not None and target.id not in self.live and message_only(value):
            return  # read by message texts only
        try:
            v, t = self.e(value)
        except Untranslatable as ex:
            chain = value
            while isinstance(chain, ast.Attribute):
                chain = chain.value
            if isinstance(target, ast.Name) and isinstance(value, ast.Attribute) and isinstance(chain, ast.Name):
                self.sym[target.id] = value  # another name of an object that is only seen through its attributes
                self.types.pop(target.id, None)
                return
            raise
        self.flush(out, ind)
        name = lname(ts[5:] if ts.startswith("self.") else ts)
        if not (isinstance(target, ast.Name) or ts.startswith("self._")):
            raise Untranslatable("assignment to %s" % ts)
        if t == "unit":
            raise Untranslatable("assignment of a call that returns nothing")
        if name in declared and name in mut:
            if self.types.get(name, t) != t and "bls" in (t, self.types.get(name)):
                v, t = self.as_bls(v, t), "bls"
            out.append("%s%s := %s" % (ind, name, v))
        elif name in declared:  # a parameter or single-assignment local: shadow it
            if v != name:
                out.append("%slet %s := %s" % (ind, name, v))
        else:
            out.append("%s%s %s := %s" % (ind, "let mut" if name in mut else "let", name, v))
            declared.add(name)
        self.types[name] = t
        if ts != name:
            self.types.pop(ts, None)
        self.paths[ts] = (name, t)

    def block(self, body, ind, out, declared, mut, gen) -> None:
        n0 = len(out)
        saved = (dict(self.types), dict(self.sym))
        self.stmts(body, ind, out, declared, mut, gen)
        if len(out) == n0:
            out.append("%spure ()" % ind)
        self.sym = saved[1]

    def narrowed(self, name: str):
        nm = lname(name)
        if self.types.get(nm) != "optint":
            return None
        saved = (name, nm, self.paths.get(name), self.types.get(nm))
        self.types[nm] = "int"
        self.paths[name] = ("(%s).get!" % nm, "int")
        return saved

    def restore(self, saved) -> None:
        if saved is None:
            return
        name, nm, oldp, oldt = saved
        self.types[nm] = oldt
        if oldp is None:
            self.paths.pop(name, None)
        else:
            self.paths[name] = oldp

    def stmts(self, body, ind, out, declared, mut, gen: bool) -> None:
        pending = []  # narrowings that hold for the rest of this block
        try:
            self._stmts(body, ind, out, declared, mut, gen, pending)
        finally:
            for sv in reversed(pending):
                self.restore(sv)

    def _stmts(self, body, ind, out, declared, mut, gen: bool, pending) -> None:
        for s in body:
            if isinstance(s, ast.Expr) and isinstance(s.value, ast.Constant):
                continue
            if isinstance(s, ast.Pass):
                continue
            if isinstance(s, ast.Assign) and len(s.targets) == 1 and isinstance(s.targets[0], ast.Tuple) and isinstance(s.value, ast.Tuple) \
                    and len(s.targets[0].elts) == len(s.value.elts) and all(isinstance(t, ast.Name) for t in s.targets[0].elts):
                names = {t.id for t in s.targets[0].elts}
                if len(names) != len(s.value.elts) or any(isinstance(x, ast.Name) and x.id in names for v in s.value.elts for x in ast.walk(v)):
                    raise Untranslatable("tuple assignment that reads its own targets")
                for t, v in zip(s.targets[0].elts, s.value.elts):
                    self.assign(t, v, out, ind, declared, mut)
            elif isinstance(s, ast.Assign) and len(s.targets) == 1:
                self.assign(s.targets[0], s.value, out, ind, declared, mut)
            elif isinstance(s, ast.AnnAssign) and s.value is not None and s.simple:
                self.assign(s.target, s.value, out, ind, declared, mut)
            elif isinstance(s, ast.AugAssign) and isinstance(s.target, ast.Name):
                load = ast.Name(id=s.target.id, ctx=ast.Load())
                self.assign(s.target, ast.copy_location(ast.BinOp(left=load, op=s.op, right=s.value), s), out, ind, declared, mut)
            elif isinstance(s, ast.Assert):
                v, t = self.cond(s.test)
                self.flush(out, ind)
                if v != "true":
                    out.append("%sPy.assert %s" % (ind, v))
            elif isinstance(s, ast.Return) and s.value is not None:
                v, t = self.e(s.value)
                if self.ret == "bls":
                    v, t = self.as_bls(v, t), "bls"
                self.ret_seen.append(t)
                self.flush(out, ind)
                out.append("%sreturn %s" % (ind, v))
            elif isinstance(s, ast.Return):
                self.ret_seen.append("unit")
                out.append("%sreturn ()" % ind)
            elif isinstance(s, ast.Try):
                self.try_stmt(s, ind, out, declared, mut, gen)
            elif isinstance(s, ast.If) and self.choice_assignments(s) is not None:
                for a in self.choice_assignments(s):  # `if c: x = A else: x = B` is `x = A if c else B`
                    self.assign(a.targets[0], a.value, out, ind, declared, mut)
            elif isinstance(s, ast.If) and clamp_update(s) is not None:
                self.assign(*clamp_update(s), out, ind, declared, mut)  # `if x < y: x = y` is `x = max(x, y)`
            elif isinstance(s, ast.If):
                c, tc = self.cond(s.test)
                self.flush(out, ind)
                nt = none_test(s.test)
                body_t, body_f = s.body, s.orelse
                if c in ("true", "false"):  # decided by the types (e.g. a section is never a service): only the live branch
                    self.stmts(body_t if c == "true" else body_f, ind, out, declared, mut, gen)
                    continue
                if not [x for x in body_t if not isinstance(x, ast.Pass)] and body_f:
                    c, body_t, body_f = b_str(b_not(b_of(c))), body_f, []
                    nt = (nt[0], not nt[1]) if nt else None
                out.append("%sif %s then" % (ind, c))
                sv = self.narrowed(nt[0]) if nt and nt[1] else None
                self.block(body_t, ind + "  ", out, set(declared), mut, gen)
                self.restore(sv)
                if body_f:
                    out.append("%selse" % ind)
                    sv = self.narrowed(nt[0]) if nt and not nt[1] else None
                    self.block(body_f, ind + "  ", out, set(declared), mut, gen)
                    self.restore(sv)
                elif nt and not nt[1] and terminates(body_t):
                    pending.append(self.narrowed(nt[0]))  # after `if x is None: raise / return`, x is an integer
                for nm in assigned_in(s.body) | assigned_in(s.orelse):  # bound on some paths only: not a name of the following code
                    if lname(nm) not in declared:
                        self.types.pop(lname(nm), None)
                        self.types.pop(nm, None)
                        self.paths.pop(nm, None)
            elif isinstance(s, ast.Raise) and s.exc is not None:
                cls = s.exc.func if isinstance(s.exc, ast.Call) else s.exc
                out.append('%sthrow (.other "%s")' % (ind, ast.unparse(cls)))
            elif isinstance(s, ast.Expr) and isinstance(s.value, ast.Call):
                v, t = self.e(s.value)
                self.flush(out, ind)
                if t != "unit":
                    raise Untranslatable("call whose result is dropped")
            elif isinstance(s, ast.Expr) and isinstance(s.value, ast.Yield) and gen:
                y = s.value.value
                if isinstance(y, ast.Tuple) and len(y.elts) == 2:
                    v, t = self.e(y.elts[1])
                    self.flush(out, ind)
                    out.append("%sys := ys ++ [%s]" % (ind, self.as_bls(v, t)))
                else:
                    raise Untranslatable("yield shape")
            elif isinstance(s, ast.For) and isinstance(s.target, ast.Name) and not s.orelse:
                self.for_stmt(index_loop(s), ind, out, declared, mut, gen)
            else:
                raise Untranslatable("statement %s" % type(s).__name__)

    def choice_assignments(self, s: ast.If) -> typing.Optional[typing.List[ast.Assign]]:
        """Both branches only assign (each name once, the same names in the same order; names that only message texts read do not count)."""
        def simple(body) -> typing.Optional[typing.List[typing.Tuple[str, ast.expr]]]:
            out: typing.List[typing.Tuple[str, ast.expr]] = []
            for x in body:
                if isinstance(x, ast.Pass):
                    continue
                if isinstance(x, ast.Assign) and len(x.targets) == 1 and isinstance(x.targets[0], ast.Name):
                    pairs = [(x.targets[0].id, x.value)]
                elif (isinstance(x, ast.Assign) and len(x.targets) == 1 and isinstance(x.targets[0], ast.Tuple) and isinstance(x.value, ast.Tuple)
                      and len(x.targets[0].elts) == len(x.value.elts) and all(isinstance(t, ast.Name) for t in x.targets[0].elts)):
                    pairs = [(t.id, v) for t, v in zip(x.targets[0].elts, x.value.elts)]
                    names = {n for n, _ in pairs}
                    if len(names) != len(pairs) or any(isinstance(y, ast.Name) and y.id in names for _, v in pairs for y in ast.walk(v)):
                        return None
                else:
                    return None
                for nm, v in pairs:
                    if self.live is not None and nm not in self.live and message_only(v):
                        continue
                    out.append((nm, v))
            return out
        if not s.orelse:
            return None
        a, b = simple(s.body), simple(s.orelse)
        if a and len(a) > 1 and any(isinstance(x, ast.Name) and x.id in {n for n, _ in a} for x in ast.walk(s.test)):
            return None  # the condition would be evaluated again after some of the names it reads have changed
        if a is None or b is None or not a or [n for n, _ in a] != [n for n, _ in b] or len({n for n, _ in a}) != len(a):
            return None
        return [ast.fix_missing_locations(ast.copy_location(ast.Assign(targets=[ast.Name(id=n, ctx=ast.Store())],
                                                                        value=ast.IfExp(test=s.test, body=va, orelse=vb)), s))
                for (n, va), (_, vb) in zip(a, b)]

    def try_stmt(self, s: ast.Try, ind, out, declared, mut, gen) -> None:
        """`try: return A  except AttributeError: return B` (a cached value with a fall-back): translated only when both branches are the
        same term, so that it does not matter whether the attribute exists."""
        if (len(s.body) == 1 and isinstance(s.body[0], ast.Return) and s.body[0].value is not None and isinstance(s.body[0].value, ast.Attribute)
                and len(s.handlers) == 1 and isinstance(s.handlers[0].type, ast.Name) and s.handlers[0].type.id == "AttributeError"
                and s.handlers[0].name is None and len(s.handlers[0].body) == 1 and isinstance(s.handlers[0].body[0], ast.Return)
                and s.handlers[0].body[0].value is not None and not s.orelse and not s.finalbody):
            a, b = self.sub(), self.sub()
            a.tmp = b.tmp = self.tmp
            ra = a.e(s.body[0].value)
            rb = b.e(s.handlers[0].body[0].value)
            if ra != rb or a.pre != b.pre:
                raise Untranslatable("try / except AttributeError whose branches differ")
            self.pre += a.pre
            self.tmp = a.tmp
            v, t = ra
            if self.ret == "bls":
                v, t = self.as_bls(v, t), "bls"
            self.ret_seen.append(t)
            self.flush(out, ind)
            out.append("%sreturn %s" % (ind, v))
            return
        raise Untranslatable("statement Try")

    def for_stmt(self, s: ast.For, ind, out, declared, mut, gen) -> None:
        it, tit = self.e(s.iter)
        et = ELEM.get(tit)
        if et is None or et == "str":
            raise Untranslatable("for over %s" % tit)
        self.flush(out, ind)
        lbody = norm_block(s.body, [], False)
        assigned = assigned_in(lbody) | ({"ys"} if gen and contains(lbody, ast.Yield) else set())
        carried = sorted(v for v in assigned if lname(v) in declared)
        if contains(lbody, (ast.Return, ast.While)) or loop_jump(lbody):
            raise Untranslatable("return / break / continue inside a for loop")
        if s.target.id in assigned:
            raise Untranslatable("loop variable assigned in the loop")
        saved_t = self.types.get(s.target.id)
        self.types[s.target.id] = et
        self.sym.pop(s.target.id, None)
        if not carried:  # a loop that only checks (raises or not)
            body0: typing.List[str] = []
            self.stmts(lbody, ind + "    ", body0, set(declared), mut | {lname(v) for v in assigned}, gen)
            out.append("%sPy.forEach %s () (fun () %s => do" % (ind, it, lname(s.target.id)))
            out.extend(body0)
            out.append("%s    pure ())" % ind)
        else:
            state = lname(carried[0]) if len(carried) == 1 else "(" + ", ".join(map(lname, carried)) + ")"
            body: typing.List[str] = []
            inner_mut = mut | {lname(v) for v in assigned - set(carried)}
            self.stmts(lbody, ind + "    ", body, set(declared), inner_mut, gen)
            out.append("%s%s ← Py.forEach %s %s (fun %s %s => do" % (ind, state, it, state, state, lname(s.target.id)))
            for v in carried:
                out.append("%s    let mut %s := %s" % (ind, lname(v), lname(v)))
            out.extend(body)
            out.append("%s    pure %s)" % (ind, state))
        if saved_t is None:
            self.types.pop(s.target.id, None)
        else:
            self.types[s.target.id] = saved_t


def clamp_update(s: ast.If) -> typing.Optional[typing.Tuple[ast.Name, ast.expr]]:
    """`if x < y: x = y` (or `<=`, or the comparison turned round) is `x = max(x, y)`; `if x > y: x = y` is `x = min(x, y)`.  Only for plain
    names / attribute chains / literals (no call is duplicated); that both are integers is checked where `max` / `min` is translated."""
    if s.orelse or len(s.body) != 1 or not isinstance(s.body[0], ast.Assign) or len(s.body[0].targets) != 1:
        return None
    tgt, val, t = s.body[0].targets[0], s.body[0].value, s.test
    if not (isinstance(tgt, ast.Name) and isinstance(t, ast.Compare) and len(t.ops) == 1):
        return None

    def plain(e: ast.expr) -> bool:
        return all(isinstance(n, (ast.Name, ast.Attribute, ast.Constant, ast.Load)) for n in ast.walk(e))
    if not plain(val):
        return None
    x, y, op = ast.unparse(tgt), ast.unparse(val), t.ops[0]
    l, r = ast.unparse(t.left), ast.unparse(t.comparators[0])
    if isinstance(op, (ast.Gt, ast.GtE)):
        l, r, op = r, l, (ast.Lt() if isinstance(op, ast.Gt) else ast.LtE())
    if not isinstance(op, (ast.Lt, ast.LtE)):
        return None
    if (l, r) == (x, y):
        fn = "max"
    elif (l, r) == (y, x):
        fn = "min"
    else:
        return None
    call = ast.Call(func=ast.Name(id=fn, ctx=ast.Load()), args=[ast.Name(id=tgt.id, ctx=ast.Load()), val], keywords=[])
    return tgt, ast.fix_missing_locations(ast.copy_location(call, s))


def _subst_root(n: ast.AST, new_root: ast.expr) -> ast.expr:
    if isinstance(n, ast.Attribute):
        return ast.Attribute(value=_subst_root(n.value, new_root), attr=n.attr, ctx=ast.Load())
    return new_root


def index_loop(s: ast.For) -> ast.For:
    """`for i in range(a, len(xs)): … xs[i] …` where `i` occurs only as the index of `xs`, `xs` is a plain name that the body does not assign and
    `a` is a literal: the same loop as `for x in xs[a:]` (range and slice are both empty when `a >= len(xs)`)."""
    it = s.iter
    if not (isinstance(it, ast.Call) and isinstance(it.func, ast.Name) and it.func.id == "range" and not it.keywords and len(it.args) in (1, 2)):
        return s
    lo = it.args[0] if len(it.args) == 2 else ast.Constant(value=0)
    hi = it.args[-1]
    if not (isinstance(lo, ast.Constant) and isinstance(lo.value, int) and not isinstance(lo.value, bool) and lo.value >= 0):
        return s
    if not (isinstance(hi, ast.Call) and isinstance(hi.func, ast.Name) and hi.func.id == "len" and len(hi.args) == 1 and not hi.keywords
            and isinstance(hi.args[0], ast.Name)):
        return s
    xs, i = hi.args[0].id, s.target.id
    if xs == i or xs in assigned_in(s.body):
        return s
    mod = ast.Module(body=s.body, type_ignores=[])
    uses = [n for n in ast.walk(mod) if isinstance(n, ast.Name) and n.id == i]
    subs = [n for n in ast.walk(mod) if isinstance(n, ast.Subscript) and isinstance(n.value, ast.Name) and n.value.id == xs
            and isinstance(n.slice, ast.Name) and n.slice.id == i and isinstance(n.ctx, ast.Load)]
    if not subs or len(uses) != len(subs):
        return s
    for n in ast.walk(mod):  # xs must not be changed in place, and no other name may be bound to it
        if isinstance(n, ast.Call) and isinstance(n.func, ast.Attribute) and isinstance(n.func.value, ast.Name) and n.func.value.id == xs:
            return s
        if isinstance(n, (ast.Subscript, ast.Attribute)) and isinstance(n.ctx, (ast.Store, ast.Del)):
            return s
    body = list(s.body)
    first = body[0] if body else None
    if (len(subs) == 1 and isinstance(first, ast.Assign) and len(first.targets) == 1 and isinstance(first.targets[0], ast.Name)
            and first.value is subs[0] and first.targets[0].id not in assigned_in(body[1:]) and first.targets[0].id != xs):
        var, body = first.targets[0].id, body[1:]  # `x = xs[i]` as the first statement: x is the loop variable
    else:
        var = "%s_item" % xs
        if any(isinstance(n, ast.Name) and n.id == var for n in ast.walk(mod)):
            return s

        class R(ast.NodeTransformer):
            def visit_Subscript(self, n):  # noqa: N802
                if n in subs:
                    return ast.copy_location(ast.Name(id=var, ctx=ast.Load()), n)
                return self.generic_visit(n)
        body = [R().visit(b) for b in body]
    new_iter: ast.expr = ast.Name(id=xs, ctx=ast.Load())
    if lo.value:
        new_iter = ast.Subscript(value=new_iter, slice=ast.Slice(lower=ast.Constant(value=lo.value), upper=None, step=None), ctx=ast.Load())
    new = ast.For(target=ast.Name(id=var, ctx=ast.Store()), iter=new_iter, body=body or [ast.Pass()], orelse=[])
    return ast.fix_missing_locations(ast.copy_location(new, s))


def loop_jump(body) -> bool:
    """A `break` / `continue` that belongs to this loop (not to a loop nested in it) and was not removed by `norm_block`."""
    for s in body:
        if isinstance(s, (ast.Break, ast.Continue)):
            return True
        if isinstance(s, (ast.For, ast.While)):
            if loop_jump(s.orelse):
                return True
            continue
        for f in ("body", "orelse", "finalbody"):
            if loop_jump(getattr(s, f, []) or []):
                return True
        if isinstance(s, ast.Try) and any(loop_jump(h.body) for h in s.handlers):
            return True
    return False


def stored_names(s: ast.stmt) -> typing.Set[str]:
    """Names and `self.x` attributes that a statement (or a statement nested in it) assigns."""
    out: typing.Set[str] = set()
    for n in ast.walk(s):
        tg: typing.List[ast.expr] = []
        if isinstance(n, ast.Assign):
            tg = list(n.targets)
        elif isinstance(n, (ast.AugAssign, ast.AnnAssign)):
            tg = [n.target]
        elif isinstance(n, ast.For):
            tg = [n.target]
        for t in tg:
            for x in (t.elts if isinstance(t, ast.Tuple) else [t]):
                if isinstance(x, (ast.Name, ast.Attribute)):
                    out.add(ast.unparse(x))
    return out


def assigned_in(body) -> typing.Set[str]:
    out: typing.Set[str] = set()
    for n in ast.walk(ast.Module(body=body, type_ignores=[])):
        if isinstance(n, ast.Assign):
            for t in n.targets:
                out |= {x.id for x in (t.elts if isinstance(t, ast.Tuple) else [t]) if isinstance(x, ast.Name)}
        elif isinstance(n, (ast.AugAssign, ast.AnnAssign)) and isinstance(n.target, ast.Name):
            out.add(n.target.id)
    return out


def contains(body, kinds) -> bool:
    return any(isinstance(n, kinds) for n in ast.walk(ast.Module(body=body, type_ignores=[])))


def multi_assigned(body) -> typing.Set[str]:
    cnt: typing.Dict[str, int] = {}

    def bump(t: ast.expr, k: int) -> None:
        for x in (t.elts if isinstance(t, ast.Tuple) else [t]):
            s = ast.unparse(x)
            nm = lname(s[5:] if s.startswith("self.") else s)
            cnt[nm] = cnt.get(nm, 0) + k

    for n in ast.walk(ast.Module(body=body, type_ignores=[])):
        if isinstance(n, ast.Assign):
            for t in n.targets:
                bump(t, 1)
        elif isinstance(n, ast.AnnAssign) and n.value is not None:
            bump(n.target, 1)
        elif isinstance(n, ast.AugAssign):
            bump(n.target, 2)
        elif isinstance(n, ast.For):
            for v in assigned_in(n.body):
                cnt[lname(v)] = cnt.get(lname(v), 0) + 2
    return {k for k, v in cnt.items() if v > 1}


def slice_candidates(item: dict, fn: ast.FunctionDef) -> typing.Tuple[typing.List[int], typing.List[int]]:
    """Top-level statements of a constructor that belong to a slice: (roots, guards).  Roots are the assignments to the listed attributes;
    guards are the `if …: raise` statements, the `assert`s and the calls of helper methods of `self` after the first root (or from the start)
    -- kept only when they can be expressed over the slice's inputs (trial translation).  Everything else a root or a guard reads (locals,
    attributes assigned earlier in the constructor) is added on demand, by data flow, not by name."""
    targets = set(item["targets"])
    roots: typing.List[int] = []
    guards: typing.List[int] = []
    started = True  # which guards come after the first statement of the slice is decided by the caller

    def guard_only(body) -> bool:
        return all(isinstance(x, (ast.Raise, ast.Assert, ast.Pass)) or (isinstance(x, ast.If) and guard_only(x.body) and guard_only(x.orelse)) for x in body)

    found = set()
    for i, s in enumerate(fn.body):
        if item.get("until") and item["until"] in stored_names(s):
            break
        if isinstance(s, ast.Assign) and len(s.targets) == 1 and ast.unparse(s.targets[0]) in targets:
            roots.append(i)
            found.add(ast.unparse(s.targets[0]))
        elif started and isinstance(s, ast.Assert):
            guards.append(i)
        elif started and isinstance(s, ast.If) and guard_only(s.body) and guard_only(s.orelse):
            guards.append(i)
        elif (started and isinstance(s, ast.Expr) and isinstance(s.value, ast.Call) and isinstance(s.value.func, ast.Attribute)
              and isinstance(s.value.func.value, ast.Name) and s.value.func.value.id == "self"):
            guards.append(i)
    if found != targets:
        raise Untranslatable("slice targets not found: %s" % sorted(targets - found))
    return roots, guards


def translate_slice(item: dict, fn: ast.FunctionDef, ctx: Ctx) -> typing.Tuple[typing.List[str], typing.List[str]]:
    roots, guards = slice_candidates(item, fn)
    stmts_ = list(fn.body)
    if item["ret"] != "unit":  # the value of the slice: a final `return <result>`
        stmts_.append(ast.fix_missing_locations(ast.Return(value=ast.parse(item["result"], mode="eval").body)))
        roots = roots + [len(stmts_) - 1]

    def attempt(wanted: typing.List[int]):
        """Translate the wanted statements plus everything they need (data flow).  Returns (lines, translator, chosen) or (failed root, error)."""
        chosen: typing.Dict[int, int] = {i: i for i in wanted}  # statement -> the root / guard that wants it
        while True:
            tr = Tr(item, ctx, item["cls"])
            tr.ctor = fn
            tr.live = live_names(stmts_)
            body: typing.List[str] = []
            declared = {lname(p) for p, _ in item["params"]}
            mut = multi_assigned([stmts_[i] for i in chosen])
            again = False
            for i in sorted(chosen):
                tr.cur = i
                try:
                    tr.stmts([stmts_[i]], "  ", body, declared, mut, False)
                except Need as ex:
                    defs = [j for j in range(min(i, len(fn.body))) if ex.name in stored_names(stmts_[j]) and j not in chosen]
                    if not defs or any(not isinstance(stmts_[j], (ast.Assign, ast.AnnAssign, ast.AugAssign, ast.If)) for j in defs):
                        return None, (chosen[i], ex)
                    for j in defs:
                        chosen[j] = chosen[i]
                    again = True
                    break
                except Untranslatable as ex:
                    return None, (chosen[i], ex)
            if not again:
                return (body, tr, chosen), None

    ok, err = attempt(roots)
    if ok is None:
        raise err[1]
    first = min(ok[2]) if ok[2] else len(stmts_)
    guards = [g for g in guards if item.get("from_start") or g > first]
    dropped: typing.Dict[int, str] = {}
    for _ in range(len(guards) + 1):
        ok, err = attempt(roots + [g for g in guards if g not in dropped])
        if ok is not None:
            body, tr, _chosen = ok
            if item["ret"] == "unit":
                body.append("  pure ()")
            elif any(t != item["ret"] for t in tr.ret_seen):
                raise Untranslatable("result of the slice has type %s" % sorted(set(tr.ret_seen)))
            skipped = ["%s (%s)" % (ast.unparse(stmts_[i]).split("\n")[0][:80].replace("-/", "- /"), why) for i, why in sorted(dropped.items())]
            return body, skipped
        root, ex = err
        if root in roots:
            raise ex
        dropped[root] = str(ex)  # a guard that mentions things outside the slice is left out (and listed in the header comment)
    raise Untranslatable("slice selection does not settle")


RENAMED: typing.Dict[str, str] = {}  # call text as written now -> the text the tables use (private helpers that were renamed)


def locate(ctx: Ctx, cls: typing.Optional[str], spec: typing.List[typing.Tuple[str, str]]) -> typing.Optional[str]:
    """A private helper by its place in the call graph: starting from a named function, the one function that is called with exactly the
    given argument text; `$` continues from the previous result."""
    cur: typing.Optional[str] = None
    for container, argtext in spec:
        name = cur if container == "$" else container
        f: typing.Optional[ast.stmt] = None
        if cls is not None and name is not None:
            m = None
            try:
                m = ctx.find_member(cls, name)
            except Untranslatable:
                pass
            f = m[0] if m else None
        if f is None and name in ctx.funcs:
            f = ctx.funcs[name]
        if not isinstance(f, ast.FunctionDef):
            return None
        names = set()
        for c in ast.walk(f):
            if isinstance(c, ast.Call) and not c.keywords and ", ".join(ast.unparse(a) for a in c.args) == argtext:
                if isinstance(c.func, ast.Name):
                    names.add(c.func.id)
                elif isinstance(c.func, ast.Attribute) and isinstance(c.func.value, ast.Name) and c.func.value.id in ("self", "cls", cls):
                    names.add(c.func.attr)
        if len(names) != 1:
            return None
        cur = names.pop()
    return cur


def translate_item(item: dict, repo: Path) -> typing.Tuple[typing.List[str], typing.Optional[str]]:
    params = " ".join("(%s : %s)" % (lname(p), LEAN_TY[t]) for p, t in item["params"])
    rt = LEAN_TY[item["ret"]]
    head = "def Gen.%s %s : Py.M %s := do" % (item["name"], params, "(" + rt + ")" if " " in rt else rt)
    try:
        ctx = Ctx.get(repo, item["source"])
        src, tree = ctx.src, ctx.tree
        if item["cls"] is None:
            cls: typing.Any = tree
        else:
            cls = next((c for c in tree.body if isinstance(c, ast.ClassDef) and c.name == item["cls"]), None)
        if cls is None:
            raise Untranslatable("class %s not found" % item["cls"])
        fn = next((f for f in cls.body if isinstance(f, ast.FunctionDef) and f.name == item["fn"]), None)
        if fn is None and item.get("locate"):  # renamed: found again through the call graph
            real = locate(ctx, item["cls"], item["locate"])
            fn = next((f for f in cls.body if isinstance(f, ast.FunctionDef) and f.name == real), None)
            if fn is not None:
                RENAMED[real] = item["fn"]
                for prefix in ("self.", "cls.", "%s." % item["cls"]):
                    RENAMED[prefix + real] = prefix + item["fn"]
        if fn is None:
            raise Untranslatable("%s.%s not found" % (item["cls"], item["fn"]))
        lines = src.splitlines()
        text = "\n".join(lines[fn.lineno - 1: fn.end_lineno])
        span = "%s lines %d-%d sha256 %s" % (item["source"], fn.lineno, fn.end_lineno, hashlib.sha256(text.encode()).hexdigest()[:16])
        if item["kind"] == "slice":
            body, skipped = translate_slice(item, fn, ctx)
            note = "/- %s (constructor slice: %s)  %s%s -/" % (item["name"], ", ".join(item["targets"]), span,
                                                               ("; left out: " + "; ".join(skipped)) if skipped else "")
        else:
            tr = Tr(item, ctx, item["cls"])
            body = []
            declared = {lname(p) for p, _ in item["params"]}
            gen = item["kind"] == "generator"
            fbody = fn_body(fn)
            if item["ret"] == "unit":
                fbody = norm_block(fbody, [], True)
            tr.live = live_names(fbody)
            mut = multi_assigned(fbody) | ({"ys"} if gen else set())
            if gen:
                body.append("  let mut ys : List Bls.Op := []")
                declared.add("ys")
            tr.stmts(fbody, "  ", body, declared, mut, gen)
            if gen:
                body.append("  return ys")
            if item["ret"] == "unit":
                body.append("  pure ()")
            elif not gen and any(t != item["ret"] for t in tr.ret_seen):
                raise Untranslatable("returns %s" % sorted(set(tr.ret_seen)))
            note = "/- %s  %s -/" % (item["name"], span)
        return [note, head] + body + [""], None
    except (Untranslatable, OSError, SyntaxError) as ex:
        ps = " ".join("(_%s : %s)" % (lname(p), LEAN_TY[t]) for p, t in item["params"])
        stub = ["def Gen.%s %s : Py.M %s :=" % (item["name"], ps, "(" + rt + ")" if " " in rt else rt),
                '  throw (.other "untranslatable: %s")' % str(ex).replace("\\", "/").replace('"', "'").replace("\n", " ")[:200], ""]
        return stub, "%s %s: %s" % (item["source"], item["name"], ex)


RULE_CONSTANT_NAMES = {"MAX_BIT_LENGTH", "BITS_IN_BYTE", "MAX_VERSION_NUMBER", "MIN_NUMBER_OF_VARIANTS", "MAX_SUBJECT_ID", "MAX_SERVICE_ID"}


def check_constants(repo: Path, rules: bool = False) -> typing.List[str]:
    probs = []
    for src, cls, name, want in CONSTANTS:
        if (name in RULE_CONSTANT_NAMES) != rules:
            continue
        try:
            tree = ast.parse((repo / src).read_text())
            c = tree if cls is None else next(x for x in tree.body if isinstance(x, ast.ClassDef) and x.name == cls)
            val = None
            for s in c.body:
                if isinstance(s, ast.Assign) and len(s.targets) == 1 and isinstance(s.targets[0], ast.Name) and s.targets[0].id == name:
                    val = ast.literal_eval(s.value)
            if val != want:
                probs.append("%s %s.%s = %r, the translation tables assume %r" % (src, cls, name, val, want))
        except Exception as ex:  # noqa: BLE001
            probs.append("%s %s.%s: %s" % (src, cls, name, ex))
    return probs


def _module(header: str, preamble: typing.List[str], items: typing.List[dict], repo: Path, problems: typing.List[str]) -> typing.Tuple[str, typing.List[str]]:
    Ctx._cache.clear()
    RENAMED.clear()
    for item in items:  # renamed private helpers first: other items may call them
        if item.get("locate"):
            try:
                c = Ctx.get(repo, item["source"])
                node = c.tree if item["cls"] is None else c.classes.get(item["cls"])
                if node is not None and not any(isinstance(f, ast.FunctionDef) and f.name == item["fn"] for f in node.body):
                    real = locate(c, item["cls"], item["locate"])
                    if real:
                        RENAMED[real] = item["fn"]
                        for prefix in ("self.", "cls.", "%s." % item["cls"]):
                            RENAMED[prefix + real] = prefix + item["fn"]
            except (OSError, SyntaxError):
                pass
    out = ["import PyLib", "/-! GENERATED by tools/py2lean.py (%s -- do not edit. -/" % header, "set_option linter.unusedVariables false", ""] + preamble
    for item in items:
        lines, prob = translate_item(item, repo)
        out += lines
        if prob:
            problems.append(prob)
    return "\n".join(out) + "\n", problems


def translate_layout(repo: Path) -> typing.Tuple[str, typing.List[str]]:
    return _module("layout group) from pydsdl/_serializable", PREAMBLE, ITEMS, repo, check_constants(repo))


def translate_primitive(repo: Path) -> typing.Tuple[str, typing.List[str]]:
    return _module("value ranges of pydsdl/_serializable/_primitive.py)", [], PRIMITIVE_ITEMS, repo, [])


def translate_rules(repo: Path) -> typing.Tuple[str, typing.List[str]]:
    return _module("rules group: constructor guards of pydsdl/_serializable)", [], RULE_ITEMS, repo, check_constants(repo, rules=True))


def translate_namespace(repo: Path) -> typing.Tuple[str, typing.List[str]]:
    return _module("namespace group) from pydsdl/_namespace.py", NS_PREAMBLE, NS_ITEMS, repo, [])
