#!/bin/sh
# tools/seeds.sh <PROP> [n]: run the quick check with seeds 0..n-1 on the unchanged tree, report any non-zero exit
P="$1"; N="${2:-6}"; i=0
while [ $i -lt $N ]; do
  VERIF_SEED=$i timeout 1500 /verif/check "$P" --tier quick > /tmp/seeds_$P_$i.log 2>&1; rc=$?
  [ $rc -ne 0 ] && { echo "$P seed $i rc=$rc"; grep -E "VIOLATION|INFRA" /tmp/seeds_$P_$i.log | head -3; }
  rm -f /tmp/seeds_$P_$i.log
  i=$((i+1))
done
echo "$P: seeds 0..$((N-1)) done"
