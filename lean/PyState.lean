import PyRegex
import Lean.Meta.Tactic.Simp.RegisterCommand
/-!
  PyState: the Lean meaning of the fragment of Python that `tools/py2lean_reader.py` translates (`Gen/Reader.lean`): methods of
  objects with mutable state *and* exceptions that are caught, changed and re-raised.  No Mathlib; imports `PyRegex` for
  `Py.Str` (a Python `str` = the list of its code points) and `PyLib` for `Py.Err`.

  * `SM σ ε α = σ → Except ε α × σ`: a method of an object whose attributes are `σ`.  Unlike `StateT σ (Except ε)` the object
    is still there when an exception leaves the method -- with every assignment made before the `raise`, exactly as in Python.
    This is what `except … as ex: … pr.current_line_number …` in `_parser.parse` looks at.
  * `Exc E`: what can be raised.  `dsdl e` is an instance of `pydsdl._error.Error` (any subclass) whose attributes are `e : E`
    (`E` is the structure generated from `Error.__init__`); `py e` is any other exception (`AssertionError`, `IndexError`, …).
    `except _error.Error as ex` matches exactly the first kind.
  * sub-objects: `zoom get set` runs a method of the object stored in an attribute, `zoomLast` one of `self._xs[-1]`
    (`IndexError` when the list is empty), `onObj` one of an object held in a local variable.
-/
/-- the simp set of the private helper methods the translator found through the call graph (`@[py_helper] def …` in the generated
    modules): a bridge proof unfolds them wherever they are called, so extracting or inlining a helper leaves the proofs alone -/
register_simp_attr py_helper

namespace Py

inductive Exc (E : Type) where
  | dsdl (e : E)
  | py (e : Err)
  deriving Repr, DecidableEq, Inhabited

def SM (σ ε α : Type) : Type := σ → Except ε α × σ

/-- the outcome of a method call: a value or an exception, and the object afterwards -/
abbrev Res (σ ε α : Type) : Type := Except ε α × σ

/-- continue after a call that returned; an exception passes through with the object as it is -/
def Res.andThen {σ ε α β : Type} (r : Res σ ε α) (k : α → σ → Res σ ε β) : Res σ ε β :=
  match r with
  | (.ok a, s) => k a s
  | (.error e, s) => (.error e, s)
/-- handle an exception; a value passes through -/
def Res.orElse {σ ε α : Type} (r : Res σ ε α) (h : ε → σ → Res σ ε α) : Res σ ε α :=
  match r with
  | (.ok a, s) => (.ok a, s)
  | (.error e, s) => h e s

/-- the outcome of a call on another object, seen from `self`: the value together with that object afterwards -/
def Res.detach {σ τ ε α : Type} (r : Res τ ε α) (s : σ) : Res σ ε (α × τ) :=
  match r with
  | (.ok a, o) => (.ok (a, o), s)
  | (.error e, _) => (.error e, s)
@[simp] theorem Res.detach_ok {σ τ ε α : Type} (a : α) (o : τ) (s : σ) :
    Res.detach ((Except.ok a : Except ε α), o) s = (.ok (a, o), s) := rfl
@[simp] theorem Res.detach_error {σ τ ε α : Type} (e : ε) (o : τ) (s : σ) :
    Res.detach ((Except.error e : Except ε α), o) s = (.error e, s) := rfl

@[simp] theorem Res.andThen_ok {σ ε α β : Type} (a : α) (s : σ) (k : α → σ → Res σ ε β) :
    Res.andThen (Except.ok a, s) k = k a s := rfl
@[simp] theorem Res.andThen_error {σ ε α β : Type} (e : ε) (s : σ) (k : α → σ → Res σ ε β) :
    Res.andThen ((Except.error e : Except ε α), s) k = (.error e, s) := rfl
@[simp] theorem Res.andThen_assoc {σ ε α β γ : Type} (r : Res σ ε α) (k : α → σ → Res σ ε β) (k' : β → σ → Res σ ε γ) :
    (r.andThen k).andThen k' = r.andThen fun a s => (k a s).andThen k' := by
  rcases r with ⟨_ | _, _⟩ <;> rfl
@[simp] theorem Res.orElse_ok {σ ε α : Type} (a : α) (s : σ) (h : ε → σ → Res σ ε α) :
    Res.orElse (Except.ok a, s) h = (.ok a, s) := rfl
@[simp] theorem Res.orElse_error {σ ε α : Type} (e : ε) (s : σ) (h : ε → σ → Res σ ε α) :
    Res.orElse ((Except.error e : Except ε α), s) h = h e s := rfl

namespace SM
variable {σ τ ε α β : Type}

@[inline] def run (x : SM σ ε α) (s : σ) : Res σ ε α := x s
@[inline] protected def pure (a : α) : SM σ ε α := fun s => (.ok a, s)
@[inline] protected def bind (x : SM σ ε α) (f : α → SM σ ε β) : SM σ ε β := fun s => Res.andThen (x s) fun a s' => f a s'

instance : Monad (SM σ ε) where
  pure := SM.pure
  bind := SM.bind

/-- `self` -/
@[inline] def get : SM σ ε σ := fun s => (.ok s, s)
/-- `self._x = v` -/
@[inline] def modify (f : σ → σ) : SM σ ε Unit := fun s => (.ok (), f s)
/-- `raise e` -/
@[inline] def throw (e : ε) : SM σ ε α := fun s => (.error e, s)
/-- `try: x  except … as ex: h ex` (the handler decides by a `match` which exceptions it re-raises unchanged) -/
@[inline] def tryCatch (x : SM σ ε α) (h : ε → SM σ ε α) : SM σ ε α := fun s => Res.orElse (x s) fun e s' => h e s'
/-- the outcome of a computation that has no access to the object -/
@[inline] def lift (x : Except ε α) : SM σ ε α := fun s => (x, s)
/-- a method of the object stored in an attribute -/
@[inline] def zoom (get : σ → τ) (set : σ → τ → σ) (x : SM τ ε α) : SM σ ε α := fun s =>
  let r := x (get s)
  (r.1, set s r.2)
/-- a method of an object held in a local variable: the result and the object afterwards; `self` is untouched.  (The
    translator uses it only where the exception, if any, leaves the enclosing method anyway.) -/
@[inline] def onObj (o : τ) (x : SM τ ε α) : SM σ ε (α × τ) := fun s => Res.detach (x o) s
/-- `for x in l: body x` -/
def forEach : List β → (β → SM σ ε Unit) → SM σ ε Unit
  | [], _ => SM.pure ()
  | x :: xs, body => SM.bind (body x) fun _ => forEach xs body

/-! what `simp` rewrites generated code with: one equation per combinator, applied to a state -/
@[simp] theorem run_pure (a : α) (s : σ) : (pure a : SM σ ε α).run s = (.ok a, s) := rfl
@[simp] theorem run_bind (x : SM σ ε α) (f : α → SM σ ε β) (s : σ) :
    (x >>= f).run s = Res.andThen (x.run s) fun a s' => (f a).run s' := rfl
@[simp] theorem run_get (s : σ) : (get : SM σ ε σ).run s = (.ok s, s) := rfl
@[simp] theorem run_modify (f : σ → σ) (s : σ) : (modify f : SM σ ε Unit).run s = (.ok (), f s) := rfl
@[simp] theorem run_throw (e : ε) (s : σ) : (throw e : SM σ ε α).run s = (.error e, s) := rfl
@[simp] theorem run_tryCatch (x : SM σ ε α) (h : ε → SM σ ε α) (s : σ) :
    (tryCatch x h).run s = Res.orElse (x.run s) fun e s' => (h e).run s' := rfl
@[simp] theorem run_lift (x : Except ε α) (s : σ) : (lift x : SM σ ε α).run s = (x, s) := rfl
@[simp] theorem run_zoom (g : σ → τ) (st : σ → τ → σ) (x : SM τ ε α) (s : σ) :
    (zoom g st x).run s = ((x.run (g s)).1, st s (x.run (g s)).2) := rfl
@[simp] theorem run_onObj (o : τ) (x : SM τ ε α) (s : σ) : (onObj o x : SM σ ε (α × τ)).run s = Res.detach (x.run o) s := rfl
@[simp] theorem run_forEach_nil (body : β → SM σ ε Unit) (s : σ) : (forEach [] body).run s = (.ok (), s) := rfl
@[simp] theorem run_forEach_cons (x : β) (xs : List β) (body : β → SM σ ε Unit) (s : σ) :
    (forEach (x :: xs) body).run s = Res.andThen ((body x).run s) fun _ s' => (forEach xs body).run s' := by
  rw [forEach]; rfl
theorem run_ite (c : Prop) [Decidable c] (x y : SM σ ε α) (s : σ) :
    (if c then x else y).run s = if c then x.run s else y.run s := by
  split <;> rfl

end SM

/-- `assert b` inside a method -/
@[inline] def SM.assert {σ E : Type} (b : Bool) : SM σ (Exc E) Unit :=
  if b then SM.pure () else SM.throw (.py .assertion)

@[simp] theorem SM.run_assert_true {σ E : Type} (s : σ) : (SM.assert true : SM σ (Exc E) Unit).run s = (.ok (), s) := rfl
@[simp] theorem SM.run_assert_false {σ E : Type} (s : σ) :
    (SM.assert false : SM σ (Exc E) Unit).run s = (.error (.py .assertion), s) := rfl

/-- a method of `self._xs[-1]` (`IndexError` when the list is empty) -/
@[inline] def SM.zoomLast {σ τ E α : Type} (get : σ → List τ) (set : σ → List τ → σ) (x : SM τ (Exc E) α) : SM σ (Exc E) α := fun s =>
  match (get s).getLast? with
  | none => (.error (.py (.other "IndexError")), s)
  | some t =>
    let r := x t
    (r.1, set s ((get s).dropLast ++ [r.2]))

/-- on a non-empty list: the method runs on the last element, which is replaced by the object afterwards -/
theorem SM.run_zoomLast_concat {σ τ E α : Type} (g : σ → List τ) (st : σ → List τ → σ) (x : SM τ (Exc E) α) (s : σ)
    (l : List τ) (t : τ) (h : g s = l ++ [t]) :
    (SM.zoomLast g st x).run s = ((x.run t).1, st s (l ++ [(x.run t).2])) := by
  show (match (g s).getLast? with
    | none => (Except.error (Exc.py (.other "IndexError")), s)
    | some t => ((x t).1, st s ((g s).dropLast ++ [(x t).2]))) = _
  rw [h]; simp [SM.run]

/-- `xs[-1]` as a value -/
def last {E α : Type} (l : List α) : Except (Exc E) α :=
  match l.getLast? with
  | some x => .ok x
  | none => .error (.py (.other "IndexError"))

/-- the value of an optional that the code uses as if it were not `None` (`AttributeError` otherwise) -/
def unwrap {E α : Type} : Option α → Except (Exc E) α
  | some x => .ok x
  | none => .error (.py (.other "AttributeError"))

/-- `n or None` for an int -/
def intOrNone (n : Nat) : Option Nat := if n = 0 then none else some n
/-- truth value of `Optional[int]` -/
def truthyOptInt : Option Nat → Bool
  | some n => n != 0
  | none => false
/-- `s.startswith(p)` -/
def strStartsWith (s p : Str) : Bool := p.isPrefixOf s
/-- `s.count(c)` for a one-character `c` -/
def strCountChar (s : Str) (c : Char) : Nat := s.count c

/-- what the translated code can see of an expression value (`_expression.Any`): the outcome of
    `isinstance(v, _expression.Boolean)` / `isinstance(v, _expression.Rational)` and `Boolean.native_value` -/
inductive ExprView where
  | boolean (b : Bool)
  | rational
  | other
  deriving Repr, DecidableEq, Inhabited

/-- the view of `value: Any | None` (`None` is neither a `Boolean` nor a `Rational`) -/
def optView {V : Type} (view : V → ExprView) : Option V → ExprView
  | some v => view v
  | none => .other
/-- `str(v if v is not None else "")` -/
def strOfOpt {V : Type} (str : V → Str) : Option V → Str
  | some v => str v
  | none => []

def ExprView.isBoolean : ExprView → Bool
  | .boolean _ => true
  | _ => false
def ExprView.isRational : ExprView → Bool
  | .rational => true
  | _ => false
/-- `v.native_value` where the code treats it as a `bool` -/
def ExprView.nativeBool {E : Type} : ExprView → Except (Exc E) Bool
  | .boolean b => .ok b
  | _ => .error (.py .typeError)

end Py
