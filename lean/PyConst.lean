import PyLib
/-!
  PyConst: the Lean meaning of the Python fragment that `tools/py2lean_const.py` translates (the constant compliance rules:
  `Constant.__init__` of `pydsdl/_serializable/_attribute.py`, the constructors and `inclusive_value_range` of the primitive types of
  `pydsdl/_serializable/_primitive.py`, `Rational` / `String` of `pydsdl/_expression/_primitive.py`).  No Mathlib; the only import is
  `PyLib` (the exception monad `Py.M`).

  * `int` is `Int` here (exact, unbounded): `//` is floor division, `<<` and `**` fail on a negative right operand instead of
    producing what the translation cannot express (`int ** negative` is a `float` in Python).
  * `fractions.Fraction` is core `Rat` (normalised numerator / denominator pairs: exact, no rounding anywhere).  `Fraction ** Fraction`
    is exact when the exponent is integral (`Fraction.__pow__`); otherwise Python answers with a `float`, and `fracPow` *fails*.
  * a `str` is the list of its code points (a Python `str` may hold lone surrogates), `bytes` a list of naturals below 256.
  * objects: an expression value (`Value`) is its class and payload; an object of a class of `_primitive.py` (`Ty.prim`) is its class
    (`PrimCls`) and the attributes the constructors assign (`Obj`, `none` = not assigned: reading it is an `AttributeError`); every other
    serializable type is `Ty.other` (its class name).  `isinstance` is decided by the method resolution order, which the translator reads
    from the `class` statements of the sources.
-/
namespace Py

/-! ## Integers and fractions -/

/-- `a // b` on ints (floor division) -/
def intFloordiv (a b : Int) : M Int := if b = 0 then throw .zeroDivision else pure (Int.fdiv a b)
/-- `a << n` on ints (`ValueError: negative shift count`) -/
def intShl (a n : Int) : M Int := if n < 0 then throw .valueError else pure (a * 2 ^ n.toNat)
/-- `a ** n` on ints; a negative exponent yields a `float` in Python: outside the fragment, an error of the translation -/
def intPow (a n : Int) : M Int := if n < 0 then throw (.other "float result") else pure (a ^ n.toNat)
/-- `Fraction.__pow__(a, b)`: exact for an integral exponent (`0 ** negative` is a `ZeroDivisionError`); a non-integral exponent yields
    a `float` in Python: outside the fragment, an error of the translation -/
def fracPow (a b : Rat) : M Rat :=
  if b.den = 1 then
    (if 0 ≤ b.num then pure (a ^ b.num.toNat)
     else if a = 0 then throw .zeroDivision
     else pure ((a⁻¹) ^ (-b.num).toNat))
  else throw (.other "float result")
/-- `a % b` on ints (floored: the sign of the divisor) -/
def intMod (a b : Int) : M Int := if b = 0 then throw .zeroDivision else pure (Int.fmod a b)
/-- `a >> n` on ints (arithmetic shift; `ValueError: negative shift count`) -/
def intShr (a n : Int) : M Int := if n < 0 then throw .valueError else pure (a >>> n.toNat)
/-- `a & b` on ints: two's complement of unbounded width (`-(k+1)` is the complement of `k`) -/
def intAnd : Int → Int → Int
  | .ofNat m, .ofNat n => ((m &&& n : Nat) : Int)
  | .ofNat m, .negSucc n => ((Nat.bitwise (fun x y => x && !y) m n : Nat) : Int)
  | .negSucc m, .ofNat n => ((Nat.bitwise (fun x y => !x && y) m n : Nat) : Int)
  | .negSucc m, .negSucc n => .negSucc (m ||| n)
/-- `a | b` on ints -/
def intOr : Int → Int → Int
  | .ofNat m, .ofNat n => ((m ||| n : Nat) : Int)
  | .ofNat m, .negSucc n => .negSucc (Nat.bitwise (fun x y => !x && y) m n)
  | .negSucc m, .ofNat n => .negSucc (Nat.bitwise (fun x y => x && !y) m n)
  | .negSucc m, .negSucc n => .negSucc (m &&& n)
/-- `a ^ b` on ints -/
def intXor : Int → Int → Int
  | .ofNat m, .ofNat n => ((m ^^^ n : Nat) : Int)
  | .ofNat m, .negSucc n => .negSucc (m ^^^ n)
  | .negSucc m, .ofNat n => .negSucc (m ^^^ n)
  | .negSucc m, .negSucc n => ((m ^^^ n : Nat) : Int)
/-- `~a` on ints -/
def intInvert (a : Int) : Int := -a - 1
/-- `q.denominator` of a `Fraction` -/
def fracDenominator (q : Rat) : Int := (q.den : Int)
/-- `q.numerator` of a `Fraction` -/
def fracNumerator (q : Rat) : Int := q.num

/-- `d[k]` on a dict display with int keys (later entries win; `KeyError` when absent) -/
def dictIndex {α : Type} (d : List (Int × α)) (k : Int) : M α :=
  match d.reverse.find? (fun e => e.1 == k) with
  | some e => pure e.2
  | none => throw .keyError

/- `try: body  except <class>: handler` is `Py.tryExcept` of PyLib -/

def Err.isKeyError : Err → Bool
  | .keyError => true
  | _ => false

/-! ## Strings and bytes -/

/-- the UTF-8 encoding of one code point, surrogates included (`errors="surrogatepass"`) -/
def utf8Encode1 (c : Nat) : List Nat :=
  if c < 0x80 then [c]
  else if c < 0x800 then [0xC0 + c / 0x40, 0x80 + c % 0x40]
  else if c < 0x10000 then [0xE0 + c / 0x1000, 0x80 + c / 0x40 % 0x40, 0x80 + c % 0x40]
  else [0xF0 + c / 0x40000, 0x80 + c / 0x1000 % 0x40, 0x80 + c / 0x40 % 0x40, 0x80 + c % 0x40]
/-- `s.encode("utf8", errors="surrogatepass")`: never raises -/
def encodeUtf8Surrogatepass (s : List Nat) : List Nat := (s.map utf8Encode1).flatten
/-- `s.encode("utf8")`: a lone surrogate is a `UnicodeEncodeError` -/
def encodeUtf8Strict (s : List Nat) : M (List Nat) :=
  if s.any (fun c => decide (0xD800 ≤ c ∧ c ≤ 0xDFFF)) then throw (.other "UnicodeEncodeError") else pure (encodeUtf8Surrogatepass s)
/-- `ord(b)` of a `bytes` object (`TypeError` unless its length is one) -/
def ordBytes : List Nat → M Int
  | [b] => pure (b : Int)
  | _ => throw .typeError

/-! ## Expression values (`pydsdl/_expression`) -/

/-- the concrete classes an initialiser value can have; a serializable type is an `Any` too -/
inductive ValCls where
  | Boolean | Rational | String | Set | SerializableType
  deriving DecidableEq, Repr

inductive Value where
  | Boolean (value : Bool)
  | Rational (value : Rat)
  | String (value : List Nat)
  | Set
  | SerializableType
  deriving DecidableEq, Repr, Inhabited

def Value.cls : Value → ValCls
  | .Boolean _ => .Boolean
  | .Rational _ => .Rational
  | .String _ => .String
  | .Set => .Set
  | .SerializableType => .SerializableType

/-- `isinstance(v, <class named c>)` -/
def Value.isinstance (mro : ValCls → List _root_.String) (v : Value) (c : _root_.String) : Bool := (mro v.cls).contains c

/-- the payload of a value whose class the code has established by `isinstance`; a wrong class is an error of the translation -/
def Value.asRational : Value → M Rat
  | .Rational q => pure q
  | _ => throw (.other "narrowing: not a Rational")
def Value.asString : Value → M (List Nat)
  | .String s => pure s
  | _ => throw (.other "narrowing: not a String")
def Value.asBoolean : Value → M Bool
  | .Boolean b => pure b
  | _ => throw (.other "narrowing: not a Boolean")

/-! ## Objects of the classes of `_serializable/_primitive.py` -/

inductive CastMode where
  | SATURATED | TRUNCATED
  deriving DecidableEq, Repr, Inhabited

inductive PrimCls where
  | BooleanType | UnsignedIntegerType | ByteType | UTF8Type | SignedIntegerType | FloatType
  deriving DecidableEq, Repr

/-- the attributes assigned by the constructors (`self._bit_length`, `self._cast_mode`, `self._magnitude`) -/
structure Obj where
  bit_length : Option Int := none
  cast_mode : Option CastMode := none
  magnitude : Option Rat := none
  deriving DecidableEq, Repr, Inhabited

inductive Ty where
  | prim (cls : PrimCls) (self : Obj)
  /-- a serializable type of a class that is not defined in `_primitive.py` (void, arrays, composites) -/
  | other (cls : String)
  deriving DecidableEq, Repr, Inhabited

/-- `isinstance(t, <class named c>)` for a class `c` of `_primitive.py` -/
def Ty.isinstance (mro : PrimCls → List String) (t : Ty) (c : String) : Bool :=
  match t with
  | .prim cls _ => (mro cls).contains c
  | .other _ => false

/-- reading an instance attribute (`AttributeError` when the constructors did not assign it) -/
def attr {α : Type} (a : Option α) : M α :=
  match a with
  | some x => pure x
  | none => throw (.other "AttributeError")

end Py
