import Proofs.NamespaceBasic
import Model.RootInfer
/-! Lemmas about the root-inference model (`Model/RootInfer.lean`) for C15: lexical normalisation, physical walks,
    and what each of the inferences 2, 3, 4 returns under the side conditions of the designation theorems. -/
namespace RootInfer

/-! ## normalisation -/

theorem norm_append (acc xs ys : List String) : norm acc (xs ++ ys) = norm (norm acc xs) ys := by
  simp [norm, List.foldl_append]

theorem norm_cons (acc : List String) (c : String) (cs : List String) : norm acc (c :: cs) = norm (normStep acc c) cs := rfl

theorem normStep_ne {acc : List String} {c : String} (h : c ≠ "..") : normStep acc c = acc ++ [c] := by
  simp [normStep, h]

/-- without `..` nothing is cancelled -/
theorem norm_noDD {xs : List String} (h : ".." ∉ xs) (acc : List String) : norm acc xs = acc ++ xs := by
  induction xs generalizing acc with
  | nil => simp [norm]
  | cons c cs ih =>
    have hc : c ≠ ".." := fun e => h (by simp [e])
    have hcs : ".." ∉ cs := fun e => h (by simp [e])
    rw [norm_cons, normStep_ne hc, ih hcs]; simp

/-- a normalised path contains no `..` -/
theorem noDD_norm {acc : List String} (hacc : ".." ∉ acc) (xs : List String) : ".." ∉ norm acc xs := by
  induction xs generalizing acc with
  | nil => simpa [norm] using hacc
  | cons c cs ih =>
    rw [norm_cons]
    apply ih
    unfold normStep
    split
    · exact fun h => hacc ((List.dropLast_sublist _).mem h)
    · rename_i hc
      intro h
      rcases List.mem_append.1 h with h | h
      · exact hacc h
      · simp at h; exact hc h.symm

theorem noDD_resolve {cwd : AbsPath} (hcwd : ".." ∉ cwd) (p : Path) : ".." ∉ resolve cwd p := by
  unfold resolve
  split
  · exact noDD_norm (by simp) _
  · exact noDD_norm hcwd _

/-- resolving an already resolved path changes nothing -/
theorem resolve_abs_of_noDD {l : List String} (h : ".." ∉ l) (cwd : AbsPath) : resolve cwd ⟨true, l⟩ = l := by
  simp [resolve, norm_noDD h]

theorem resolve_noDD {a : Bool} {l : List String} (h : ".." ∉ l) (cwd : AbsPath) :
    resolve cwd ⟨a, l⟩ = (if a then [] else cwd) ++ l := by
  simp only [resolve, norm_noDD h]

theorem resolve_rel_noDD {l : List String} (h : ".." ∉ l) (cwd : AbsPath) : resolve cwd ⟨false, l⟩ = cwd ++ l := by
  rw [resolve_noDD h]; rfl

theorem isPrefixOf_iff {a b : List String} : a.isPrefixOf b = true ↔ a <+: b := List.isPrefixOf_iff_prefix

/-- the lexical ("as-is") match implies the match of the resolved paths -/
theorem lex_prefix {cwd : AbsPath} {r t : Path} (hg : lexGuard r t = true) (hr : t.relativeTo r = true) :
    resolve cwd r <+: resolve cwd t := by
  simp only [lexGuard, Bool.and_eq_true, Bool.not_eq_true', List.contains_eq_mem, decide_eq_false_iff_not] at hg
  obtain ⟨⟨_, h1⟩, h2⟩ := hg
  simp only [Path.relativeTo, Bool.and_eq_true, beq_iff_eq] at hr
  obtain ⟨hab, hp⟩ := hr
  have hp := isPrefixOf_iff.1 hp
  unfold resolve
  rw [norm_noDD h1, norm_noDD h2, hab]
  exact (List.prefix_append_right_inj _).2 hp

/-! ## the file system -/

/-- what every file system satisfies: whatever has an entry is a directory, a directory exists -/
structure FS.WF (fs : FS) : Prop where
  parent : ∀ (p : AbsPath) (c : String), fs.has (p ++ [c]) = true → fs.isDir p = true
  dirHas : ∀ p : AbsPath, fs.isDir p = true → fs.has p = true

theorem FS.WF.isDir_prefix {fs : FS} (w : fs.WF) (p q : AbsPath) (hq : q ≠ []) (h : fs.has (p ++ q) = true) :
    fs.isDir p = true := by
  generalize hk : q.length = k
  induction k generalizing q with
  | zero => exact absurd (List.length_eq_zero_iff.1 hk) hq
  | succ k ih =>
    obtain ⟨q', c, rfl⟩ : ∃ q' c, q = q' ++ [c] := ⟨_, _, (List.dropLast_concat_getLast hq).symm⟩
    have h1 : fs.isDir (p ++ q') = true := w.parent (p ++ q') c (by simpa using h)
    by_cases hq' : q' = []
    · simpa [hq'] using h1
    · exact ih q' hq' (w.dirHas _ h1) (by simpa using hk)

/-- a path without `..` all of whose components exist is found by the physical walk -/
theorem walk_noDD {fs : FS} (w : fs.WF) {cs : List String} (hcs : ".." ∉ cs) (cur : AbsPath)
    (h : fs.has (cur ++ cs) = true) : walk fs cur cs = true := by
  induction cs generalizing cur with
  | nil => simpa [walk] using h
  | cons c cs ih =>
    have hc : c ≠ ".." := fun e => hcs (by simp [e])
    have hcs' : ".." ∉ cs := fun e => hcs (by simp [e])
    simp only [walk, Bool.and_eq_true]
    refine ⟨w.isDir_prefix cur (c :: cs) (by simp) h, ?_⟩
    rw [normStep_ne hc]
    exact ih hcs' _ (by simpa using h)

/-- what the physical walk finds exists at the lexically normalised place -/
theorem walk_has {fs : FS} {cs : List String} {cur : AbsPath} (h : walk fs cur cs = true) : fs.has (norm cur cs) = true := by
  induction cs generalizing cur with
  | nil => simpa [walk, norm] using h
  | cons c cs ih =>
    simp only [walk, Bool.and_eq_true] at h
    rw [norm_cons]
    exact ih h.2

theorem physExists_has {fs : FS} {cwd : AbsPath} {p : Path} (h : physExists fs cwd p = true) : fs.has (resolve cwd p) = true :=
  walk_has h

/-- the decidable well-formedness check of a file system given by lists -/
def listsOk (dirs files : List AbsPath) : Bool := (dirs ++ files).all fun x => x.isEmpty || dirs.contains x.dropLast

theorem FS.ofLists_WF {dirs files : List AbsPath} (h : listsOk dirs files = true) : (FS.ofLists dirs files).WF := by
  simp only [listsOk, List.all_eq_true, Bool.or_eq_true, List.isEmpty_iff, List.contains_eq_mem, decide_eq_true_eq] at h
  constructor
  · intro p c hp
    simp only [FS.ofLists, Bool.or_eq_true, List.contains_eq_mem, decide_eq_true_eq] at hp ⊢
    have := h (p ++ [c]) (by simpa using hp)
    simpa using this
  · intro p hp
    simp only [FS.ofLists, Bool.or_eq_true, List.contains_eq_mem, decide_eq_true_eq] at hp ⊢
    exact Or.inl hp

/-! ## what `from_first_in` does once the root is known -/

section Finish
variable {fs : FS} {cwd R F : AbsPath} {t root : Path}

/-- the target, read relative to the working directory (or absolute), is the file -/
theorem finish_here (hroot : resolve cwd root = R) (ht : resolve cwd t = F) (hF : fs.has F = true) (hRF : R <+: F)
    (hdot : Ns.hasDot (R.getLast?.getD "") = false) :
    construct fs cwd (anchorTarget fs cwd t root) root = .ok (R, F) := by
  have hp : R.isPrefixOf F = true := isPrefixOf_iff.2 hRF
  have ha : anchorTarget fs cwd t root = F := by
    unfold anchorTarget
    split
    · exact ht
    · simp [hroot, ht, hp, hF]
  simp [construct, ha, hroot, hF, hdot, hp]

/-- the target does not exist in the working directory and is re-anchored at the parent of the root -/
theorem finish_anchored (hroot : resolve cwd root = R) (hrel : t.abs = false) (hnot : fs.has (resolve cwd t) = false)
    (hj : resolve cwd (root.parent.join t) = F) (hF : fs.has F = true) (hRF : R <+: F)
    (hdot : Ns.hasDot (R.getLast?.getD "") = false) :
    construct fs cwd (anchorTarget fs cwd t root) root = .ok (R, F) := by
  have hp : R.isPrefixOf F = true := isPrefixOf_iff.2 hRF
  have ha : anchorTarget fs cwd t root = F := by
    simp [anchorTarget, hrel, hnot, hj]
  simp [construct, ha, hroot, hF, hdot, hp]

end Finish

/-! ## INFERENCE 2 -/

/-- For a target that is found as given: if some listed root resolves to `R`, and every listed root that resolves to a
    directory above the file resolves to `R`, INFERENCE 2 returns a root that resolves to `R` (as given, or resolved). -/
theorem inference2_resolved {cwd R F : AbsPath} {t : Path} (hcwd : ".." ∉ cwd) (ht : resolve cwd t = F)
    (hRF : R <+: F) (roots : List Path)
    (hmem : ∃ r ∈ roots, resolve cwd r = R)
    (honly : ∀ r ∈ roots, resolve cwd r <+: F → resolve cwd r = R) :
    ∃ r', inference2 true cwd t roots = some r' ∧ resolve cwd r' = R := by
  induction roots with
  | nil => obtain ⟨r, hr, _⟩ := hmem; cases hr
  | cons r rs ih =>
    unfold inference2
    simp only [Bool.true_and]
    by_cases hlex : (lexGuard r t && t.relativeTo r) = true
    · rw [if_pos hlex]
      simp only [Bool.and_eq_true] at hlex
      have := lex_prefix (cwd := cwd) hlex.1 hlex.2
      rw [ht] at this
      exact ⟨r, rfl, honly r (by simp) this⟩
    · rw [if_neg hlex]
      by_cases hres : (resolve cwd r).isPrefixOf (resolve cwd t) = true
      · rw [if_pos hres]
        refine ⟨_, rfl, ?_⟩
        rw [resolve_abs_of_noDD (noDD_resolve hcwd r)]
        exact honly r (by simp) (by rw [← ht]; exact isPrefixOf_iff.1 hres)
      · rw [if_neg hres]
        apply ih
        · obtain ⟨r0, hr0, e⟩ := hmem
          rcases List.mem_cons.1 hr0 with rfl | h
          · exfalso; apply hres; rw [e, ht]; exact isPrefixOf_iff.2 hRF
          · exact ⟨r0, h, e⟩
        · exact fun r' hr' => honly r' (List.mem_cons_of_mem _ hr')

/-- a target that is not found as given never returns from INFERENCE 2 -/
theorem inference2_not_found (cwd : AbsPath) (t : Path) (roots : List Path) : inference2 false cwd t roots = none := by
  induction roots with
  | nil => rfl
  | cons r rs ih => simp [inference2, ih]

/-- INFERENCE 2 finds nothing when no listed root resolves to a directory above the place the target denotes (the lexical
    match implies the resolved one). -/
theorem inference2_none {cwd : AbsPath} {t : Path} (found : Bool) (roots : List Path)
    (hres : ∀ r ∈ roots, ¬ resolve cwd r <+: resolve cwd t) : inference2 found cwd t roots = none := by
  induction roots with
  | nil => rfl
  | cons r rs ih =>
    have h := hres r (by simp)
    unfold inference2
    rw [if_neg, if_neg]
    · exact ih fun r' hr' => hres r' (List.mem_cons_of_mem _ hr')
    · simp only [Bool.and_eq_true, not_and]
      exact fun _ hp => h (isPrefixOf_iff.1 hp)
    · simp only [Bool.and_eq_true, not_and]
      exact fun _ hg hr => h (lex_prefix hg hr)

/-! ## INFERENCE 3 -/

theorem pyParts_getLast {p : Path} (h : p.parts ≠ []) : p.pyParts.getLast? = p.parts.getLast? := by
  unfold Path.pyParts
  split
  · cases hp : p.parts with
    | nil => exact absurd hp h
    | cons c cs => simp
  · rfl

section Weld
variable {fs : FS} {cwd Rp : AbsPath} {n : String} {rest : List String}

/-- INFERENCE 3 with a listed root path (no `..`, not `.`) that resolves to `Rp/n`, when every listed root named `n` under
    whose parent the relative target `n/rest` exists resolves to `Rp/n`: the returned root resolves to `Rp/n` and the target
    welded onto its parent is the file. -/
theorem inference3_welded (w : fs.WF) (hn : n ≠ "..") (hrest : ".." ∉ rest)
    (hF : fs.has (Rp ++ n :: rest) = true) (roots : List Path)
    (hone : ∀ r ∈ roots, r.pyParts.getLast? = some n → fs.has (resolve cwd (r.parent.join ⟨false, n :: rest⟩)) = true →
      resolve cwd r = Rp ++ [n])
    (hmem : ∃ r ∈ roots, r.parts ≠ [] ∧ ".." ∉ r.parts ∧ resolve cwd r = Rp ++ [n]) :
    ∃ p, inference3 fs cwd ⟨false, n :: rest⟩ roots = .ok (some p) ∧ resolve cwd p = Rp ++ [n] ∧
      resolve cwd (p.parent.join ⟨false, n :: rest⟩) = Rp ++ n :: rest := by
  have hnr : ".." ∉ n :: rest := by
    intro hm; rcases List.mem_cons.1 hm with e | e
    · exact hn e.symm
    · exact hrest e
  -- whatever root resolves to `Rp/n`: welding the target onto its parent gives the file
  have hjoin : ∀ p : Path, resolve cwd p = Rp ++ [n] → p.pyParts.getLast? = some n → p.parts ≠ [] →
      resolve cwd (p.parent.join ⟨false, n :: rest⟩) = Rp ++ n :: rest := by
    intro p hp hl hne
    obtain ⟨q, c, hqc⟩ : ∃ q c, p.parts = q ++ [c] := ⟨_, _, (List.dropLast_concat_getLast hne).symm⟩
    rw [pyParts_getLast hne, hqc] at hl
    simp at hl
    subst hl
    unfold resolve at hp ⊢
    simp only [Path.parent, Path.join, Bool.false_eq_true, if_false, hqc, List.dropLast_concat] at hp ⊢
    rw [norm_append] at hp ⊢
    simp only [norm, List.foldl_cons, List.foldl_nil, normStep_ne hn] at hp
    have hX := List.append_cancel_right hp
    have := norm_noDD hnr (List.foldl normStep (if p.abs = true then [] else cwd) q)
    simp only [norm] at this hX ⊢
    rw [this, hX]
  induction roots with
  | nil => obtain ⟨r, hr, _⟩ := hmem; cases hr
  | cons r rs ih =>
    have ih := ih (fun r' hr' => hone r' (List.mem_cons_of_mem _ hr'))
    unfold inference3
    split
    · rename_i hemp
      apply ih
      obtain ⟨r0, hr0, h1, h2, h3⟩ := hmem
      rcases List.mem_cons.1 hr0 with rfl | h
      · exfalso
        have : r0.pyParts ≠ [] := by
          unfold Path.pyParts; split
          · simp
          · exact h1
        exact this (List.isEmpty_iff.1 hemp)
      · exact ⟨r0, h, h1, h2, h3⟩
    · rename_i hnemp
      simp only
      split
      · rename_i hc
        simp only [Bool.and_eq_true, decide_eq_true_eq] at hc
        have hres := hone r (by simp) hc.1 (physExists_has hc.2)
        have hne : r.parts ≠ [] := by
          intro e
          have : resolve cwd r = (if r.abs then [] else cwd) := by simp [resolve, e, norm]
          have hl := hc.1
          unfold Path.pyParts at hl
          rw [e] at hl
          by_cases ha : r.abs = true
          · -- the root `/`: resolves to `[]`, not to `Rp ++ [n]`
            rw [this, if_pos ha] at hres
            exact absurd hres.symm (by simp)
          · simp [ha] at hl
        exact ⟨r, rfl, hres, hjoin r hres hc.1 hne⟩
      · rename_i hc
        apply ih
        obtain ⟨r0, hr0, h1, h2, h3⟩ := hmem
        rcases List.mem_cons.1 hr0 with rfl | h
        · exfalso
          apply hc
          obtain ⟨q, c, hqc⟩ : ∃ q c, r0.parts = q ++ [c] := ⟨_, _, (List.dropLast_concat_getLast h1).symm⟩
          have h3' := h3
          unfold resolve at h3'
          rw [norm_noDD h2, hqc, ← List.append_assoc] at h3'
          obtain ⟨hb, hcn⟩ := List.append_inj' h3' rfl
          cases hcn
          have hq : ".." ∉ q := fun hm => h2 (by rw [hqc]; exact List.mem_append_left _ hm)
          simp only [Bool.and_eq_true, decide_eq_true_eq]
          refine ⟨by rw [pyParts_getLast h1, hqc]; simp, ?_⟩
          unfold physExists
          simp only [Path.parent, Path.join, Bool.false_eq_true, if_false, hqc, List.dropLast_concat]
          apply walk_noDD w
          · intro hm
            rcases List.mem_append.1 hm with e | e
            · exact hq e
            · exact hnr e
          · rw [← List.append_assoc, hb]; exact hF
        · exact ⟨r0, h, h1, h2, h3⟩

end Weld

/-! ## INFERENCE 4 -/

theorem firstHit_spec {names : List String} {n : String} (hn : n ∈ names) (pre tail acc : List String)
    (hpre : ∀ c ∈ pre, c ∉ names) : firstHit names acc (pre ++ n :: tail) = some (acc ++ pre ++ [n]) := by
  induction pre generalizing acc with
  | nil => simp [firstHit, hn]
  | cons c cs ih =>
    have hc : c ∉ names := hpre c (by simp)
    simp only [List.cons_append, firstHit, List.contains_eq_mem, hc, decide_false, Bool.false_eq_true, if_false]
    rw [ih (acc ++ [c]) fun x hx => hpre x (List.mem_cons_of_mem _ hx)]
    simp

theorem bare_mem_rootNames {roots : List Path} {n : String} (h : (⟨false, [n]⟩ : Path) ∈ roots) (hn : n ≠ "..") :
    n ∈ rootNames roots := by
  unfold rootNames
  exact List.mem_filterMap.2 ⟨_, h, by simp [Path.pyParts, hn]⟩

/-! ## entries -/

theorem entryOf_spec (R sub : List String) (fname : String) (text : Ns.Text) :
    entryOf R (R ++ sub ++ [fname]) text = ⟨R, sub, fname, text⟩ := by
  simp [entryOf, List.append_assoc]

end RootInfer
