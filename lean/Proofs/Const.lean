import Model.Const
import Mathlib.Tactic.NormNum
import Mathlib.Tactic.Ring
import Mathlib.Data.Rat.Defs
import Mathlib.Algebra.Order.Field.Rat
/-! Lemmas about the constant model (value ranges, UTF-8 length of a string initializer). -/
namespace Ex

theorem intRange_eq (n : Nat) (h : 1 ≤ n) : intRange n = (-(2:Int)^(n-1), (2:Int)^(n-1) - 1) := by
  obtain ⟨m, rfl⟩ : ∃ m, n = m + 1 := ⟨n - 1, by omega⟩
  simp only [intRange, Nat.one_shiftLeft, Nat.add_sub_cancel]
  have hp : (1:Int) ≤ 2 ^ m := by exact_mod_cast Nat.one_le_two_pow
  have : (((2 ^ (m+1) : Nat) : Int)) = 2 * 2 ^ m := by push_cast; ring
  rw [this]
  generalize (2:Int)^m = x at hp ⊢
  have : (2 * x - 1) / 2 = x - 1 := by omega
  rw [this]; simp

theorem uintRange_eq (n : Nat) : uintRange n = (0, (2:Int)^n - 1) := by
  simp [uintRange, Nat.one_shiftLeft]

theorem floatMagnitude_16 : floatMagnitude 16 = 65504 := by norm_num [floatMagnitude]
theorem floatMagnitude_32 : floatMagnitude 32 = ((2:Rat)^24 - 1) * 2^104 := by norm_num [floatMagnitude]
theorem floatMagnitude_64 : floatMagnitude 64 = ((2:Rat)^53 - 1) * 2^971 := by
  have h : (2:Rat)^(0x3FF : Nat) = 2^971 * 2^52 := by rw [← pow_add]
  simp only [floatMagnitude, h]
  generalize (2:Rat)^971 = x
  norm_num
  ring

theorem isInt'_iff (q : Rat) : Rat.isInt' q = true ↔ ∃ z : Int, q = z := by
  simp only [Rat.isInt', beq_iff_eq]
  constructor
  · intro h; exact ⟨q.num, ((Rat.den_eq_one_iff q).mp h).symm⟩
  · rintro ⟨z, rfl⟩; simp

theorem utf8Len_pos (c : Nat) : 1 ≤ utf8Len c := by
  unfold utf8Len; split <;> [omega; (split <;> [omega; (split <;> omega)])]

theorem utf8Len_eq_one (c : Nat) : utf8Len c = 1 ↔ c < 0x80 := by
  unfold utf8Len; split <;> [simp_all; (split <;> [simp_all; (split <;> simp_all)])]

theorem utf8_sum_eq_one (cs : List Nat) : (cs.map utf8Len).sum = 1 ↔ ∃ c, cs = [c] ∧ c < 0x80 := by
  match cs with
  | [] => simp
  | [c] => simp [utf8Len_eq_one]
  | c :: d :: r =>
    have h1 := utf8Len_pos c
    have h2 := utf8Len_pos d
    have : 0 ≤ (r.map utf8Len).sum := Nat.zero_le _
    simp only [List.map_cons, List.sum_cons]
    constructor
    · intro h; omega
    · rintro ⟨x, hx, _⟩; simp at hx

end Ex
