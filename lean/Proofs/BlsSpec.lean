import Proofs.Sumset
/-!
  The mathematically defined bit length set `den` of an operator tree (the specification side of C01),
  an induction principle for the nested inductive `Op`, and the core exactness lemmas relating the model's
  `modulo`, `expand`, `min`, `max` to `den`.
-/
open scoped Pointwise
namespace Bls

mutual
/-- The set an operator tree denotes: leaves are given sets, padding rounds every element up to a multiple of the
    alignment, concatenation is the element-wise sum over the cartesian product, `k`-repetition the `k`-fold
    multiset sum, range repetition the union of the `j`-fold sums for `j ≤ k`, union the union. -/
def den : Op → Finset ℕ
  | .leaf vs => vs.toFinset
  | .pad c a => (den c).image (padTo a)
  | .cat cs => denSum cs
  | .rep c k => k • den c
  | .rrep c k => (Finset.range (k + 1)).biUnion fun j => j • den c
  | .uni cs => denUnion cs
def denSum : List Op → Finset ℕ
  | [] => {0}
  | c :: cs => den c + denSum cs
def denUnion : List Op → Finset ℕ
  | [] => ∅
  | c :: cs => den c ∪ denUnion cs
end

/-- Induction over operator trees (children of n-ary nodes are covered by `∀ c ∈ cs`). -/
theorem Op.induct {P : Op → Prop}
    (leaf : ∀ vs, P (.leaf vs))
    (pad : ∀ c a, P c → P (.pad c a))
    (cat : ∀ cs, (∀ c ∈ cs, P c) → P (.cat cs))
    (rep : ∀ c k, P c → P (.rep c k))
    (rrep : ∀ c k, P c → P (.rrep c k))
    (uni : ∀ cs, (∀ c ∈ cs, P c) → P (.uni cs)) : ∀ o, P o := by
  intro o
  exact Op.rec (motive_1 := P) (motive_2 := fun cs => ∀ c ∈ cs, P c)
    leaf (fun c a ih => pad c a ih) (fun cs ih => cat cs ih) (fun c k ih => rep c k ih)
    (fun c k ih => rrep c k ih) (fun cs ih => uni cs ih)
    (by intro c hc; cases hc)
    (fun c cs ihc ihcs => by
      intro x hx
      rcases List.mem_cons.mp hx with rfl | hx
      · exact ihc
      · exact ihcs x hx) o

/-! The list helpers of the model are maps. -/

theorem wfs_iff (cs : List Op) : wfs cs = true ↔ ∀ c ∈ cs, c.wf = true := by
  induction cs with
  | nil => simp [wfs]
  | cons c cs ih => simp [wfs, ih]

theorem modulos_eq (cs : List Op) (d : ℕ) : modulos cs d = cs.map (fun c => c.modulo d) := by
  induction cs with
  | nil => simp [modulos]
  | cons c cs ih => simp [modulos, ih]

theorem expands_eq (cs : List Op) : expands cs = cs.map (fun c => c.expand) := by
  induction cs with
  | nil => simp [expands]
  | cons c cs ih => simp [expands, ih]

theorem denSum_eq (cs : List Op) : denSum cs = (cs.map den).sum := by
  induction cs with
  | nil => simp [denSum]; rfl
  | cons c cs ih => simp [denSum, ih]

theorem mem_denUnion (cs : List Op) (x : ℕ) : x ∈ denUnion cs ↔ ∃ c ∈ cs, x ∈ den c := by
  induction cs with
  | nil => simp [denUnion]
  | cons c cs ih => simp [denUnion, ih]

theorem assertsOks_iff (cs : List Op) (d : ℕ) : assertsOks cs d = true ↔ ∀ c ∈ cs, c.assertsOk d = true := by
  induction cs with
  | nil => simp [assertsOks]
  | cons c cs ih => simp [assertsOks, ih]

/-! ### The denoted set is never empty -/

theorem sum_nonempty (l : List (Finset ℕ)) (h : ∀ s ∈ l, s.Nonempty) : l.sum.Nonempty := by
  induction l with
  | nil => exact ⟨0, by simp⟩
  | cons s l ih =>
    rw [List.sum_cons]
    exact Finset.Nonempty.add (h s (by simp)) (ih fun t ht => h t (by simp [ht]))

theorem den_nonempty : ∀ o : Op, o.wf = true → (den o).Nonempty := by
  intro o
  induction o using Op.induct with
  | leaf vs =>
    intro h
    simp only [Op.wf, Bool.not_eq_true', List.isEmpty_eq_false_iff] at h
    obtain ⟨x, hx⟩ := List.exists_mem_of_ne_nil vs h
    exact ⟨x, by simpa [den] using hx⟩
  | pad c a ih =>
    intro h
    simp only [Op.wf, Bool.and_eq_true] at h
    simpa [den] using ih h.1
  | cat cs ih =>
    intro h
    simp only [Op.wf, Bool.and_eq_true, wfs_iff] at h
    simp only [den, denSum_eq]
    apply sum_nonempty
    intro s hs
    obtain ⟨c, hc, rfl⟩ := List.mem_map.mp hs
    exact ih c hc (h.2 c hc)
  | rep c k ih =>
    intro h
    simp only [Op.wf] at h
    simpa [den] using (ih h).nsmul
  | rrep c k ih =>
    intro h
    refine ⟨0, ?_⟩
    simp only [den, Finset.mem_biUnion, Finset.mem_range]
    exact ⟨0, by omega, by simp⟩
  | uni cs ih =>
    intro h
    simp only [Op.wf, Bool.and_eq_true, wfs_iff, Bool.not_eq_true', List.isEmpty_eq_false_iff] at h
    obtain ⟨c, hc⟩ := List.exists_mem_of_ne_nil cs h.1
    obtain ⟨x, hx⟩ := ih c hc (h.2 c hc)
    exact ⟨x, (mem_denUnion cs x).mpr ⟨c, hc, hx⟩⟩

/-! ### Numerical expansion is exact -/

theorem toFinset_rangeCwr (s : List ℕ) (K : ℕ) :
    ((List.range (K + 1)).flatMap fun k => (cwr s k).map List.sum).toFinset
      = (Finset.range (K + 1)).biUnion fun j => j • s.toFinset := by
  ext y
  simp only [List.mem_toFinset, List.mem_flatMap, List.mem_range, Finset.mem_biUnion, Finset.mem_range]
  constructor
  · rintro ⟨k, hk, hy⟩
    exact ⟨k, hk, by rw [← toFinset_cwr_sums]; simpa using hy⟩
  · rintro ⟨k, hk, hy⟩
    exact ⟨k, hk, by rw [← toFinset_cwr_sums] at hy; simpa using hy⟩

theorem map_toFinset_sum_congr (cs : List Op) (f : Op → List ℕ) (h : ∀ c ∈ cs, (f c).toFinset = den c) :
    ((cs.map f).map List.toFinset).sum = (cs.map den).sum := by
  induction cs with
  | nil => simp
  | cons c cs ih =>
    simp only [List.map_cons, List.sum_cons]
    rw [h c (by simp), ih fun x hx => h x (by simp [hx])]

theorem expand_exact : ∀ o : Op, (o.expand).toFinset = den o := by
  intro o
  induction o using Op.induct with
  | leaf vs => simp [Op.expand, den]
  | pad c a ih =>
    simp only [Op.expand, den, toFinset_dedup, ← ih]
    ext x; simp
  | cat cs ih =>
    simp only [Op.expand, den, toFinset_dedup, toFinset_product_sums, expands_eq, denSum_eq]
    exact map_toFinset_sum_congr cs _ ih
  | rep c k ih => simp only [Op.expand, cwrSums, den, toFinset_dedup, toFinset_cwr_sums, ih]
  | rrep c k ih => simp only [Op.expand, rangeCwrSums, den, toFinset_dedup, toFinset_rangeCwr, ih]
  | uni cs ih =>
    ext x
    simp only [Op.expand, den, toFinset_dedup, expands_eq, List.mem_toFinset, List.mem_flatten, List.mem_map,
      mem_denUnion]
    constructor
    · rintro ⟨l, ⟨c, hc, rfl⟩, hx⟩
      exact ⟨c, hc, by rw [← ih c hc]; simpa using hx⟩
    · rintro ⟨c, hc, hx⟩
      exact ⟨c.expand, ⟨c, hc, rfl⟩, by rw [← ih c hc] at hx; simpa using hx⟩

theorem expand_nodup : ∀ o : Op, (o.expand).Nodup := by
  intro o
  cases o <;> simp only [Op.expand, cwrSums, rangeCwrSums] <;> exact nodup_dedup _

end Bls
