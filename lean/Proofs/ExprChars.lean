import Proofs.ExprParen
import Proofs.ExprLex
/-!
  Characters → tree: rendering any admissible token list of a tree (any redundant parentheses) with any blanks, lexing the
  characters with the terminals of the grammar and parsing the tokens with the PEG gives the tree back.
-/
set_option linter.unusedSimpArgs false
set_option linter.unusedVariables false
namespace Ex

mutual
/-- every literal and every name of the tree is one terminal of its kind (`Tok.ok`) -/
def Expr.lexOk : Expr → Bool
  | .lit l => (Tok.lit l).ok
  | .ident n => (Tok.id n).ok
  | .setLit es => lexOkList es
  | .un _ x => x.lexOk
  | .bin _ l r => l.lexOk && r.lexOk
  | .attr x n => x.lexOk && (Tok.id n).ok
def lexOkList : List Expr → Bool
  | [] => true
  | e :: es => e.lexOk && lexOkList es
end

theorem sym_ok (s : Sym) : (Tok.sym s).ok = true := by cases s <;> decide

theorem Paren.toks_ok {k : Nat} {e : Expr} {ts : List Tok} (h : Paren k e ts) : e.lexOk = true → ∀ t ∈ ts, t.ok = true := by
  refine Paren.rec (motive_1 := fun k e ts _ => e.lexOk = true → ∀ t ∈ ts, t.ok = true)
    (motive_2 := fun es tcs _ => lexOkList es = true → ∀ t ∈ tcs, t.ok = true)
    ?lit ?ident ?setNil ?setCons ?un ?bin ?attr ?wrap ?nil ?cons h
  case lit => intro k l hl t ht; simp only [List.mem_singleton] at ht; subst ht; simpa [Expr.lexOk] using hl
  case ident => intro k n hl t ht; simp only [List.mem_singleton] at ht; subst ht; simpa [Expr.lexOk] using hl
  case setNil =>
    intro k _ t ht
    simp only [List.mem_cons, List.not_mem_nil, or_false] at ht
    rcases ht with rfl | rfl <;> decide
  case setCons =>
    intro k e es ts tcs _ _ ihe ihes hl t ht
    simp only [Expr.lexOk, lexOkList, Bool.and_eq_true] at hl
    simp only [List.mem_cons, List.mem_append, List.not_mem_nil, or_false] at ht
    rcases ht with rfl | (ht | ht) | rfl
    · decide
    · exact ihe hl.1 t ht
    · exact ihes hl.2 t ht
    · decide
  case un =>
    intro k op x ts _ _ ih hl t ht
    simp only [Expr.lexOk] at hl
    simp only [List.mem_cons] at ht
    rcases ht with rfl | ht
    · exact sym_ok _
    · exact ih hl t ht
  case bin =>
    intro k op l r tl tr _ _ _ ihl ihr hl t ht
    simp only [Expr.lexOk, Bool.and_eq_true] at hl
    simp only [List.mem_append, List.mem_cons] at ht
    rcases ht with ht | rfl | ht
    · exact ihl hl.1 t ht
    · exact sym_ok _
    · exact ihr hl.2 t ht
  case attr =>
    intro k x n ts _ _ ih hl t ht
    simp only [Expr.lexOk, Bool.and_eq_true] at hl
    simp only [List.mem_append, List.mem_cons, List.not_mem_nil, or_false] at ht
    rcases ht with ht | rfl | rfl
    · exact ih hl.1 t ht
    · decide
    · exact hl.2
  case wrap =>
    intro k e ts _ ih hl t ht
    simp only [List.mem_cons, List.mem_append, List.not_mem_nil, or_false] at ht
    rcases ht with rfl | ht | rfl
    · decide
    · exact ih hl t ht
    · decide
  case nil => intro _ t ht; simp at ht
  case cons =>
    intro e es ts tcs _ _ ihe ihes hl t ht
    simp only [lexOkList, Bool.and_eq_true] at hl
    simp only [List.mem_cons, List.mem_append] at ht
    rcases ht with rfl | ht | ht
    · decide
    · exact ihe hl.1 t ht
    · exact ihes hl.2 t ht

/-- **characters → tree**, for every admissible parenthesisation and every spacing -/
theorem parseChars_render {e : Expr} {ts : List Tok} (h : Paren 0 e ts) (hok : e.lexOk = true) (σ : Spacing) :
    parseChars (renderToks σ ts) = some e := by
  simp only [parseChars, lex_render σ ts (h.toks_ok hok), paren_roundtrip h]

end Ex
