import Proofs.ExprLex
import Proofs.ExprLit
/-!
  The integer literals as they are written (`writeDigits`, Proofs/ExprLit.lean) are terminals of the lexer: the text of a
  binary / octal / hexadecimal / decimal literal of the grammar's form, followed by anything that is no name character
  and no `.`, is lexed as `Lit.int` of exactly that text -- the text whose value `decodeInt_prefixed` / `decodeInt_decimal`
  determine.
-/
set_option linter.unusedSimpArgs false
set_option linter.unusedVariables false
namespace Ex

theorem digitChar_bin (d : Nat) (u : Bool) (h : d < 2) : isBinC (digitChar d u) = true := by
  interval_cases d <;> cases u <;> decide
theorem digitChar_oct (d : Nat) (u : Bool) (h : d < 8) : isOctC (digitChar d u) = true := by
  interval_cases d <;> cases u <;> decide
theorem digitChar_hex (d : Nat) (u : Bool) (h : d < 16) : isHexC (digitChar d u) = true := by
  interval_cases d <;> cases u <;> decide
theorem digitChar_dec' (d : Nat) (u : Bool) (h : d < 10) : isDigitC (digitChar d u) = true := by
  interval_cases d <;> cases u <;> decide
theorem digitChar_zero (u : Bool) : isZeroC (digitChar 0 u) = true := by cases u <;> decide
theorem digitChar_nz (d : Nat) (u : Bool) (h : d < 10) (h0 : d ≠ 0) : isNzDigitC (digitChar d u) = true := by
  interval_cases d <;> cases u <;> first | decide | exact absurd rfl h0

theorem scanDigitsTail_written (p : Char → Bool) (ws : List DigitW) (hp : ∀ w ∈ ws, p (digitChar w.d w.upper) = true)
    (R : List Char) (hR : Stop (fun c => p c || c == '_') R) :
    scanDigitsTail p (writeDigits ws ++ R) = (writeDigits ws, R) := by
  induction ws with
  | nil =>
    have := scanDigitsTail_ext p R hR []
    simpa [writeDigits, scanDigitsTail] using this
  | cons w ws ih =>
    have hw := hp w (by simp)
    have ih' := ih (fun x hx => hp x (by simp [hx]))
    cases hus : w.us
    · simp [writeDigits, hus, scanDigitsTail, hw, ih']
    · simp [writeDigits, hus, scanDigitsTail, hw, ih', headIs]

theorem writeDigits_ne_nil (ws : List DigitW) (h : ws ≠ []) : writeDigits ws ≠ [] := by
  cases ws with
  | nil => exact absurd rfl h
  | cons w ws => cases hus : w.us <;> simp [writeDigits, hus]

/-- the real-literal alternatives fail in front of a base letter -/
theorem scanReal_prefixed (c : Char) (r : List Char) (hc : isDigitC c = false) (hu : c ≠ '_') (hd : c ≠ '.')
    (he : c ≠ 'e') (hE : c ≠ 'E') : scanReal ('0' :: c :: r) = none := by
  have h1 : scanDigits isDigitC ('0' :: c :: r) = some (['0'], c :: r) := by
    have : isDigitC '0' = true := by decide
    simp [scanDigits, this, scanDigitsTail, hc, hu]
  have h2 : scanFraction (c :: r) = none := by
    unfold scanFraction; split
    · rename_i heq; simp only [List.cons.injEq] at heq; exact absurd heq.1 hd
    · rfl
  have h3 : scanPoint ('0' :: c :: r) = none := by
    simp only [scanPoint, h1, h2]
    split
    · rename_i heq; simp only [List.cons.injEq] at heq; exact absurd heq.1 hd
    · rfl
  have h4 : scanExponent (c :: r) = none := by simp [scanExponent, he, hE]
  simp [scanReal, scanRealExp, scanMantissa_prefixed c r hc hu hd, h4, h3]

theorem scanPrefixed_other (p : Char → Bool) (lo up c : Char) (r : List Char) (h1 : c ≠ lo) (h2 : c ≠ up) :
    scanPrefixed p lo up ('0' :: c :: r) = none := by
  simp [scanPrefixed, h1, h2]

theorem scanPrefixed_written (p : Char → Bool) (hp' : ∀ c, p c = true → isIdentChar c = true) (lo up c : Char)
    (hc : c = lo ∨ c = up) (ws : List DigitW) (hne : ws ≠ [])
    (hp : ∀ w ∈ ws, p (digitChar w.d w.upper) = true) (R : List Char) (hR : Stop qNum R) :
    scanPrefixed p lo up ('0' :: c :: (writeDigits ws ++ R)) = some ('0' :: c :: writeDigits ws, R) := by
  have hc' : (c == lo || c == up) = true := by simpa using hc
  have hne' : (writeDigits ws).isEmpty = false := by
    have := writeDigits_ne_nil ws hne
    cases h : writeDigits ws with
    | nil => exact absurd h this
    | cons _ _ => rfl
  simp [scanPrefixed, hc', scanDigitsTail_written p ws hp R (stopNum_of p hp' hR), hne']

/-- **prefixed integer literals are terminals**: `0b…`, `0o…`, `0x…` exactly as `C04.literals_prefixed` writes them -/
theorem lexOne_prefixed (radix : Nat) (p : Char) (ws : List DigitW) (hne : ws ≠ [])
    (hp : (radix = 2 ∧ (p = 'b' ∨ p = 'B')) ∨ (radix = 8 ∧ (p = 'o' ∨ p = 'O')) ∨ (radix = 16 ∧ (p = 'x' ∨ p = 'X')))
    (h : ∀ w ∈ ws, w.d < radix) (R : List Char) (hR : Stop qNum R) :
    lexOne ('0' :: p :: writeDigits ws ++ R) = some (.lit (.int (String.ofList ('0' :: p :: writeDigits ws))), R) := by
  have hcons : '0' :: p :: writeDigits ws ++ R = '0' :: p :: (writeDigits ws ++ R) := rfl
  rw [hcons, lexOne_number '0' _ (by decide)]
  have hreal : scanReal ('0' :: p :: (writeDigits ws ++ R)) = none := by
    apply scanReal_prefixed <;>
      (rcases hp with ⟨_, rfl | rfl⟩ | ⟨_, rfl | rfl⟩ | ⟨_, rfl | rfl⟩ <;> decide)
  have hint : scanInt ('0' :: p :: (writeDigits ws ++ R)) = some ('0' :: p :: writeDigits ws, R) := by
    rcases hp with ⟨rfl, hp⟩ | ⟨rfl, hp⟩ | ⟨rfl, hp⟩
    · simp [scanInt, scanPrefixed_written isBinC (fun _ h => isDigitC_ident (isBinC_digit h)) 'b' 'B' p hp ws hne
        (fun w hw => digitChar_bin w.d w.upper (h w hw)) R hR]
    · have hb : scanPrefixed isBinC 'b' 'B' ('0' :: p :: (writeDigits ws ++ R)) = none :=
        scanPrefixed_other _ _ _ _ _ (by rcases hp with rfl | rfl <;> decide) (by rcases hp with rfl | rfl <;> decide)
      simp [scanInt, hb, scanPrefixed_written isOctC (fun _ h => isDigitC_ident (isOctC_digit h)) 'o' 'O' p hp ws hne
        (fun w hw => digitChar_oct w.d w.upper (h w hw)) R hR]
    · have hb : scanPrefixed isBinC 'b' 'B' ('0' :: p :: (writeDigits ws ++ R)) = none :=
        scanPrefixed_other _ _ _ _ _ (by rcases hp with rfl | rfl <;> decide) (by rcases hp with rfl | rfl <;> decide)
      have ho : scanPrefixed isOctC 'o' 'O' ('0' :: p :: (writeDigits ws ++ R)) = none :=
        scanPrefixed_other _ _ _ _ _ (by rcases hp with rfl | rfl <;> decide) (by rcases hp with rfl | rfl <;> decide)
      simp [scanInt, hb, ho, scanPrefixed_written isHexC (fun _ h => isHexC_ident h) 'x' 'X' p hp ws hne
        (fun w hw => digitChar_hex w.d w.upper (h w hw)) R hR]
  simp [lexNumber, hreal, hint]

/-- a digit run followed by no name character and no `.` is no real literal -/
theorem scanReal_digits (s : List Char) (R : List Char) (hR : Stop qNum R)
    (hd : scanDigits isDigitC (s ++ R) = some (s, R)) : scanReal (s ++ R) = none := by
  have hf : scanFraction R = none := by
    have := scanFraction_ext R hR []
    simpa [scanFraction] using this
  have hdot : ∀ r, R ≠ '.' :: r := by
    intro r hr
    subst hr
    exact absurd hR.cons (by decide)
  have hp : scanPoint (s ++ R) = none := by
    simp only [scanPoint, hd, hf]
  have he : scanExponent R = none := by
    have := scanExponent_ext R hR [] (by intro c _ _; simp)
    simpa [scanExponent] using this
  simp [scanReal, scanRealExp, scanMantissa, hp, hd, he]

/-- **decimal integer literals are terminals**: `[1-9](_?[0-9])*` -/
theorem lexOne_decimal (w : DigitW) (ws : List DigitW) (hus : w.us = false) (h0 : w.d ≠ 0)
    (h : ∀ x ∈ w :: ws, x.d < 10) (R : List Char) (hR : Stop qNum R) :
    lexOne (writeDigits (w :: ws) ++ R) = some (.lit (.int (String.ofList (writeDigits (w :: ws)))), R) := by
  have hw := h w (by simp)
  have hws : ∀ x ∈ ws, isDigitC (digitChar x.d x.upper) = true := fun x hx => digitChar_dec' x.d x.upper (h x (by simp [hx]))
  have htxt : writeDigits (w :: ws) = digitChar w.d w.upper :: writeDigits ws := by simp [writeDigits, hus]
  have hdig := digitChar_dec' w.d w.upper hw
  have hnz := digitChar_nz w.d w.upper hw h0
  have hne0 : (digitChar w.d w.upper == '0') = false := by
    cases hz : digitChar w.d w.upper == '0' with
    | false => rfl
    | true =>
      rw [beq_iff_eq] at hz
      have : isNzDigitC '0' = true := hz ▸ hnz
      exact absurd this (by decide)
  have htail := scanDigitsTail_written isDigitC ws hws R (stopDigit hR)
  rw [htxt, List.cons_append, lexOne_number _ _ (by simp [hdig])]
  have hd : scanDigits isDigitC ((digitChar w.d w.upper :: writeDigits ws) ++ R)
      = some (digitChar w.d w.upper :: writeDigits ws, R) := by
    simp [scanDigits, hdig, htail]
  have hreal := scanReal_digits _ R hR hd
  have hfirst : ∀ (q : Char → Bool) (lo up : Char),
      scanPrefixed q lo up (digitChar w.d w.upper :: (writeDigits ws ++ R)) = none := by
    intro q lo up
    unfold scanPrefixed
    split
    · rename_i c r heq
      simp only [List.cons.injEq] at heq
      rw [heq.1] at hne0
      exact absurd hne0 (by decide)
    · rfl
  have hint : scanInt (digitChar w.d w.upper :: (writeDigits ws ++ R)) = some (digitChar w.d w.upper :: writeDigits ws, R) := by
    simp [scanInt, hfirst, scanDecimal, hne0, hnz, htail]
  simp only [List.cons_append] at hreal
  simp [lexNumber, hreal, hint]

/-- … and `(0(_?0)*)+` -/
theorem lexOne_zeros (w : DigitW) (ws : List DigitW) (hus : w.us = false) (h : ∀ x ∈ w :: ws, x.d = 0)
    (R : List Char) (hR : Stop qNum R) :
    lexOne (writeDigits (w :: ws) ++ R) = some (.lit (.int (String.ofList (writeDigits (w :: ws)))), R) := by
  have hw := h w (by simp)
  have htxt : writeDigits (w :: ws) = '0' :: writeDigits ws := by
    have : digitChar 0 w.upper = '0' := by cases w.upper <;> decide
    simp [writeDigits, hus, hw, this]
  have hws0 : ∀ x ∈ ws, isZeroC (digitChar x.d x.upper) = true := fun x hx => by
    rw [h x (by simp [hx])]; exact digitChar_zero _
  have hws : ∀ x ∈ ws, isDigitC (digitChar x.d x.upper) = true := fun x hx => isZeroC_digit (hws0 x hx)
  have htail := scanDigitsTail_written isDigitC ws hws R (stopDigit hR)
  have htail0 := scanDigitsTail_written isZeroC ws hws0 R
    (stopNum_of isZeroC (fun _ h => isDigitC_ident (isZeroC_digit h)) hR)
  rw [htxt, List.cons_append, lexOne_number _ _ (by decide)]
  have hd : scanDigits isDigitC (('0' :: writeDigits ws) ++ R) = some ('0' :: writeDigits ws, R) := by
    have : isDigitC '0' = true := by decide
    simp [scanDigits, this, htail]
  have hreal := scanReal_digits _ R hR hd
  -- the prefixed forms need a base letter after the `0`
  have hhead : ∀ c r, writeDigits ws ++ R = c :: r → c = '0' ∨ c = '_' ∨ qNum c = false := by
    intro c r hrest
    cases ws with
    | nil =>
      simp only [writeDigits, List.nil_append] at hrest
      subst hrest
      exact Or.inr (Or.inr hR.cons)
    | cons x xs =>
      have hx0 : digitChar x.d x.upper = '0' := by
        rw [h x (by simp)]; cases x.upper <;> decide
      cases hxu : x.us
      · simp only [writeDigits, hxu, Bool.false_eq_true, ↓reduceIte, List.nil_append, List.singleton_append,
          List.cons_append, List.cons.injEq] at hrest
        exact Or.inl (hrest.1 ▸ hx0)
      · simp only [writeDigits, hxu, ↓reduceIte, List.singleton_append, List.cons_append, List.cons.injEq] at hrest
        exact Or.inr (Or.inl hrest.1.symm)
  have hsecond : ∀ (q : Char → Bool) (lo up : Char), lo ≠ '0' → up ≠ '0' → lo ≠ '_' → up ≠ '_' → qNum lo = true →
      qNum up = true → scanPrefixed q lo up ('0' :: (writeDigits ws ++ R)) = none := by
    intro q lo up hl0 hu0 hlu huu hlq huq
    cases hrest : writeDigits ws ++ R with
    | nil => simp [scanPrefixed]
    | cons c r =>
      have hne : ∀ x : Char, x ≠ '0' → x ≠ '_' → qNum x = true → c ≠ x := by
        intro x h1 h2 h3 hcx
        subst hcx
        rcases hhead c r hrest with hc | hc | hc
        · exact h1 hc
        · exact h2 hc
        · rw [h3] at hc; exact absurd hc (by simp)
      exact scanPrefixed_other q lo up c r (hne lo hl0 hlu hlq) (hne up hu0 huu huq)
  have hint : scanInt ('0' :: (writeDigits ws ++ R)) = some ('0' :: writeDigits ws, R) := by
    simp [scanInt, hsecond isBinC 'b' 'B' (by decide) (by decide) (by decide) (by decide) (by decide) (by decide),
      hsecond isOctC 'o' 'O' (by decide) (by decide) (by decide) (by decide) (by decide) (by decide),
      hsecond isHexC 'x' 'X' (by decide) (by decide) (by decide) (by decide) (by decide) (by decide),
      scanDecimal, htail0]
  simp only [List.cons_append] at hreal
  simp [lexNumber, hreal, hint]

end Ex
