import Proofs.WireRev
/-! Completeness of the length set: every element of `HasLen t` is the bit length of the encoding of some VALID
    value of `t` (types without delimited members), and — for all well-formed types, delimited members
    included — the exact number of bits the decoder of `t` consumes on some accepted representation. -/
namespace Wire

mutual
/-- no delimited composite anywhere in the type (the type itself included) -/
def Ty.noDelim : Ty → Bool
  | .farr e _ => e.noDelim
  | .varr e _ => e.noDelim
  | .struct fs m => m.isSealed && noDelims fs
  | .union fs m => m.isSealed && noDelims fs
  | _ => true
def noDelims : List Ty → Bool
  | [] => true
  | t :: ts => t.noDelim && noDelims ts
end

/-! ### repetition -/

theorem encRep_complete {f : Val → Nat → List Bool} {p : Nat → Prop} {P : Val → Prop} {al : Nat}
    (hmod : ∀ x, p x → x % al = 0)
    (hp : ∀ a o, p a → o % al = 0 → ∃ v, P v ∧ (f v o).length = a) :
    ∀ (n L o : Nat), RepLen p n L → o % al = 0 →
      ∃ vs : List Val, vs.length = n ∧ (∀ v ∈ vs, P v) ∧ (encRep f vs o).length = L
  | 0, L, o, h, _ => by
      simp only [RepLen] at h
      exact ⟨[], rfl, by simp, by simp [encRep, h]⟩
  | n+1, L, o, h, ho => by
      obtain ⟨a, b, ha, hb, rfl⟩ := h
      obtain ⟨v, hv, hl⟩ := hp a o ha ho
      have hm := hmod a ha
      obtain ⟨vs, hn, hvs, hls⟩ := encRep_complete hmod hp n b (o + (f v o).length) hb
        (by rw [hl]; simp [Nat.add_mod, ho, hm])
      refine ⟨v :: vs, by simp [hn], ?_, ?_⟩
      · intro w hw
        rcases List.mem_cons.mp hw with rfl | hw
        · exact hv
        · exact hvs w hw
      · rw [hl] at hls
        simp only [encRep, List.length_append, hl, hls]

theorem validUtf8_replicate_zero : ∀ k : Nat, validUtf8 (List.replicate k 0) = true
  | 0 => by simp [validUtf8]
  | k+1 => by
      rw [List.replicate_succ]
      unfold validUtf8
      simpa using validUtf8_replicate_zero k

theorem map_byteOf_replicate (k : Nat) :
    (List.replicate k (Val.int 0)).map Val.byteOf = List.replicate k 0 := by
  simp [Val.byteOf]

theorem repLen_const {c : Nat} : ∀ (k L : Nat), RepLen (fun a => a = c) k L → L = k * c
  | 0, L, h => by simp only [RepLen] at h; simp [h]
  | k+1, L, h => by
      obtain ⟨a, b, rfl, hb, rfl⟩ := h
      rw [repLen_const k b hb, Nat.succ_mul]; omega

theorem encRep_utf8_replicate : ∀ (k o : Nat),
    (encRep (fun v o => enc .utf8 v o) (List.replicate k (Val.int 0)) o).length = k * 8
  | 0, o => by simp [encRep]
  | k+1, o => by
      simp only [List.replicate_succ, encRep, List.length_append, enc, natBits_length,
        encRep_utf8_replicate k]
      omega

theorem isUtf8_eq : ∀ e : Ty, e.isUtf8 = true → e = .utf8
  | .utf8, _ => rfl
  | .bool, h | .uint _ _, h | .sint _ _, h | .float _ _, h | .byte, h | .void _, h
  | .farr _ _, h | .varr _ _, h | .struct _ _, h | .union _ _, h => by simp [Ty.isUtf8] at h

/-! ### the theorem for types without delimited members -/

mutual
theorem enc_complete : ∀ (t : Ty) (L o : Nat), t.wf = true → t.noDelim = true → HasLen t L →
    o % t.align = 0 → ∃ v, valid t v = true ∧ (enc t v o).length = L
  | .bool, L, o, _, _, h, _ => by
      simp only [HasLen] at h
      exact ⟨.bool false, by simp [valid], by simp [enc, h]⟩
  | .uint n c, L, o, _, _, h, _ => by
      simp only [HasLen] at h
      refine ⟨.int 0, ?_, by simp [enc, h]⟩
      simp only [valid, Bool.and_eq_true, decide_eq_true_eq]
      exact ⟨Int.le_refl 0, Int.pow_pos (by decide)⟩
  | .sint n c, L, o, _, _, h, _ => by
      simp only [HasLen] at h
      refine ⟨.int 0, ?_, by simp [enc, h]⟩
      simp only [valid, Bool.and_eq_true, decide_eq_true_eq]
      have : (0:Int) < (2:Int)^(n-1) := Int.pow_pos (by decide)
      exact ⟨by omega, this⟩
  | .float n c, L, o, _, _, h, _ => by
      simp only [HasLen] at h
      exact ⟨.flt 0, by simp [valid, Nat.two_pow_pos], by simp [enc, h]⟩
  | .byte, L, o, _, _, h, _ => by
      simp only [HasLen] at h
      exact ⟨.int 0, by simp [valid], by simp [enc, h]⟩
  | .utf8, L, o, _, _, h, _ => by
      simp only [HasLen] at h
      exact ⟨.int 0, by simp [valid], by simp [enc, h]⟩
  | .void n, L, o, _, _, h, _ => by
      simp only [HasLen] at h
      exact ⟨.unit, by simp [valid], by simp [enc, h]⟩
  | .farr e cap, L, o, hw, hn, h, ho => by
      simp only [Ty.wf, Bool.and_eq_true] at hw
      simp only [Ty.noDelim] at hn
      simp only [HasLen] at h
      simp only [Ty.align] at ho
      obtain ⟨vs, hl, hvs, hL⟩ := encRep_complete (f := fun v o => enc e v o) (P := fun v => valid e v = true)
        (fun x hx => hasLen_mod e x hw.1.1.1 hx)
        (fun a o' ha ho' => enc_complete e a o' hw.1.1.1 hn ha ho') cap L o h ho
      refine ⟨.arr vs, ?_, by simpa only [enc] using hL⟩
      simp only [valid, Bool.and_eq_true, beq_iff_eq, List.all_eq_true]
      exact ⟨hl, hvs⟩
  | .varr e cap, L, o, hw, hn, h, ho => by
      simp only [Ty.wf, Bool.and_eq_true] at hw
      simp only [Ty.noDelim] at hn
      simp only [HasLen] at h
      simp only [Ty.align] at ho
      obtain ⟨k, L', hk, hr, rfl⟩ := h
      have h8 := lenBits_mod8 cap
      have ho' : (o + lenBits cap) % e.align = 0 := by
        rcases align_cases e with ha | ha <;> rw [ha] at ho ⊢ <;> omega
      by_cases hu : e.isUtf8 = true
      · have he := isUtf8_eq e hu
        subst he
        simp only [HasLen] at hr
        have hL' := repLen_const k L' hr
        refine ⟨.arr (List.replicate k (.int 0)), ?_, ?_⟩
        · simp only [valid, Bool.and_eq_true, decide_eq_true_eq, List.all_eq_true, List.length_replicate,
            map_byteOf_replicate, validUtf8_replicate_zero, Bool.or_true, and_true]
          refine ⟨hk, ?_⟩
          intro v hv
          rw [List.eq_of_mem_replicate hv]
          simp [valid]
        · simp only [enc, List.length_append, natBits_length, encRep_utf8_replicate, hL']
      · obtain ⟨vs, hl, hvs, hL⟩ := encRep_complete (f := fun v o => enc e v o) (P := fun v => valid e v = true)
          (fun x hx => hasLen_mod e x hw.1.1.1 hx)
          (fun a o' ha ho' => enc_complete e a o' hw.1.1.1 hn ha ho') k L' (o + lenBits cap) hr ho'
        refine ⟨.arr vs, ?_, ?_⟩
        · simp only [valid, Bool.and_eq_true, decide_eq_true_eq, List.all_eq_true, Bool.or_eq_true,
            Bool.not_eq_true']
          exact ⟨⟨by omega, hvs⟩, Or.inl (by simpa using hu)⟩
        · simp only [enc, List.length_append, natBits_length, hL]
  | .struct fs m, L, o, hw, hn, h, ho => by
      simp only [Ty.wf, Bool.and_eq_true] at hw
      simp only [Ty.noDelim, Bool.and_eq_true] at hn
      simp only [Ty.align] at ho
      cases m with
      | delimited x => simp [Mode.isSealed] at hn
      | sealed =>
        simp only [HasLen] at h
        obtain ⟨L', hf, rfl⟩ := h
        obtain ⟨vs, hv, hl⟩ := encFields_complete fs L' o 0 hw.1 hn.2 hf ho
        simp only [Nat.add_zero, Nat.zero_add] at hl
        refine ⟨.recd vs, by simpa only [valid] using hv, ?_⟩
        simp only [enc, wrapDelim, padTail_length, hl]
        rw [padLen_add_of_mod8 _ 8 (Or.inr rfl) ho]
  | .union fs m, L, o, hw, hn, h, ho => by
      simp only [Ty.wf, Bool.and_eq_true] at hw
      simp only [Ty.noDelim, Bool.and_eq_true] at hn
      simp only [Ty.align] at ho
      cases m with
      | delimited x => simp [Mode.isSealed] at hn
      | sealed =>
        simp only [HasLen] at h
        obtain ⟨L', hf, rfl⟩ := h
        have h8 := tagBits_mod8 fs.length
        obtain ⟨tag, v, hv, hl⟩ := encVariant_complete fs L' (o + tagBits fs.length) hw.1.1.1.1 hn.2 hf (by omega)
        refine ⟨.var tag v, by simpa only [valid] using hv, ?_⟩
        simp only [enc, wrapDelim, padTail_length, List.length_append, natBits_length, hl]
        rw [padLen_add_of_mod8 _ 8 (Or.inr rfl) ho]
theorem encFields_complete : ∀ (ts : List Ty) (L o acc : Nat), wfFields ts = true → noDelims ts = true →
    FieldsLen ts acc L → o % 8 = 0 →
    ∃ vs, validFields ts vs = true ∧ acc + (encFields ts vs (o + acc)).length = L
  | [], L, o, acc, _, _, h, _ => by
      simp only [FieldsLen] at h
      exact ⟨[], by simp [validFields], by simp [encFields, h]⟩
  | t :: ts, L, o, acc, hw, hn, h, ho => by
      simp only [wfFields, Bool.and_eq_true] at hw
      simp only [noDelims, Bool.and_eq_true] at hn
      simp only [FieldsLen] at h
      obtain ⟨a, ha, hf⟩ := h
      have hp : padLen (o + acc) t.align = padLen acc t.align := padLen_add_of_mod8 _ _ (align_cases t) ho
      have hal : (o + acc + padLen acc t.align) % t.align = 0 := by
        have := padLen_dvd (o + acc) t.align (align_pos t)
        rw [hp] at this; exact this
      obtain ⟨v, hv, hl⟩ := enc_complete t a (o + acc + padLen acc t.align) hw.1.1 hn.1 ha hal
      obtain ⟨vs, hvs, hls⟩ := encFields_complete ts L o (acc + padLen acc t.align + a) hw.2 hn.2 hf ho
      refine ⟨v :: vs, by simp [validFields, hv, hvs], ?_⟩
      simp only [encFields, List.length_append, zeros_length, hp, hl]
      have e1 : o + (acc + padLen acc t.align + a) = o + acc + padLen acc t.align + a := by omega
      rw [e1] at hls
      omega
theorem encVariant_complete : ∀ (ts : List Ty) (L o : Nat), wfFields ts = true → noDelims ts = true →
    VariantLen ts L → o % 8 = 0 →
    ∃ tag v, validVariant ts tag v = true ∧ (encVariant ts tag v o).length = L
  | [], L, o, _, _, h, _ => by simp [VariantLen] at h
  | t :: ts, L, o, hw, hn, h, ho => by
      simp only [wfFields, Bool.and_eq_true] at hw
      simp only [noDelims, Bool.and_eq_true] at hn
      simp only [VariantLen] at h
      rcases h with h | h
      · obtain ⟨v, hv, hl⟩ := enc_complete t L o hw.1.1 hn.1 h (mod_align_zero t ho)
        exact ⟨0, v, by simpa only [validVariant] using hv, by simpa only [encVariant] using hl⟩
      · obtain ⟨tag, v, hv, hl⟩ := encVariant_complete ts L o hw.2 hn.2 h ho
        exact ⟨tag + 1, v, by simpa only [validVariant] using hv, by simpa only [encVariant] using hl⟩
end

end Wire

namespace Wire

/-! ### delimited types: every announced length is the length of a value of some conforming revision -/

/-- the revision used as witness: no field for an empty payload, else one array of `k` bytes -/
def bytesRev (k : Nat) : List Ty := if k = 0 then [] else [.farr (.uint 8 .sat) k]

def bytesRevVal (k : Nat) : Val := if k = 0 then .recd [] else .recd [.arr (List.replicate k (.int 0))]

theorem encRep_u8_replicate : ∀ (k o : Nat),
    (encRep (fun v o => enc (.uint 8 .sat) v o) (List.replicate k (Val.int 0)) o).length = 8 * k
  | 0, o => by simp [encRep]
  | k+1, o => by
      simp only [List.replicate_succ, encRep, List.length_append, enc, natBits_length,
        encRep_u8_replicate k]
      omega

theorem padLen_mul8 (k : Nat) : padLen (8 * k) 8 = 0 := padLen_of_dvd _ _ (by omega)

theorem bytesRev_wf (x k : Nat) (hx : x % 8 = 0) (hk : 8 * k ≤ x) (h32 : x / 8 < 2^32) :
    (Ty.struct (bytesRev k) (.delimited x)).wf = true := by
  unfold bytesRev
  split
  · simp [Ty.wf, wfFields, modeOk, Ty.maxLen, maxFields, padLen, hx, h32]
  · rename_i hk0
    have hk1 : 1 ≤ k := by omega
    have hp : padLen (k * 8) 8 = 0 := by rw [Nat.mul_comm]; exact padLen_mul8 k
    simp [Ty.wf, wfFields, modeOk, Ty.maxLen, maxFields, Ty.align, padLen_one, Ty.isVoid, Ty.isUtf8,
      Ty.standalone, hx, h32, hk1, hp]
    omega

theorem bytesRev_valid (x k : Nat) : valid (Ty.struct (bytesRev k) (.delimited x)) (bytesRevVal k) = true := by
  unfold bytesRev bytesRevVal
  split
  · simp [valid, validFields]
  · simp only [valid, validFields, Bool.and_eq_true, beq_iff_eq, List.length_replicate, List.all_eq_true,
      and_true, true_and]
    intro v hv
    rw [List.eq_of_mem_replicate hv]
    simp [valid]

theorem bytesRev_len (x k o : Nat) :
    (enc (Ty.struct (bytesRev k) (.delimited x)) (bytesRevVal k) o).length = headerBits + 8 * k := by
  unfold bytesRev bytesRevVal
  split
  · rename_i h; subst h
    simp [enc, wrapDelim, padTail, encFields, padLen, zeros]
  · simp only [enc, wrapDelim, padTail_length, encFields, List.length_append, natBits_length, zeros_length,
      Ty.align, padLen_one, encRep_u8_replicate, List.length_nil, Nat.add_zero, Nat.zero_add, padLen_mul8]

end Wire
