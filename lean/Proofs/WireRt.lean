import Proofs.WireEncLen
/-! Round trip: decoding the encoding of a valid value, followed by arbitrary junk, returns the value and
    leaves exactly the junk (implicit truncation). -/
namespace Wire

/-! ### integers -/

theorem pow_cast (n : Nat) : ((2^n : Nat) : Int) = (2:Int)^n := by simp [Int.natCast_pow]

theorem toTwos_lt (n : Nat) (i : Int) : toTwos n i < 2^n := by
  unfold toTwos
  have hpos : (0:Int) < (2:Int)^n := Int.pow_pos (by decide)
  have h1 := Int.emod_lt_of_pos i hpos
  have h0 := Int.emod_nonneg i (Int.ne_of_gt hpos)
  have := pow_cast n
  omega

theorem toTwos_of_range (n : Nat) (i : Int) (h0 : 0 ≤ i) (h1 : i < (2:Int)^n) : (toTwos n i : Int) = i := by
  unfold toTwos
  rw [Int.emod_eq_of_lt h0 h1]
  omega

theorem two_pow_pred (n : Nat) (hn : 1 ≤ n) : (2:Int)^n = 2 * (2:Int)^(n-1) := by
  have : n = (n-1)+1 := by omega
  conv => lhs; rw [this, Int.pow_succ]
  omega

theorem ofTwos_toTwos (n : Nat) (i : Int) (hn : 1 ≤ n) (h0 : -((2:Int)^(n-1)) ≤ i) (h1 : i < (2:Int)^(n-1)) :
    ofTwos n (toTwos n i) = i := by
  have hP := two_pow_pred n hn
  have c1 := pow_cast n
  have c2 := pow_cast (n-1)
  have hPpos : (0:Int) < (2:Int)^(n-1) := Int.pow_pos (by decide)
  unfold ofTwos toTwos
  by_cases hi : 0 ≤ i
  · have : i % (2:Int)^n = i := Int.emod_eq_of_lt hi (by omega)
    rw [this]; split <;> omega
  · have : i % (2:Int)^n = i + (2:Int)^n := by
      rw [← Int.add_emod_right]
      exact Int.emod_eq_of_lt (by omega) (by omega)
    rw [this]; split <;> omega

/-! ### reader steps on `bits ++ junk` -/

theorem read_append (o : Nat) (a junk : List Bool) :
    (R.read ⟨o, a ++ junk⟩ a.length) = (a, ⟨o + a.length, junk⟩) := by
  simp [R.read, takeZ_append_left]

theorem read_append' (o n : Nat) (a junk : List Bool) (h : a.length = n) :
    (R.read ⟨o, a ++ junk⟩ n) = (a, ⟨o + n, junk⟩) := by
  subst h; exact read_append o a junk

theorem alignTo_zeros (o a : Nat) (rest : List Bool) :
    (R.alignTo ⟨o, zeros (padLen o a) ++ rest⟩ a) = ⟨o + padLen o a, rest⟩ := by
  simp [R.alignTo]

/-- the round-trip statement for one type and value -/
def Rt (d : R → Except Err (Val × R)) (e : Nat → List Bool) (v : Val) (a : Nat) : Prop :=
  ∀ (o : Nat) (junk : List Bool), o % a = 0 → d ⟨o, e o ++ junk⟩ = .ok (v, ⟨o + (e o).length, junk⟩)

theorem decRep_rt {fd : R → Except Err (Val × R)} {fe : Val → Nat → List Bool} {a : Nat} :
    ∀ (vs : List Val) (o : Nat) (junk : List Bool),
      (∀ v ∈ vs, Rt fd (fe v) v a) → (∀ v ∈ vs, ∀ o, o % a = 0 → (fe v o).length % a = 0) → o % a = 0 →
      decRep fd vs.length ⟨o, encRep fe vs o ++ junk⟩ = .ok (vs, ⟨o + (encRep fe vs o).length, junk⟩)
  | [], o, junk, _, _, _ => by simp [decRep, encRep]
  | v :: vs, o, junk, hrt, hlen, ho => by
      simp only [List.length_cons, decRep, encRep, List.append_assoc, bind_ok]
      have h1 := hrt v (by simp) o (encRep fe vs (o + (fe v o).length) ++ junk) ho
      have hl := hlen v (by simp) o ho
      have ho' : (o + (fe v o).length) % a = 0 := by simp [Nat.add_mod, ho, hl]
      have h2 := decRep_rt vs (o + (fe v o).length) junk (fun w hw => hrt w (by simp [hw]))
        (fun w hw => hlen w (by simp [hw])) ho'
      refine ⟨_, h1, _, h2, ?_⟩
      simp [Nat.add_assoc]
      rfl

/-- round trip through `wrapDelim` / `unwrapDelim`, given the round trip of the sealed body -/
theorem wrap_rt (m : Mode) (v : Val) (bd : R → Except Err (Val × R)) (be : Nat → List Bool)
    (hrt : Rt bd be v 8) (hcongr : ∀ o o', o % 8 = o' % 8 → be o = be o')
    (hmod : ∀ o, o % 8 = 0 → (be o).length % 8 = 0)
    (hfit : ∀ x, m = .delimited x → (be 0).length / 8 < 2^32) :
    Rt (fun r => unwrapDelim m r bd) (fun o => wrapDelim m o be) v 8 := by
  intro o junk ho
  cases m with
  | sealed => exact hrt o junk ho
  | delimited x =>
    simp only [wrapDelim, unwrapDelim, List.append_assoc]
    have hfit' := hfit x rfl
    have hm := hmod 0 (by simp)
    rw [read_append' o headerBits (natBits headerBits ((be 0).length / 8)) (be 0 ++ junk) (by simp)]
    have hbn : bitsNat (natBits headerBits ((be 0).length / 8)) = (be 0).length / 8 :=
      bitsNat_natBits _ _ (by simp only [headerBits]; exact hfit')
    simp only [hbn]
    have h8 : (be 0).length / 8 * 8 = (be 0).length := by omega
    rw [h8]
    have hs : shorter (be 0 ++ junk) (be 0).length = false := by
      simp [shorter_iff]
    simp only [hs, Bool.false_eq_true, if_false, List.take_left', List.drop_left', bind_ok]
    have hc : be 0 = be (o + headerBits) := hcongr _ _ (by simp [headerBits]; omega)
    have := hrt (o + headerBits) [] (by simp [headerBits]; omega)
    rw [← hc, List.append_nil] at this
    refine ⟨_, this, ?_⟩
    simp [Nat.add_assoc]
    rfl

theorem validVariant_lt : ∀ (ts : List Ty) (n : Nat) (v : Val), validVariant ts n v = true → n < ts.length
  | [], _, _, h => by simp [validVariant] at h
  | _ :: _, 0, _, _ => by simp
  | _ :: ts, n+1, v, h => by
      simp only [validVariant] at h
      have := validVariant_lt ts n v h
      simp; omega

theorem padTail_append (o : Nat) (b junk : List Bool) :
    padTail o b ++ junk = b ++ (zeros (padLen (o + b.length) 8) ++ junk) := by
  simp [padTail]

mutual
theorem dec_enc : ∀ (t : Ty) (v : Val), t.wf = true → valid t v = true → Rt (dec t) (enc t v) v t.align
  | .bool, v, _, hv => by
      cases v with
      | bool b =>
        intro o junk _
        simp only [dec, enc]
        rw [read_append' o 1 [b] junk rfl]
        cases b <;> simp [bitsNat]
      | _ => simp [valid] at hv
  | .uint n c, v, _, hv => by
      cases v with
      | int i =>
        simp only [valid, Bool.and_eq_true, decide_eq_true_eq] at hv
        intro o junk _
        simp only [dec, enc]
        rw [read_append' o n _ junk (natBits_length _ _)]
        simp only [bitsNat_natBits _ _ (toTwos_lt n i), toTwos_of_range n i hv.1 hv.2, natBits_length]
      | _ => simp [valid] at hv
  | .sint n c, v, hw, hv => by
      cases v with
      | int i =>
        simp only [Ty.wf, Bool.and_eq_true, decide_eq_true_eq] at hw
        simp only [valid, Bool.and_eq_true, decide_eq_true_eq] at hv
        intro o junk _
        simp only [dec, enc]
        rw [read_append' o n _ junk (natBits_length _ _)]
        simp only [bitsNat_natBits _ _ (toTwos_lt n i), ofTwos_toTwos n i (by omega) hv.1 hv.2, natBits_length]
      | _ => simp [valid] at hv
  | .float n c, v, _, hv => by
      cases v with
      | flt b =>
        simp only [valid, decide_eq_true_eq] at hv
        intro o junk _
        simp only [dec, enc]
        rw [read_append' o n _ junk (natBits_length _ _)]
        simp only [bitsNat_natBits _ _ hv, natBits_length]
      | _ => simp [valid] at hv
  | .byte, v, _, hv => by
      cases v with
      | int i =>
        simp only [valid, Bool.and_eq_true, decide_eq_true_eq] at hv
        intro o junk _
        simp only [dec, enc]
        rw [read_append' o 8 _ junk (natBits_length _ _)]
        have h2 : i < (2:Int)^8 := by have : (2:Int)^8 = 256 := by decide
                                      omega
        simp only [bitsNat_natBits _ _ (toTwos_lt 8 i), toTwos_of_range 8 i hv.1 h2, natBits_length]
      | _ => simp [valid] at hv
  | .utf8, v, _, hv => by
      cases v with
      | int i =>
        simp only [valid, Bool.and_eq_true, decide_eq_true_eq] at hv
        intro o junk _
        simp only [dec, enc]
        rw [read_append' o 8 _ junk (natBits_length _ _)]
        have h2 : i < (2:Int)^8 := by have : (2:Int)^8 = 256 := by decide
                                      omega
        simp only [bitsNat_natBits _ _ (toTwos_lt 8 i), toTwos_of_range 8 i hv.1 h2, natBits_length]
      | _ => simp [valid] at hv
  | .void n, v, _, hv => by
      cases v with
      | unit =>
        intro o junk _
        simp only [dec, enc]
        rw [read_append' o n _ junk (zeros_length _)]
        simp
      | _ => simp [valid] at hv
  | .farr e cap, v, hw, hv => by
      cases v with
      | arr vs =>
        simp only [Ty.wf, Bool.and_eq_true] at hw
        simp only [valid, Bool.and_eq_true, beq_iff_eq, List.all_eq_true] at hv
        intro o junk ho
        simp only [Ty.align] at ho
        simp only [dec, enc, bind_ok]
        have := decRep_rt (fd := fun q => dec e q) (fe := fun v o => enc e v o) (a := e.align) vs o junk
          (fun w hw' => dec_enc e w hw.1.1.1 (hv.2 w hw'))
          (fun w hw' o' ho' => hasLen_mod e _ hw.1.1.1 (enc_len e w o' hw.1.1.1 (hv.2 w hw') ho')) ho
        rw [hv.1] at this
        exact ⟨_, this, rfl⟩
      | _ => simp [valid] at hv
  | .varr e cap, v, hw, hv => by
      cases v with
      | arr vs =>
        simp only [Ty.wf, Bool.and_eq_true, decide_eq_true_eq] at hw
        simp only [valid, Bool.and_eq_true, decide_eq_true_eq, List.all_eq_true] at hv
        intro o junk ho
        simp only [Ty.align] at ho
        simp only [dec, enc, List.append_assoc]
        rw [read_append' o (lenBits cap) _ _ (natBits_length _ _)]
        have hlen : vs.length < 2^(lenBits cap) := Nat.lt_of_le_of_lt hv.1.1 (lt_pow_lenBits cap hw.1.2)
        simp only [bitsNat_natBits _ _ hlen]
        have hc : ¬ vs.length > cap := by omega
        simp only [hc, if_false, bind_ok]
        have h8 := lenBits_mod8 cap
        have ho' : (o + lenBits cap) % e.align = 0 := by
          rcases align_cases e with ha | ha <;> rw [ha] at ho ⊢ <;> omega
        have := decRep_rt (fd := fun q => dec e q) (fe := fun v o => enc e v o) (a := e.align) vs
          (o + lenBits cap) junk
          (fun w hw' => dec_enc e w hw.1.1.1 (hv.1.2 w hw'))
          (fun w hw' o' ho' => hasLen_mod e _ hw.1.1.1 (enc_len e w o' hw.1.1.1 (hv.1.2 w hw') ho')) ho'
        refine ⟨_, this, ?_⟩
        have hu : (e.isUtf8 && !validUtf8 (List.map Val.byteOf vs)) = false := by
          rcases Bool.or_eq_true _ _ |>.mp hv.2 with h | h
          · simp at h; simp [h]
          · simp [h]
        simp only [hu, Bool.false_eq_true, if_false, List.length_append, natBits_length, Nat.add_assoc]
        rfl
      | _ => simp [valid] at hv
  | .struct fs m, v, hw, hv => by
      cases v with
      | recd vs =>
        simp only [Ty.wf, Bool.and_eq_true] at hw
        simp only [valid] at hv
        simp only [Ty.align]
        have hbody : Rt (fun q => do
              let (ws, r') ← decFields fs q
              pure (Val.recd ws, r'.alignTo 8)) (fun o => padTail o (encFields fs vs o)) (.recd vs) 8 := by
          intro o junk _
          simp only [padTail_append, bind_ok]
          refine ⟨_, decFields_rt fs vs o _ hw.1 hv, ?_⟩
          simp only [alignTo_zeros, padTail_length, Nat.add_assoc]
          rfl
        have hmod : ∀ o, o % 8 = 0 → (padTail o (encFields fs vs o)).length % 8 = 0 := by
          intro o ho
          rw [padTail_length]
          have := padLen8_mod (o + (encFields fs vs o).length)
          omega
        have hfit : ∀ x, m = .delimited x → (padTail 0 (encFields fs vs 0)).length / 8 < 2^32 := by
          intro x hx
          subst hx
          have hl := enc_len (.struct fs .sealed) (.recd vs) 0 (by simp [Ty.wf, hw.1, modeOk]) (by simpa [valid] using hv)
            (by simp [Ty.align])
          simp only [enc, wrapDelim] at hl
          have hle := hasLen_le _ _ hl
          simp only [modeOk, Bool.and_eq_true, decide_eq_true_eq] at hw
          omega
        intro o junk ho
        have := wrap_rt m (.recd vs) _ _ hbody
          (fun o o' h => by
            show padTail o (encFields fs vs o) = padTail o' (encFields fs vs o')
            rw [encFields_congr fs vs o o' h, padTail_congr _ h]) hmod hfit o junk ho
        simpa only [dec, enc] using this
      | _ => simp [valid] at hv
  | .union fs m, v, hw, hv => by
      cases v with
      | var tag w =>
        simp only [Ty.wf, Bool.and_eq_true, decide_eq_true_eq] at hw
        simp only [valid] at hv
        simp only [Ty.align]
        have h8 := tagBits_mod8 fs.length
        have htag : tag < 2^(tagBits fs.length) :=
          Nat.lt_of_lt_of_le (validVariant_lt fs tag w hv) (le_pow_tagBits _ hw.1.2)
        have hbody : Rt (fun q =>
              let (b, r1) := q.read (tagBits fs.length)
              let tag' := bitsNat b
              do let (v', r') ← decVariant fs tag' r1
                 pure (Val.var tag' v', r'.alignTo 8))
            (fun o => padTail o (natBits (tagBits fs.length) tag ++ encVariant fs tag w (o + tagBits fs.length)))
            (.var tag w) 8 := by
          intro o junk ho
          simp only [padTail_append, List.append_assoc]
          rw [read_append' o (tagBits fs.length) _ _ (natBits_length _ _)]
          simp only [bitsNat_natBits _ _ htag, bind_ok]
          refine ⟨_, decVariant_rt fs tag w (o + tagBits fs.length) _ hw.1.1.1.1 hv (by omega), ?_⟩
          simp only [List.length_append, natBits_length]
          have e1 : o + tagBits fs.length + (encVariant fs tag w (o + tagBits fs.length)).length
              = o + (tagBits fs.length + (encVariant fs tag w (o + tagBits fs.length)).length) := by omega
          rw [e1, alignTo_zeros, padTail_length]
          simp only [List.length_append, natBits_length, Nat.add_assoc]
          rfl
        have hmod : ∀ o, o % 8 = 0 → (padTail o (natBits (tagBits fs.length) tag ++
            encVariant fs tag w (o + tagBits fs.length))).length % 8 = 0 := by
          intro o ho
          rw [padTail_length]
          have := padLen8_mod (o + (natBits (tagBits fs.length) tag ++ encVariant fs tag w (o + tagBits fs.length)).length)
          omega
        have hfit : ∀ x, m = .delimited x → (padTail 0 (natBits (tagBits fs.length) tag ++
            encVariant fs tag w (0 + tagBits fs.length))).length / 8 < 2^32 := by
          intro x hx
          subst hx
          have hl := enc_len (.union fs .sealed) (.var tag w) 0
            (by simp [Ty.wf, hw.1.1.1.1, hw.1.1.1.2, hw.1.1.2, hw.1.2, modeOk]) (by simpa [valid] using hv)
            (by simp [Ty.align])
          simp only [enc, wrapDelim] at hl
          have hle := hasLen_le _ _ hl
          simp only [modeOk, Bool.and_eq_true, decide_eq_true_eq] at hw
          omega
        intro o junk ho
        have := wrap_rt m (.var tag w) _ _ hbody
          (fun o o' h => by
            show padTail o (natBits (tagBits fs.length) tag ++ encVariant fs tag w (o + tagBits fs.length))
              = padTail o' (natBits (tagBits fs.length) tag ++ encVariant fs tag w (o' + tagBits fs.length))
            rw [encVariant_congr fs tag w (o + tagBits fs.length) (o' + tagBits fs.length) (by omega),
              padTail_congr _ h]) hmod hfit o junk ho
        simpa only [dec, enc] using this
      | _ => simp [valid] at hv
theorem decFields_rt : ∀ (ts : List Ty) (vs : List Val) (o : Nat) (junk : List Bool), wfFields ts = true →
    validFields ts vs = true →
    decFields ts ⟨o, encFields ts vs o ++ junk⟩ = .ok (vs, ⟨o + (encFields ts vs o).length, junk⟩)
  | [], vs, o, junk, _, hv => by
      cases vs with
      | nil => simp [decFields, encFields]
      | cons _ _ => simp [validFields] at hv
  | _ :: _, [], _, _, _, hv => by simp [validFields] at hv
  | t :: ts, v :: vs, o, junk, hw, hv => by
      simp only [wfFields, Bool.and_eq_true] at hw
      simp only [validFields, Bool.and_eq_true] at hv
      simp only [decFields, encFields, List.append_assoc, bind_ok]
      rw [alignTo_zeros]
      have hal : (o + padLen o t.align) % t.align = 0 := padLen_dvd o t.align (align_pos t)
      have h1 := dec_enc t v hw.1.1 hv.1 (o + padLen o t.align)
        (encFields ts vs (o + padLen o t.align + (enc t v (o + padLen o t.align)).length) ++ junk) hal
      have h2 := decFields_rt ts vs (o + padLen o t.align + (enc t v (o + padLen o t.align)).length) junk hw.2 hv.2
      refine ⟨_, h1, _, h2, ?_⟩
      simp only [List.length_append, zeros_length, Nat.add_assoc]
      rfl
theorem decVariant_rt : ∀ (ts : List Ty) (n : Nat) (v : Val) (o : Nat) (junk : List Bool), wfFields ts = true →
    validVariant ts n v = true → o % 8 = 0 →
    decVariant ts n ⟨o, encVariant ts n v o ++ junk⟩ = .ok (v, ⟨o + (encVariant ts n v o).length, junk⟩)
  | [], _, _, _, _, _, hv, _ => by simp [validVariant] at hv
  | t :: _, 0, v, o, junk, hw, hv, ho => by
      simp only [wfFields, Bool.and_eq_true] at hw
      simp only [validVariant] at hv
      simp only [decVariant, encVariant]
      exact dec_enc t v hw.1.1 hv o junk (mod_align_zero t ho)
  | _ :: ts, n+1, v, o, junk, hw, hv, ho => by
      simp only [wfFields, Bool.and_eq_true] at hw
      simp only [validVariant] at hv
      simp only [decVariant, encVariant]
      exact decVariant_rt ts n v o junk hw.2 hv ho
end

end Wire
