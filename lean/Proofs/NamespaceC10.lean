import Proofs.NamespaceBasic
/-! Lemmas for C10: the ordering key, sortedness and uniqueness of the sorted enumeration, the directory rule. -/
namespace Ns

abbrev Key := String × Nat × Nat

theorem keyLe_total (a b : Key) : (keyLe a b || keyLe b a) = true := by
  obtain ⟨n1, ma1, mi1⟩ := a
  obtain ⟨n2, ma2, mi2⟩ := b
  simp only [keyLe, Bool.or_eq_true, Bool.and_eq_true, decide_eq_true_eq, beq_iff_eq]
  by_cases h1 : n1 < n2
  · exact Or.inl (Or.inl h1)
  · by_cases h2 : n2 < n1
    · exact Or.inr (Or.inl h2)
    · have : n1 = n2 := String.le_antisymm (String.not_lt.mp h2) (String.not_lt.mp h1)
      subst this
      by_cases h3 : ma1 > ma2
      · exact Or.inl (Or.inr ⟨rfl, Or.inl h3⟩)
      · by_cases h4 : ma2 > ma1
        · exact Or.inr (Or.inr ⟨rfl, Or.inl h4⟩)
        · have : ma1 = ma2 := by omega
          subst this
          by_cases h5 : mi1 ≥ mi2
          · exact Or.inl (Or.inr ⟨rfl, Or.inr ⟨rfl, h5⟩⟩)
          · exact Or.inr (Or.inr ⟨rfl, Or.inr ⟨rfl, by omega⟩⟩)

theorem keyLe_trans (a b c : Key) (h1 : keyLe a b = true) (h2 : keyLe b c = true) : keyLe a c = true := by
  obtain ⟨n1, ma1, mi1⟩ := a
  obtain ⟨n2, ma2, mi2⟩ := b
  obtain ⟨n3, ma3, mi3⟩ := c
  simp only [keyLe, Bool.or_eq_true, Bool.and_eq_true, decide_eq_true_eq, beq_iff_eq] at h1 h2 ⊢
  rcases h1 with h1 | ⟨rfl, h1⟩
  · rcases h2 with h2 | ⟨rfl, _⟩
    · exact Or.inl (String.lt_trans h1 h2)
    · exact Or.inl h1
  · rcases h2 with h2 | ⟨rfl, h2⟩
    · exact Or.inl h2
    · refine Or.inr ⟨rfl, ?_⟩
      rcases h1 with h1 | ⟨rfl, h1⟩
      · rcases h2 with h2 | ⟨rfl, _⟩
        · exact Or.inl (by omega)
        · exact Or.inl h1
      · rcases h2 with h2 | ⟨rfl, h2⟩
        · exact Or.inl h2
        · exact Or.inr ⟨rfl, by omega⟩

theorem keyLe_antisymm (a b : Key) (h1 : keyLe a b = true) (h2 : keyLe b a = true) : a = b := by
  obtain ⟨n1, ma1, mi1⟩ := a
  obtain ⟨n2, ma2, mi2⟩ := b
  simp only [keyLe, Bool.or_eq_true, Bool.and_eq_true, decide_eq_true_eq, beq_iff_eq] at h1 h2
  rcases h1 with h1 | ⟨rfl, h1⟩
  · rcases h2 with h2 | ⟨rfl, _⟩
    · exact absurd h2 (String.lt_asymm h1)
    · exact absurd h1 (String.lt_irrefl _)
  · rcases h2 with h2 | ⟨_, h2⟩
    · exact absurd h2 (String.lt_irrefl _)
    · have : ma1 = ma2 := by omega
      subst this
      have : mi1 = mi2 := by omega
      subst this; rfl

/-- sorted by `(name, -major, -minor)` -/
def SortedByKey {α : Type} (key : α → Key) (l : List α) : Prop := l.Pairwise (fun a b => keyLe (key a) (key b) = true)

theorem sortDefs_sorted (l : List Def) : SortedByKey Def.key (sortDefs l) := by
  unfold SortedByKey sortDefs
  have := List.pairwise_mergeSort (le := fun a b : Def => keyLe a.key b.key)
    (fun a b c => keyLe_trans a.key b.key c.key) (fun a b => keyLe_total a.key b.key) l
  exact this

theorem sortTys_sorted (l : List Ty) : SortedByKey Ty.key (sortTys l) := by
  unfold SortedByKey sortTys
  exact List.pairwise_mergeSort (le := fun a b : Ty => keyLe a.key b.key)
    (fun a b c => keyLe_trans a.key b.key c.key) (fun a b => keyLe_total a.key b.key) l

theorem sortDefs_perm (l : List Def) : (sortDefs l).Perm l := List.mergeSort_perm _ _
theorem sortTys_perm (l : List Ty) : (sortTys l).Perm l := List.mergeSort_perm _ _

/-- With pairwise distinct keys the sorted list is unique: any permutation of the input sorts to the same list. -/
theorem sortDefs_perm_eq {l1 l2 : List Def} (hp : l1.Perm l2) (hd : l2.Pairwise (fun a b => a.key ≠ b.key)) :
    sortDefs l1 = sortDefs l2 := by
  apply List.Perm.eq_of_pairwise (le := fun a b : Def => keyLe a.key b.key = true)
  · intro a b ha hb h1 h2
    have hk := keyLe_antisymm _ _ h1 h2
    have ha' : a ∈ l2 := hp.subset ((sortDefs_perm l1).subset ha)
    have hb' : b ∈ l2 := (sortDefs_perm l2).subset hb
    by_cases hab : a = b
    · exact hab
    · exfalso
      have := (List.pairwise_iff_getElem.mp hd)
      obtain ⟨i, hi, rfl⟩ := List.getElem_of_mem ha'
      obtain ⟨j, hj, rfl⟩ := List.getElem_of_mem hb'
      rcases Nat.lt_trichotomy i j with hlt | heq | hgt
      · exact this i j hi hj hlt hk
      · subst heq; exact hab rfl
      · exact this j i hj hi hgt hk.symm
  · exact sortDefs_sorted l1
  · exact sortDefs_sorted l2
  · exact ((sortDefs_perm l1).trans hp).trans (sortDefs_perm l2).symm

/-! ### directory rule -/

theorem dirsCheck_ok_iff (dirs : List Path) (allow : Bool) :
    dirsCheck dirs allow = .ok () ↔ ∀ a ∈ dirs, ∀ b ∈ dirs, dirPairBad allow a b = none := by
  unfold dirsCheck
  split
  · rename_i h
    simp only [true_iff]
    intro a ha b hb
    cases hp : dirPairBad allow a b with
    | none => rfl
    | some e =>
      have : e ∈ (dirs.flatMap fun a => dirs.filterMap fun b => dirPairBad allow a b) := by
        simp only [List.mem_flatMap, List.mem_filterMap]
        exact ⟨a, ha, b, hb, hp⟩
      rw [h] at this; cases this
  · rename_i e es h
    simp only [reduceCtorEq, false_iff]
    intro hall
    have : e ∈ (dirs.flatMap fun a => dirs.filterMap fun b => dirPairBad allow a b) := by rw [h]; simp
    simp only [List.mem_flatMap, List.mem_filterMap] at this
    obtain ⟨a, ha, b, hb, hp⟩ := this
    rw [hall a ha b hb] at hp; cases hp

theorem dirPairBad_none_iff (allow : Bool) (a b : Path) :
    dirPairBad allow a b = none ↔
      (a = b ∨ (¬ (b <+: a) ∧ (allow = true ∨ (dirName a).toLower ≠ (dirName b).toLower))) := by
  unfold dirPairBad
  by_cases hab : a = b
  · simp [hab]
  · have : (a == b) = false := by simpa using hab
    simp only [this, Bool.false_eq_true, if_false, hab, false_or]
    cases allow <;> by_cases hn : (dirName a).toLower = (dirName b).toLower <;> by_cases hp : b <+: a <;>
      simp [hn, hp, List.isPrefixOf_iff_prefix]

theorem dirsCheck_error_invalid {dirs : List Path} {allow : Bool} {e : Err} (h : dirsCheck dirs allow = .error e) :
    e = .nestedRoot ∨ e = .rootNameCollision := by
  unfold dirsCheck at h
  split at h
  · cases h
  · rename_i e' es hl
    cases h
    have : e ∈ (dirs.flatMap fun a => dirs.filterMap fun b => dirPairBad allow a b) := by rw [hl]; simp
    simp only [List.mem_flatMap, List.mem_filterMap] at this
    obtain ⟨a, _, b, _, hp⟩ := this
    unfold dirPairBad at hp
    repeat' split at hp
    all_goals first | (cases hp; simp) | cases hp

/-! ### the enumeration: `collect` does not depend on the order of the enumeration -/

theorem mkDef_error {tgt : Bool} {e : FileEntry} {x : Err} (h : mkDef tgt e = .error x) : x = .fileName := by
  unfold mkDef at h
  simp only at h
  repeat' split at h
  all_goals first | (cases h; rfl) | cases h
  rename_i x' hx
  unfold parseFileName at hx
  repeat' split at hx
  all_goals first | (cases hx; rfl) | cases hx

theorem mapMDefs_cons (tgt : Bool) (e : FileEntry) (r : List FileEntry) :
    mapMDefs tgt (e :: r) = match mkDef tgt e, mapMDefs tgt r with
      | .ok d, .ok ds => .ok (d :: ds)
      | .error x, _ => .error x
      | _, .error x => .error x := by
  simp only [mapMDefs]
  cases mkDef tgt e <;> cases mapMDefs tgt r <;> rfl

theorem mapMDefs_error {tgt : Bool} {l : List FileEntry} {x : Err} (h : mapMDefs tgt l = .error x) : x = .fileName := by
  induction l with
  | nil => cases h
  | cons e r ih =>
    rw [mapMDefs_cons] at h
    cases h0 : mkDef tgt e with
    | error y => simp only [h0] at h; cases h; exact mkDef_error h0
    | ok d =>
      cases h1 : mapMDefs tgt r with
      | error y => simp only [h0, h1] at h; cases h; exact ih h1
      | ok ds => simp [h0, h1] at h

/-- same verdict; on success the same definitions up to order -/
def ResRel : Except Err (List Def) → Except Err (List Def) → Prop
  | .ok a, .ok b => a.Perm b
  | .error _, .error _ => True
  | _, _ => False

theorem ResRel.trans {a b c : Except Err (List Def)} (h1 : ResRel a b) (h2 : ResRel b c) : ResRel a c := by
  cases a <;> cases b <;> cases c <;> simp_all [ResRel]
  exact h1.trans h2

theorem mapMDefs_perm {tgt : Bool} {l1 l2 : List FileEntry} (h : l1.Perm l2) : ResRel (mapMDefs tgt l1) (mapMDefs tgt l2) := by
  induction h with
  | nil => simp [mapMDefs, ResRel]
  | @cons e r1 r2 _ ih =>
    rw [mapMDefs_cons, mapMDefs_cons]
    cases h0 : mkDef tgt e <;> cases h1 : mapMDefs tgt r1 <;> cases h2 : mapMDefs tgt r2 <;>
      simp_all [ResRel]
  | swap a b r =>
    rw [mapMDefs_cons, mapMDefs_cons, mapMDefs_cons, mapMDefs_cons]
    cases ha : mkDef tgt a <;> cases hb : mkDef tgt b <;> cases hr : mapMDefs tgt r <;> simp [ResRel]
    exact List.Perm.swap _ _ _
  | trans _ _ ih1 ih2 => exact ih1.trans ih2

/-- the (name, version) keys of the definition files of an enumeration -/
def keysOf (files : List FileEntry) : List Key :=
  files.filterMap fun e => match mkDef false e with
    | .ok d => some d.key
    | .error _ => none

/-- no two definition files of the enumeration have the same (name, version) -/
def DistinctFileKeys (files : List FileEntry) : Prop := (keysOf files).Pairwise (· ≠ ·)

theorem mkDef_key_tgt {tgt : Bool} {e : FileEntry} {d : Def} (h : mkDef tgt e = .ok d) :
    ∃ d', mkDef false e = .ok d' ∧ d'.key = d.key := by
  unfold mkDef at h ⊢
  simp only at h ⊢
  split at h
  · cases h
  · rename_i h1
    simp only [h1]
    split at h
    · cases h
    · rename_i fn hfn
      split at h
      · cases h
      · rename_i h2
        cases h
        simp [h2, Def.key]

theorem mapMDefs_keys_sublist {tgt : Bool} {sel : FileEntry → Bool} :
    ∀ {files : List FileEntry} {ds : List Def}, mapMDefs tgt (files.filter sel) = .ok ds →
      (ds.map Def.key).Sublist (keysOf files) := by
  intro files
  induction files with
  | nil => intro ds h; simp [mapMDefs] at h; subst h; simp [keysOf]
  | cons e r ih =>
    intro ds h
    rw [List.filter_cons] at h
    by_cases hs : sel e = true
    · simp only [hs, if_true] at h
      rw [mapMDefs_cons] at h
      cases h0 : mkDef tgt e with
      | error x => simp [h0] at h
      | ok d =>
        cases h1 : mapMDefs tgt (r.filter sel) with
        | error x => simp [h0, h1] at h
        | ok ds' =>
          simp only [h0, h1] at h
          cases h
          obtain ⟨d', hd', hk⟩ := mkDef_key_tgt h0
          have : keysOf (e :: r) = d'.key :: keysOf r := by simp [keysOf, hd']
          rw [this, List.map_cons, hk]
          exact (ih h1).cons_cons _
    · simp only [hs, Bool.false_eq_true, if_false] at h
      have := ih h
      unfold keysOf
      rw [List.filterMap_cons]
      split
      · exact this
      · exact this.cons _

theorem distinct_of_mapMDefs {tgt : Bool} {sel : FileEntry → Bool} {files : List FileEntry} {ds : List Def}
    (hd : DistinctFileKeys files) (h : mapMDefs tgt (files.filter sel) = .ok ds) :
    ds.Pairwise (fun a b => a.key ≠ b.key) := by
  have := List.Pairwise.sublist (mapMDefs_keys_sublist h) hd
  exact List.pairwise_map.mp this

theorem DistinctFileKeys.perm {f1 f2 : List FileEntry} (hp : f1.Perm f2) (hd : DistinctFileKeys f2) : DistinctFileKeys f1 := by
  unfold DistinctFileKeys keysOf at *
  exact (hp.filterMap _).pairwise_iff (fun h => Ne.symm h) |>.mpr hd

theorem collect_perm {tgt : Bool} {f1 f2 : List FileEntry} (dirs : List Path) (hp : f1.Perm f2) (hd : DistinctFileKeys f2) :
    collect tgt f1 dirs = collect tgt f2 dirs := by
  unfold collect
  have hrel := mapMDefs_perm (tgt := tgt) (hp.filter (fun e => dirs.contains e.dir && isDefinitionFile e.fname))
  cases h1 : mapMDefs tgt (f1.filter fun e => dirs.contains e.dir && isDefinitionFile e.fname) with
  | error x =>
    cases h2 : mapMDefs tgt (f2.filter fun e => dirs.contains e.dir && isDefinitionFile e.fname) with
    | error y => rw [mapMDefs_error h1, mapMDefs_error h2]
    | ok ds => rw [h1, h2] at hrel; simp [ResRel] at hrel
  | ok ds1 =>
    cases h2 : mapMDefs tgt (f2.filter fun e => dirs.contains e.dir && isDefinitionFile e.fname) with
    | error y => rw [h1, h2] at hrel; simp [ResRel] at hrel
    | ok ds2 =>
      rw [h1, h2] at hrel
      simp only [ResRel] at hrel
      simp only
      rw [sortDefs_perm_eq hrel (distinct_of_mapMDefs hd h2)]

theorem completeRead_sorted (au : Bool) (files : List FileEntry) (targets : List Def) (dirs : List Path)
    (d t : List Ty) (p : List Nat) (h : completeRead au files targets dirs = ⟨.ok (d, t), p⟩) :
    SortedByKey Ty.key d ∧ SortedByKey Ty.key t := by
  unfold completeRead at h
  split at h
  · cases h
  · split at h
    · cases h
    · split at h
      · cases h
      · simp only at h
        split at h
        · cases h
        · cases h; exact ⟨sortTys_sorted _, sortTys_sorted _⟩

theorem completeRead_perm (au : Bool) {f1 f2 : List FileEntry} (targets : List Def) (dirs : List Path)
    (hp : f1.Perm f2) (hd : DistinctFileKeys f2) : completeRead au f1 targets dirs = completeRead au f2 targets dirs := by
  unfold completeRead
  rw [collect_perm dirs hp hd]

end Ns
