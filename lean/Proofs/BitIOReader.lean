import Proofs.BitIOWriter
/-! `_BitReader`: both code paths, with and without a limit, read the next bits of the zero-extended window. -/
namespace BitIO

theorem takeZ_length (n : ℕ) (s : List Bool) : (takeZ n s).length = n := by
  simp only [takeZ, List.length_append, List.length_take, zeros_length]; omega

theorem ofBits_zeros (k : ℕ) : ofBits (zeros k) = 0 := by
  induction k with
  | zero => rfl
  | succ k ih => simp [zeros_succ, ofBits, ih]

theorem ofBits_append (a b : List Bool) : ofBits (a ++ b) = ofBits a + 2 ^ a.length * ofBits b := by
  induction a with
  | nil => simp [ofBits]
  | cons x a ih => simp only [List.cons_append, ofBits, ih, List.length_cons, pow_succ]; ring

theorem ofBits_append_zeros (a : List Bool) (k : ℕ) : ofBits (a ++ zeros k) = ofBits a := by
  rw [ofBits_append, ofBits_zeros]; simp

theorem ofBits_lt (a : List Bool) : ofBits a < 2 ^ a.length := by
  induction a with
  | nil => simp [ofBits]
  | cons x a ih => simp only [ofBits, List.length_cons, pow_succ]; split <;> omega

/-- the bit-wise loop collects the zero-extended next `n` bits -/
theorem map_bitAt (data : List Bool) (off n : ℕ) :
    ((List.range n).map fun i => bitAt data (off + i)) = takeZ n (data.drop off) := by
  apply List.ext_getElem
  · simp [takeZ_length]
  · intro i h1 h2
    simp only [List.length_map, List.length_range] at h1
    simp only [List.getElem_map, List.getElem_range, bitAt, takeZ]
    by_cases hi : off + i < data.length
    · have : i < ((data.drop off).take n).length := by simp; omega
      rw [List.getElem_append_left this]
      simp [List.getD_eq_getElem?_getD, hi]
    · have hlen : ((data.drop off).take n).length ≤ i := by simp; omega
      rw [List.getElem_append_right hlen]
      simp only [List.getD_eq_getElem?_getD, zeros, List.getElem_replicate]
      rw [List.getElem?_eq_none (by omega)]; rfl

theorem takeZ_add (a b : ℕ) (s : List Bool) : takeZ (a + b) s = takeZ a s ++ takeZ b (s.drop a) := by
  have e : ∀ n, ((List.range n).map fun i => bitAt s i) = takeZ n s := by
    intro n; have := map_bitAt s 0 n; simpa using this
  rw [← e (a + b), ← e a, ← map_bitAt s a b, List.range_add, List.map_append, List.map_map]
  rfl

theorem takeZ_take_of_le (n a : ℕ) (s : List Bool) (h : n ≤ a) : takeZ n (s.take a) = takeZ n s := by
  simp only [takeZ, List.take_take, Nat.min_eq_left h, List.length_take]
  congr 2; omega

theorem ofBits_takeZ_take_of_ge (n a : ℕ) (s : List Bool) (h : a ≤ n) :
    ofBits (takeZ n (s.take a)) = ofBits (takeZ a s) := by
  simp only [takeZ, List.take_take, Nat.min_eq_right h, ofBits_append_zeros]

theorem slowRead_spec (r : Rd) (n : ℕ) :
    slowRead r n = (ofBits (takeZ n (r.data.drop r.off)), { r with off := r.off + n }) := by
  simp [slowRead, map_bitAt]

theorem fastRead_spec (r : Rd) (n : ℕ) (ha : r.off % 8 = 0) :
    fastRead r n = (ofBits (takeZ n (r.data.drop r.off)), { r with off := r.off + n }) := by
  have hoff : 8 * (r.off / 8) = r.off := by omega
  have hn : n = 8 * (n / 8) + n % 8 := (Nat.div_add_mod n 8).symm
  have hchunk : (r.data.drop r.off).take (8 * (n / 8)) ++ zeros (8 * (n / 8) - ((r.data.drop r.off).take (8 * (n / 8))).length)
      = takeZ (8 * (n / 8)) (r.data.drop r.off) := by
    simp only [takeZ, List.length_take]; congr 2; omega
  unfold fastRead
  simp only [hoff, hchunk]
  by_cases hrem : n % 8 > 0
  · rw [if_pos hrem, slowRead_spec]
    simp only [Prod.mk.injEq]
    constructor
    · conv_rhs => rw [hn, takeZ_add, ofBits_append, takeZ_length]
      rw [List.drop_drop]
      have hlt := ofBits_lt (takeZ (8 * (n / 8)) (r.data.drop r.off))
      rw [takeZ_length] at hlt
      rw [Nat.or_comm, ← Nat.shiftLeft_add_eq_or_of_lt hlt, Nat.shiftLeft_eq]
      ring
    · congr 1; omega
  · rw [if_neg hrem]
    have h0 : n % 8 = 0 := by omega
    have : 8 * (n / 8) = n := by omega
    simp [this]

theorem rawRead_spec (r : Rd) (n : ℕ) :
    rawRead r n = (ofBits (takeZ n (r.data.drop r.off)), { r with off := r.off + n }) := by
  unfold rawRead
  split
  · next h => exact fastRead_spec r n h.1
  · exact slowRead_spec r n

/-- **Reader refinement.** `read_bits(n)` — either code path, with or without a limit — returns the next `n` bits of
    the window extended with zeros, advances by exactly `n`, and the rest of the window is what remains. -/
theorem readBits_spec (r : Rd) (n : ℕ) (hs : r.start ≤ r.off) :
    (readBits r n).1 = ofBits (takeZ n r.window) ∧
    (readBits r n).2 = { r with off := r.off + n } ∧
    (readBits r n).2.window = r.window.drop n := by
  unfold readBits
  cases hl : r.limit with
  | none =>
    simp only [rawRead_spec, Rd.window, hl, List.drop_drop]
    exact ⟨trivial, trivial, trivial⟩
  | some lim =>
    obtain ⟨c, hc⟩ : ∃ c, r.off = r.start + c := ⟨r.off - r.start, by omega⟩
    have hsub : r.off - r.start = c := by omega
    simp only [Rd.window, hl, hsub]
    by_cases h0 : lim - c = 0
    · simp only [h0, if_true, List.take_zero, List.drop_nil]
      refine ⟨by simp [takeZ, ofBits_zeros], by simp [hl], ?_⟩
      have : lim - (r.off + n - r.start) = 0 := by omega
      simp [hl, this]
    · simp only [h0, if_false]
      by_cases hgt : n > lim - c
      · simp only [hgt, if_true, rawRead_spec]
        refine ⟨(ofBits_takeZ_take_of_ge _ _ _ (by omega)).symm, ?_, ?_⟩
        · simp only [Rd.mk.injEq, hl, and_true, true_and]; omega
        · have h1 : lim - (r.off + (lim - c) + (n - (lim - c)) - r.start) = 0 := by omega
          simp only [hl, h1, List.take_zero]
          symm
          apply List.drop_eq_nil_of_le
          simp only [List.length_take]; omega
      · simp only [hgt, if_false, rawRead_spec]
        refine ⟨?_, by simp [hl], ?_⟩
        · rw [takeZ_take_of_le _ _ _ (by omega)]
        · simp only [hl]
          rw [List.drop_take, List.drop_drop]
          congr 1; omega

/-- A bounded sub-reader sees exactly the next `k` bits of the parent's data; the parent skips them. -/
theorem sub_spec (r : Rd) (k : ℕ) :
    (r.sub k).1.window = (r.data.drop r.off).take k ∧ (r.sub k).2 = { r with off := r.off + k } ∧
      (r.sub k).1.start ≤ (r.sub k).1.off := by
  simp [Rd.sub, Rd.window]

/-- `remaining_bits` is the length of the window (for a reader positioned inside its data). -/
theorem remaining_spec (r : Rd) (h : r.limit = none ∨ ∃ lim, r.limit = some lim ∧ r.off + (lim - (r.off - r.start)) ≤ r.data.length) :
    r.remaining = r.window.length := by
  rcases h with h | ⟨lim, h, hle⟩
  · simp [Rd.remaining, Rd.window, h]
  · simp only [Rd.remaining, Rd.window, h, List.length_take, List.length_drop]; omega

end BitIO
