import Proofs.BlsLists
import Mathlib.Data.Fintype.Card
import Mathlib.Data.ZMod.Basic
/-! Sumset stabilisation in a finite commutative monoid and its consequences in `ZMod d`:
    the `equivalent_k` reductions of `RepetitionOperator.modulo` / `RangeRepetitionOperator.modulo`. -/
open scoped Pointwise
namespace Bls

section Stab
variable {G : Type*} [AddCommMonoid G] [DecidableEq G]

theorem nsmul_mono_succ (T : Finset G) (h0 : (0:G) ∈ T) (j : ℕ) : j • T ⊆ (j+1) • T := by
  rw [succ_nsmul]
  exact Finset.subset_add_left _ h0

theorem stable_succ (T : Finset G) (j : ℕ) (h : j • T = (j+1) • T) : (j+1) • T = (j+2) • T := by
  have h2 : (j+2) • T = (j+1) • T + T := succ_nsmul T (j+1)
  rw [h2, ← h, ← succ_nsmul, ← h]

theorem stable_forever (T : Finset G) (j : ℕ) (h : j • T = (j+1) • T) : ∀ m, j ≤ m → m • T = j • T := by
  intro m hm
  induction m, hm using Nat.le_induction with
  | base => rfl
  | succ m hm ih =>
    have : ∀ i, j ≤ i → i • T = (i+1) • T := by
      intro i hi
      induction i, hi using Nat.le_induction with
      | base => exact h
      | succ i _ ih2 => exact stable_succ T i ih2
    rw [← this m hm]; exact ih

theorem stable_or_card [Fintype G] (T : Finset G) (h0 : (0:G) ∈ T) (j : ℕ) :
    j • T = (j+1) • T ∨ j + 1 ≤ (j • T).card := by
  induction j with
  | zero => right; simp
  | succ j ih =>
    rcases ih with h | h
    · left; exact stable_succ T j h
    · by_cases hs : (j+1) • T = (j+2) • T
      · left; exact hs
      · right
        by_cases hj : j • T = (j+1) • T
        · exact absurd (stable_succ T j hj) hs
        · have hss : j • T ⊂ (j+1) • T := Finset.ssubset_iff_subset_ne.mpr ⟨nsmul_mono_succ T h0 j, hj⟩
          have := Finset.card_lt_card hss
          omega

/-- In a finite commutative monoid the chain of sumsets `m • T` (with `0 ∈ T`) is constant from `|G| - 1` on. -/
theorem stabilise [Fintype G] (T : Finset G) (h0 : (0:G) ∈ T) (m : ℕ) (hm : Fintype.card G - 1 ≤ m) :
    m • T = (Fintype.card G - 1) • T := by
  have hpos : 0 < Fintype.card G := Fintype.card_pos_iff.mpr ⟨0⟩
  apply stable_forever T _ _ m hm
  rcases stable_or_card T h0 (Fintype.card G - 1) with h | h
  · exact h
  · have hcard : ((Fintype.card G - 1) • T).card = Fintype.card G := by
      have := Finset.card_le_univ ((Fintype.card G - 1) • T)
      omega
    have huniv : (Fintype.card G - 1) • T = Finset.univ := (Finset.card_eq_iff_eq_univ _).mp hcard
    apply le_antisymm (nsmul_mono_succ T h0 _)
    rw [huniv]; exact Finset.subset_univ _

/-- `⋃_{j ≤ K} j • U = K • (U ∪ {0})` -/
theorem biUnion_nsmul (U : Finset G) (K : ℕ) :
    (Finset.range (K+1)).biUnion (fun j => j • U) = K • (insert 0 U) := by
  induction K with
  | zero => simp
  | succ K ih =>
    rw [succ_nsmul, ← ih]
    ext y
    simp only [Finset.mem_biUnion, Finset.mem_range, Finset.mem_add, Finset.mem_insert]
    constructor
    · rintro ⟨j, hj, hy⟩
      by_cases hjK : j < K + 1
      · exact ⟨y, ⟨j, hjK, hy⟩, 0, Or.inl rfl, by simp⟩
      · have : j = K + 1 := by omega
        subst this
        rw [succ_nsmul, Finset.mem_add] at hy
        obtain ⟨a, ha, b, hb, rfl⟩ := hy
        exact ⟨a, ⟨K, by omega, ha⟩, b, Or.inr hb, rfl⟩
    · rintro ⟨a, ⟨j, hj, ha⟩, b, hb, rfl⟩
      rcases hb with rfl | hb
      · exact ⟨j, by omega, by simpa using ha⟩
      · exact ⟨j + 1, by omega, by rw [succ_nsmul]; exact Finset.add_mem_add ha hb⟩

end Stab

section ZModFacts
variable {d : ℕ} [NeZero d]

/-- `RepetitionOperator.modulo`: `min(k, d + k % d)` copies give the same residues as `k` copies. -/
theorem nsmul_equivK (U : Finset (ZMod d)) (hU : U.Nonempty) (k : ℕ) : equivK k d • U = k • U := by
  unfold equivK
  rcases Nat.le_total k (d + k % d) with h | h
  · rw [Nat.min_eq_left h]
  · rw [Nat.min_eq_right h]
    obtain ⟨t, ht⟩ := hU
    -- translate so that 0 belongs to the set
    set T : Finset (ZMod d) := U.image (fun x => x - t) with hT
    have h0 : (0 : ZMod d) ∈ T := by
      rw [hT]; exact Finset.mem_image.mpr ⟨t, ht, sub_self t⟩
    have hU' : U = {t} + T := by
      ext x
      simp only [hT, Finset.mem_add, Finset.mem_singleton, Finset.mem_image]
      constructor
      · intro hx; exact ⟨t, rfl, x - t, ⟨x, hx, rfl⟩, by ring⟩
      · rintro ⟨a, rfl, b, ⟨y, hy, rfl⟩, rfl⟩; simpa using hy
    have hsplit : ∀ m : ℕ, m • U = {m • t} + m • T := by
      intro m
      rw [hU', nsmul_add, Finset.nsmul_singleton]
    have hcard : Fintype.card (ZMod d) = d := ZMod.card d
    have hd : 0 < d := Nat.pos_of_ne_zero (NeZero.ne d)
    have hk1 : Fintype.card (ZMod d) - 1 ≤ d + k % d := by rw [hcard]; omega
    have hk2 : Fintype.card (ZMod d) - 1 ≤ k := by rw [hcard]; omega
    have ht' : (d + k % d) • t = k • t := by
      rw [nsmul_eq_mul, nsmul_eq_mul]
      congr 1
      rw [ZMod.natCast_eq_natCast_iff]
      show (d + k % d) % d = k % d
      rw [Nat.add_mod_left, Nat.mod_mod]
    rw [hsplit, hsplit, stabilise T h0 _ hk1, stabilise T h0 _ hk2, ht']

/-- `RangeRepetitionOperator.modulo`: ranging over `0..min(k, d + k % d)` copies gives the same residues as `0..k`. -/
theorem biUnion_equivK (U : Finset (ZMod d)) (k : ℕ) :
    (Finset.range (equivK k d + 1)).biUnion (fun j => j • U) = (Finset.range (k + 1)).biUnion (fun j => j • U) := by
  rw [biUnion_nsmul, biUnion_nsmul]
  exact nsmul_equivK (insert 0 U) ⟨0, Finset.mem_insert_self _ _⟩ k

end ZModFacts

/-! Casting sets of naturals to `ZMod d` and back. -/

def castd (d : ℕ) (S : Finset ℕ) : Finset (ZMod d) := S.image (fun x : ℕ => (x : ZMod d))

theorem castd_add (d : ℕ) (A B : Finset ℕ) : castd d (A + B) = castd d A + castd d B := by
  unfold castd
  exact Finset.image_add (Nat.castAddMonoidHom (ZMod d))

theorem castd_nsmul (d : ℕ) (A : Finset ℕ) (k : ℕ) : castd d (k • A) = k • castd d A := by
  induction k with
  | zero => simp [castd]; rfl
  | succ k ih => rw [succ_nsmul, succ_nsmul, castd_add, ih]

theorem castd_union (d : ℕ) (A B : Finset ℕ) : castd d (A ∪ B) = castd d A ∪ castd d B := by
  unfold castd; exact Finset.image_union _ _

theorem castd_biUnion (d : ℕ) {ι : Type*} [DecidableEq ι] (s : Finset ι) (f : ι → Finset ℕ) :
    castd d (s.biUnion f) = s.biUnion (fun i => castd d (f i)) := by
  unfold castd; rw [Finset.biUnion_image]

/-- Reducing modulo `d` first does not change the image in `ZMod d`. -/
theorem castd_image_mod (d : ℕ) (S : Finset ℕ) : castd d (S.image (· % d)) = castd d S := by
  unfold castd
  rw [Finset.image_image]
  congr 1
  funext x
  simp [ZMod.natCast_mod]

/-- A set of residues `< d` is recovered from its image in `ZMod d`. -/
theorem image_mod_eq_val (d : ℕ) [NeZero d] (S : Finset ℕ) : S.image (· % d) = (castd d S).image ZMod.val := by
  unfold castd
  rw [Finset.image_image]
  congr 1
  funext x
  simp [ZMod.val_natCast]

theorem eq_image_mod_of_castd_eq (d : ℕ) [NeZero d] (L S : Finset ℕ) (hlt : ∀ x ∈ L, x < d)
    (h : castd d L = castd d S) : L = S.image (· % d) := by
  rw [image_mod_eq_val, ← h, ← image_mod_eq_val]
  ext x
  simp only [Finset.mem_image]
  constructor
  · intro hx; exact ⟨x, hx, Nat.mod_eq_of_lt (hlt x hx)⟩
  · rintro ⟨y, hy, rfl⟩; rwa [Nat.mod_eq_of_lt (hlt y hy)]

end Bls
