import Proofs.WireInput
/-! Relaxed input (`_normalize_relaxed_value`, model `Wire.normalize`): case lemmas, idempotence, positional and
    bare-value forms expressed through the explicit dict form, and: inputs accepted in strict mode are fixed
    points (relaxed mode is a conservative extension of strict mode). -/
namespace Wire

/-! ### the five cases of a structure, as equations -/

/-- the quirk of single-field structures: a non-empty dict that lacks the field's key is the field's VALUE -/
def bareDict (fs : List Ty) (kvs : List (Nat × Inp)) : Prop :=
  ∃ k, nonPad fs 0 = [k] ∧ (!kvs.isEmpty && !hasKey k kvs) = true

theorem norm_struct_bareDict (fs : List Ty) (m : Mode) (kvs : List (Nat × Inp)) (k : Nat)
    (hk : nonPad fs 0 = [k]) (hb : (!kvs.isEmpty && !hasKey k kvs) = true) :
    normalize (.struct fs m) (.dict kvs) = (do
      let y ← normField fs k (.dict kvs)
      pure (.dict [(k, y)])) := by
  simp only [normalize]
  split <;> simp_all

theorem norm_struct_dict (fs : List Ty) (m : Mode) (kvs : List (Nat × Inp)) (hb : ¬ bareDict fs kvs) :
    normalize (.struct fs m) (.dict kvs) = (do
      let ys ← mapKvs (fun k' y => normField fs k' y) kvs
      pure (.dict ys)) := by
  simp only [normalize]
  split <;> simp_all [bareDict]

theorem norm_struct_bare (fs : List Ty) (m : Mode) (x : Inp) (k : Nat)
    (hk : nonPad fs 0 = [k]) (hx : ∀ kvs, x ≠ .dict kvs) :
    normalize (.struct fs m) x = (do
      let y ← normField fs k x
      pure (.dict [(k, y)])) := by
  simp only [normalize]
  split <;> simp_all

theorem norm_struct_list (fs : List Ty) (m : Mode) (xs : List Inp) (hk : ∀ k, nonPad fs 0 ≠ [k]) :
    normalize (.struct fs m) (.list xs) =
      if xs.length > (nonPad fs 0).length then .error .value else (do
        let ys ← normPos fs 0 xs
        pure (.dict ys)) := by
  simp only [normalize]

theorem norm_struct_other (fs : List Ty) (m : Mode) (x : Inp) (hk : ∀ k, nonPad fs 0 ≠ [k])
    (hd : ∀ kvs, x ≠ .dict kvs) (hl : ∀ xs, x ≠ .list xs) :
    normalize (.struct fs m) x = .ok x := by
  simp only [normalize]
  split <;> simp_all

/-! ### list helpers -/

theorem mapInps_idem {f : Inp → Except Err Inp} :
    ∀ (xs ys : List Inp), (∀ x ∈ xs, ∀ y, f x = .ok y → f y = .ok y) → mapInps f xs = .ok ys → mapInps f ys = .ok ys
  | [], ys, _, h => by
      simp only [mapInps] at h; cases h; rfl
  | x :: xs, ys, hf, h => by
      simp only [mapInps, bind_ok] at h
      obtain ⟨y, hy, ys', hys, hd⟩ := h
      cases hd
      simp only [mapInps, bind_ok]
      exact ⟨y, hf x (by simp) y hy, ys', mapInps_idem xs ys' (fun x' hx' => hf x' (by simp [hx'])) hys, rfl⟩

theorem mapKvs_keys {f : Nat → Inp → Except Err Inp} :
    ∀ (kvs ys : List (Nat × Inp)), mapKvs f kvs = .ok ys → ys.map Prod.fst = kvs.map Prod.fst
  | [], ys, h => by simp only [mapKvs] at h; cases h; rfl
  | (k, x) :: rest, ys, h => by
      simp only [mapKvs, bind_ok] at h
      obtain ⟨y, _, ys', hys, hd⟩ := h
      cases hd
      simp [mapKvs_keys rest ys' hys]

theorem mapKvs_idem {f : Nat → Inp → Except Err Inp} :
    ∀ (kvs ys : List (Nat × Inp)), (∀ kv ∈ kvs, ∀ y, f kv.1 kv.2 = .ok y → f kv.1 y = .ok y) →
      mapKvs f kvs = .ok ys → mapKvs f ys = .ok ys
  | [], ys, _, h => by simp only [mapKvs] at h; cases h; rfl
  | (k, x) :: rest, ys, hf, h => by
      simp only [mapKvs, bind_ok] at h
      obtain ⟨y, hy, ys', hys, hd⟩ := h
      cases hd
      simp only [mapKvs, bind_ok]
      exact ⟨y, hf (k, x) (by simp) y hy, ys', mapKvs_idem rest ys' (fun kv hkv => hf kv (by simp [hkv])) hys, rfl⟩

theorem hasKey_eq_of_keys (k : Nat) (a b : List (Nat × Inp)) (h : a.map Prod.fst = b.map Prod.fst) :
    hasKey k a = hasKey k b := by
  have : ∀ l : List (Nat × Inp), hasKey k l = (l.map Prod.fst).any (fun k' => k' == k) := by
    intro l; simp [hasKey, List.any_map, Function.comp_def]
  rw [this a, this b, h]

theorem isEmpty_eq_of_keys (a b : List (Nat × Inp)) (h : a.map Prod.fst = b.map Prod.fst) :
    a.isEmpty = b.isEmpty := by
  cases a <;> cases b <;> simp_all

theorem bareDict_congr (fs : List Ty) (a b : List (Nat × Inp)) (h : a.map Prod.fst = b.map Prod.fst) :
    bareDict fs a ↔ bareDict fs b := by
  unfold bareDict
  simp only [hasKey_eq_of_keys _ a b h, isEmpty_eq_of_keys a b h]

theorem normField_append : ∀ (pre ts : List Ty) (j : Nat) (x : Inp),
    normField (pre ++ ts) (pre.length + j) x = normField ts j x
  | [], ts, j, x => by simp
  | p :: pre, ts, j, x => by
      have : (p :: pre).length + j = (pre.length + j) + 1 := by simp; omega
      rw [List.cons_append, this, normField]
      exact normField_append pre ts j x

theorem not_singleton_of_bareDict_false {fs : List Ty} {k : Nat} (h : nonPad fs 0 = [k]) :
    ¬ bareDict fs [(k, x)] := by
  rintro ⟨k', hk', hb⟩
  rw [h] at hk'
  cases hk'
  simp [hasKey] at hb

/-! ### idempotence -/

mutual
theorem normalize_idem : ∀ (t : Ty) (x y : Inp), normalize t x = .ok y → normalize t y = .ok y
  | .bool, x, y, h | .uint _ _, x, y, h | .sint _ _, x, y, h | .float _ _, x, y, h
  | .byte, x, y, h | .utf8, x, y, h | .void _, x, y, h => by
      simp only [normalize] at h ⊢
  | .farr e cap, x, y, h => by
      cases x with
      | list xs =>
        simp only [normalize, bind_ok] at h
        obtain ⟨ys, hys, hd⟩ := h
        cases hd
        simp only [normalize, bind_ok]
        exact ⟨ys, mapInps_idem xs ys (fun x' _ y' hy' => normalize_idem e x' y' hy') hys, rfl⟩
      | _ => simp only [normalize] at h; cases h; simp only [normalize]
  | .varr e cap, x, y, h => by
      cases x with
      | list xs =>
        simp only [normalize, bind_ok] at h
        obtain ⟨ys, hys, hd⟩ := h
        cases hd
        simp only [normalize, bind_ok]
        exact ⟨ys, mapInps_idem xs ys (fun x' _ y' hy' => normalize_idem e x' y' hy') hys, rfl⟩
      | _ => simp only [normalize] at h; cases h; simp only [normalize]
  | .struct fs m, x, y, h => by
      have hfield : ∀ k x' y', normField fs k x' = .ok y' → normField fs k y' = .ok y' :=
        fun k x' y' h' => normField_idem fs k x' y' h'
      -- a dict produced by entrywise normalisation is a fixed point
      have hdict : ∀ kvs ys, ¬ bareDict fs kvs → mapKvs (fun k' y => normField fs k' y) kvs = .ok ys →
          normalize (.struct fs m) (.dict ys) = .ok (.dict ys) := by
        intro kvs ys hb hys
        have hkeys := mapKvs_keys kvs ys hys
        rw [norm_struct_dict fs m ys (fun hb' => hb ((bareDict_congr fs ys kvs hkeys).mp hb'))]
        simp only [bind_ok]
        exact ⟨ys, mapKvs_idem kvs ys (fun kv _ y' hy' => hfield kv.1 kv.2 y' hy') hys, rfl⟩
      -- a single-entry dict under the only field's key
      have hone : ∀ k x' y', nonPad fs 0 = [k] → normField fs k x' = .ok y' →
          normalize (.struct fs m) (.dict [(k, y')]) = .ok (.dict [(k, y')]) := by
        intro k x' y' hk hy'
        rw [norm_struct_dict fs m _ (not_singleton_of_bareDict_false hk)]
        simp only [mapKvs, bind_ok]
        exact ⟨[(k, y')], ⟨y', hfield k x' y' hy', [], rfl, rfl⟩, rfl⟩
      by_cases hsingle : ∃ k, nonPad fs 0 = [k]
      · obtain ⟨k, hk⟩ := hsingle
        cases x with
        | dict kvs =>
          by_cases hb : (!kvs.isEmpty && !hasKey k kvs) = true
          · rw [norm_struct_bareDict fs m kvs k hk hb] at h
            simp only [bind_ok] at h
            obtain ⟨y', hy', hd⟩ := h
            cases hd
            exact hone k _ y' hk hy'
          · have hnb : ¬ bareDict fs kvs := by
              rintro ⟨k', hk', hb'⟩
              rw [hk] at hk'; cases hk'
              exact hb hb'
            rw [norm_struct_dict fs m kvs hnb] at h
            simp only [bind_ok] at h
            obtain ⟨ys, hys, hd⟩ := h
            cases hd
            exact hdict kvs ys hnb hys
        | none | bool _ | int _ | flt _ | bytes _ | list _ =>
          rw [norm_struct_bare fs m _ k hk (by intro kvs hc; cases hc)] at h
          simp only [bind_ok] at h
          obtain ⟨y', hy', hd⟩ := h
          cases hd
          exact hone k _ y' hk hy'
      · have hk : ∀ k, nonPad fs 0 ≠ [k] := fun k hc => hsingle ⟨k, hc⟩
        have hnb : ∀ kvs, ¬ bareDict fs kvs := by
          rintro kvs ⟨k', hk', _⟩
          exact hk k' hk'
        cases x with
        | dict kvs =>
          rw [norm_struct_dict fs m kvs (hnb kvs)] at h
          simp only [bind_ok] at h
          obtain ⟨ys, hys, hd⟩ := h
          cases hd
          exact hdict kvs ys (hnb kvs) hys
        | list xs =>
          rw [norm_struct_list fs m xs hk] at h
          split at h
          · cases h
          · simp only [bind_ok] at h
            obtain ⟨ys, hys, hd⟩ := h
            cases hd
            rw [norm_struct_dict fs m ys (hnb ys)]
            simp only [bind_ok]
            exact ⟨ys, normPos_idem fs [] 0 xs ys rfl hys, rfl⟩
        | none | bool _ | int _ | flt _ | bytes _ =>
          rw [norm_struct_other fs m _ hk (by intro kvs hc; cases hc) (by intro xs hc; cases hc)] at h
          cases h
          exact norm_struct_other fs m _ hk (by intro kvs hc; cases hc) (by intro xs hc; cases hc)
  | .union fs m, x, y, h => by
      simp only [normalize] at h
      split at h
      · rename_i k y0
        split at h
        · rename_i hk
          simp only [bind_ok] at h
          obtain ⟨y', hy', hd⟩ := h
          cases hd
          simp only [normalize, hk, if_true, bind_ok]
          exact ⟨y', normField_idem fs k y0 y' hy', rfl⟩
        · cases h
          rename_i hk
          simp only [normalize, hk, if_false]
      · cases h
        rename_i hne
        simp only [normalize]
/-- the value of one field -/
theorem normField_idem : ∀ (ts : List Ty) (k : Nat) (x y : Inp), normField ts k x = .ok y → normField ts k y = .ok y
  | [], k, x, y, h => by simp only [normField]
  | t :: ts, 0, x, y, h => by
      simp only [normField] at h ⊢
      split at h
      · rename_i hv; simp only [hv, if_true]
      · rename_i hv; simp only [hv, if_false]; exact normalize_idem t x y h
  | t :: ts, k+1, x, y, h => by
      simp only [normField] at h ⊢
      exact normField_idem ts k x y h
/-- the dict built from positional values is entrywise normal -/
theorem normPos_idem : ∀ (ts pre : List Ty) (i : Nat) (xs : List Inp) (ys : List (Nat × Inp)), i = pre.length →
    normPos ts i xs = .ok ys → mapKvs (fun k' y => normField (pre ++ ts) k' y) ys = .ok ys
  | [], pre, i, xs, ys, _, h => by
      simp only [normPos] at h; cases h; simp [mapKvs]
  | t :: ts, pre, i, xs, ys, hi, h => by
      simp only [normPos] at h
      have hpre : pre ++ t :: ts = (pre ++ [t]) ++ ts := by simp
      split at h
      · rw [hpre]
        exact normPos_idem ts (pre ++ [t]) (i+1) xs ys (by simp [hi]) h
      · rename_i hv
        cases xs with
        | nil => simp only at h; cases h; simp [mapKvs]
        | cons x xs' =>
          simp only [bind_ok] at h
          obtain ⟨y, hy, ys', hys, hd⟩ := h
          cases hd
          simp only [mapKvs, bind_ok]
          refine ⟨y, ?_, ys', ?_, rfl⟩
          · have := normField_append pre (t :: ts) 0 y
            rw [Nat.add_zero, ← hi] at this
            rw [this]
            simp only [normField, hv, Bool.false_eq_true, if_false]
            exact normalize_idem t x y hy
          · rw [hpre]
            exact normPos_idem ts (pre ++ [t]) (i+1) xs' ys' (by simp [hi]) hys
end

/-! ### the relaxed forms, expressed through the explicit dict form -/

/-- positional values are the dict that pairs them with the non-padding field indices, in order -/
theorem normPos_eq_zip : ∀ (ts pre : List Ty) (i : Nat) (xs : List Inp), i = pre.length →
    normPos ts i xs = mapKvs (fun k' y => normField (pre ++ ts) k' y) (List.zip (nonPad ts i) xs)
  | [], pre, i, xs, _ => by simp [normPos, nonPad, mapKvs]
  | t :: ts, pre, i, xs, hi => by
      have hpre : pre ++ t :: ts = (pre ++ [t]) ++ ts := by simp
      simp only [normPos, nonPad]
      split
      · rw [hpre]
        exact normPos_eq_zip ts (pre ++ [t]) (i+1) xs (by simp [hi])
      · rename_i hv
        cases xs with
        | nil => simp [mapKvs]
        | cons x xs' =>
          simp only [List.zip_cons_cons, mapKvs]
          have := normField_append pre (t :: ts) 0 x
          rw [Nat.add_zero, ← hi] at this
          rw [this]
          simp only [normField, hv, Bool.false_eq_true, if_false]
          rw [normPos_eq_zip ts (pre ++ [t]) (i+1) xs' (by simp [hi]), hpre]

theorem norm_positional (fs : List Ty) (m : Mode) (xs : List Inp) (hk : ∀ k, nonPad fs 0 ≠ [k])
    (hlen : xs.length ≤ (nonPad fs 0).length) :
    normalize (.struct fs m) (.list xs) = normalize (.struct fs m) (.dict (List.zip (nonPad fs 0) xs)) := by
  have hnb : ∀ kvs, ¬ bareDict fs kvs := by
    rintro kvs ⟨k', hk', _⟩
    exact hk k' hk'
  rw [norm_struct_list fs m xs hk, norm_struct_dict fs m _ (hnb _), if_neg (by omega),
    normPos_eq_zip fs [] 0 xs rfl]
  rfl

theorem norm_bare (fs : List Ty) (m : Mode) (x : Inp) (k : Nat) (hk : nonPad fs 0 = [k])
    (hx : (∀ kvs, x ≠ .dict kvs) ∨ ∃ kvs, x = .dict kvs ∧ (!kvs.isEmpty && !hasKey k kvs) = true) :
    normalize (.struct fs m) x = normalize (.struct fs m) (.dict [(k, x)]) := by
  rw [norm_struct_dict fs m [(k, x)] (not_singleton_of_bareDict_false hk)]
  rcases hx with hx | ⟨kvs, rfl, hb⟩
  · rw [norm_struct_bare fs m x k hk hx]
    simp only [mapKvs]
    cases normField fs k x <;> rfl
  · rw [norm_struct_bareDict fs m kvs k hk hb]
    simp only [mapKvs]
    cases normField fs k (.dict kvs) <;> rfl

end Wire
