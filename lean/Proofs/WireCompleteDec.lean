import Proofs.WireComplete
/-! Completeness of the length set on the reader's side, for ALL well-formed types (delimited members at any
    depth included): every element `L` of `HasLen t` is the exact number of bits the decoder of `t` consumes on
    some representation it accepts.  Behind a delimiter header the witness payload is `8k` zero bits — the
    representation written by a revision with a shorter or longer body (implicit zero extension / truncation). -/
namespace Wire

/-- at every offset aligned to `a`, `d` accepts some `L`-bit string, whatever follows, and stops right behind it -/
def Consumes (d : R → Except Err (Val × R)) (a L : Nat) : Prop :=
  ∀ o, o % a = 0 → ∃ (b : List Bool) (v : Val), b.length = L ∧
    ∀ junk, d ⟨o, b ++ junk⟩ = .ok (v, ⟨o + L, junk⟩)

theorem decRep_consumes {f : R → Except Err (Val × R)} {p : Nat → Prop} {al : Nat}
    (hmod : ∀ x, p x → x % al = 0) (hp : ∀ a, p a → Consumes f al a) :
    ∀ (n L o : Nat), RepLen p n L → o % al = 0 → ∃ (b : List Bool) (vs : List Val), b.length = L ∧
      ∀ junk, decRep f n ⟨o, b ++ junk⟩ = .ok (vs, ⟨o + L, junk⟩)
  | 0, L, o, h, _ => by
      simp only [RepLen] at h
      subst h
      exact ⟨[], [], rfl, fun junk => by simp [decRep]⟩
  | n+1, L, o, h, ho => by
      obtain ⟨a, c, ha, hc, rfl⟩ := h
      obtain ⟨b1, v, hl1, h1⟩ := hp a ha o ho
      have hm := hmod a ha
      obtain ⟨b2, vs, hl2, h2⟩ := decRep_consumes hmod hp n c (o + a) hc (by simp [Nat.add_mod, ho, hm])
      refine ⟨b1 ++ b2, v :: vs, by simp [hl1, hl2], fun junk => ?_⟩
      simp only [decRep, List.append_assoc, bind_ok]
      refine ⟨_, h1 (b2 ++ junk), _, h2 junk, ?_⟩
      simp [Nat.add_assoc]
      rfl

/-- behind a header that announces `k` bytes the body sees `8k` zero bits and, being total on zeros, succeeds;
    the parent continues right behind the payload -/
theorem unwrapDelim_consumes {body : R → Except Err (Val × R)} {d : Val} (hb : ZeroDflt body d)
    (x k : Nat) (hk : k < 2^32) (o : Nat) (junk : List Bool) :
    unwrapDelim (.delimited x) ⟨o, (natBits headerBits k ++ zeros (8 * k)) ++ junk⟩ body
      = .ok (d, ⟨o + (headerBits + 8 * k), junk⟩) := by
  simp only [unwrapDelim, List.append_assoc]
  rw [read_append' o headerBits (natBits headerBits k) (zeros (8 * k) ++ junk) (by simp)]
  have hbn : bitsNat (natBits headerBits k) = k := bitsNat_natBits _ _ (by simpa only [headerBits] using hk)
  simp only [hbn]
  have h8 : k * 8 = (zeros (8 * k)).length := by simp; omega
  rw [h8]
  have hs : shorter (zeros (8 * k) ++ junk) (zeros (8 * k)).length = false := by simp [shorter_iff]
  simp only [hs, Bool.false_eq_true, if_false, List.take_left', List.drop_left', bind_ok]
  obtain ⟨o', k', h⟩ := hb (o + headerBits) (8 * k)
  refine ⟨_, h, ?_⟩
  simp [Nat.add_assoc]
  rfl

theorem dec_struct_delim (fs : List Ty) (x : Nat) (r : R) :
    dec (.struct fs (.delimited x)) r = unwrapDelim (.delimited x) r (fun q => dec (.struct fs .sealed) q) := by
  simp only [dec, unwrapDelim]

theorem dec_union_delim (fs : List Ty) (x : Nat) (r : R) :
    dec (.union fs (.delimited x)) r = unwrapDelim (.delimited x) r (fun q => dec (.union fs .sealed) q) := by
  simp only [dec, unwrapDelim]

mutual
theorem dec_consumes : ∀ (t : Ty) (L : Nat), t.wf = true → HasLen t L → Consumes (dec t) t.align L
  | .bool, L, _, h => by
      simp only [HasLen] at h; subst h
      intro o _
      refine ⟨zeros 1, .bool (bitsNat (zeros 1) != 0), by simp, fun junk => ?_⟩
      simp only [dec]
      rw [read_append' o 1 (zeros 1) junk (by simp)]
  | .uint n c, L, _, h => by
      simp only [HasLen] at h; subst h
      intro o _
      refine ⟨zeros L, .int (bitsNat (zeros L)), by simp, fun junk => ?_⟩
      simp only [dec]
      rw [read_append' o L (zeros L) junk (by simp)]
  | .sint n c, L, _, h => by
      simp only [HasLen] at h; subst h
      intro o _
      refine ⟨zeros L, .int (ofTwos L (bitsNat (zeros L))), by simp, fun junk => ?_⟩
      simp only [dec]
      rw [read_append' o L (zeros L) junk (by simp)]
  | .float n c, L, _, h => by
      simp only [HasLen] at h; subst h
      intro o _
      refine ⟨zeros L, .flt (bitsNat (zeros L)), by simp, fun junk => ?_⟩
      simp only [dec]
      rw [read_append' o L (zeros L) junk (by simp)]
  | .byte, L, _, h => by
      simp only [HasLen] at h; subst h
      intro o _
      refine ⟨zeros 8, .int (bitsNat (zeros 8)), by simp, fun junk => ?_⟩
      simp only [dec]
      rw [read_append' o 8 (zeros 8) junk (by simp)]
  | .utf8, L, _, h => by
      simp only [HasLen] at h; subst h
      intro o _
      refine ⟨zeros 8, .int (bitsNat (zeros 8)), by simp, fun junk => ?_⟩
      simp only [dec]
      rw [read_append' o 8 (zeros 8) junk (by simp)]
  | .void n, L, _, h => by
      simp only [HasLen] at h; subst h
      intro o _
      refine ⟨zeros L, .unit, by simp, fun junk => ?_⟩
      simp only [dec]
      rw [read_append' o L (zeros L) junk (by simp)]
  | .farr e cap, L, hw, h => by
      simp only [Ty.wf, Bool.and_eq_true] at hw
      simp only [HasLen] at h
      intro o ho
      simp only [Ty.align] at ho
      obtain ⟨b, vs, hl, hd⟩ := decRep_consumes (f := fun q => dec e q)
        (fun x hx => hasLen_mod e x hw.1.1.1 hx) (fun a ha => dec_consumes e a hw.1.1.1 ha) cap L o h ho
      refine ⟨b, .arr vs, hl, fun junk => ?_⟩
      simp only [dec, bind_ok]
      exact ⟨_, hd junk, rfl⟩
  | .varr e cap, L, hw, h => by
      by_cases hu : e.isUtf8 = true
      · -- no delimited member: the encoder-side theorem applies
        have he := isUtf8_eq e hu
        subst he
        intro o ho
        obtain ⟨v, hv, hl⟩ := enc_complete (.varr .utf8 cap) L o hw (by simp [Ty.noDelim]) h ho
        refine ⟨enc (.varr .utf8 cap) v o, v, hl, fun junk => ?_⟩
        have := dec_enc (.varr .utf8 cap) v hw hv o junk ho
        rw [hl] at this
        exact this
      · simp only [Ty.wf, Bool.and_eq_true, decide_eq_true_eq] at hw
        simp only [HasLen] at h
        obtain ⟨k, L', hk, hr, rfl⟩ := h
        intro o ho
        simp only [Ty.align] at ho
        have h8 := lenBits_mod8 cap
        have ho' : (o + lenBits cap) % e.align = 0 := by
          rcases align_cases e with ha | ha <;> rw [ha] at ho ⊢ <;> omega
        obtain ⟨b, vs, hl, hd⟩ := decRep_consumes (f := fun q => dec e q)
          (fun x hx => hasLen_mod e x hw.1.1.1 hx) (fun a ha => dec_consumes e a hw.1.1.1 ha)
          k L' (o + lenBits cap) hr ho'
        refine ⟨natBits (lenBits cap) k ++ b, .arr vs, by simp [hl], fun junk => ?_⟩
        simp only [dec, List.append_assoc]
        rw [read_append' o (lenBits cap) (natBits (lenBits cap) k) (b ++ junk) (by simp)]
        have hklt : k < 2^(lenBits cap) := Nat.lt_of_le_of_lt hk (lt_pow_lenBits cap hw.1.2)
        have hbn : bitsNat (natBits (lenBits cap) k) = k := bitsNat_natBits _ _ hklt
        simp only [hbn]
        rw [if_neg (by omega)]
        simp only [bind_ok]
        refine ⟨_, hd junk, ?_⟩
        have hu' : e.isUtf8 = false := by simpa using hu
        simp [hu', Nat.add_assoc]
        rfl
  | .struct fs m, L, hw, h => by
      simp only [Ty.wf, Bool.and_eq_true] at hw
      have body : ∀ L', FieldsLen fs 0 L' → Consumes (fun q => do
            let (vs, r') ← decFields fs q
            pure (.recd vs, r'.alignTo 8)) 8 (L' + padLen L' 8) := by
        intro L' hf o ho
        obtain ⟨b, vs, hl, hd⟩ := decFields_consumes fs L' 0 hw.1 hf o ho
        simp only [Nat.zero_add, Nat.add_zero] at hl hd
        refine ⟨b ++ zeros (padLen L' 8), .recd vs, by simp [hl], fun junk => ?_⟩
        simp only [List.append_assoc, bind_ok]
        refine ⟨_, hd (zeros (padLen L' 8) ++ junk), ?_⟩
        have hp : padLen (o + L') 8 = padLen L' 8 := padLen_add_of_mod8 _ 8 (Or.inr rfl) ho
        simp only [pure, Except.pure]
        rw [← hp, alignTo_zeros, hp, Nat.add_assoc]
      cases m with
      | sealed =>
        simp only [HasLen] at h
        obtain ⟨L', hf, rfl⟩ := h
        simpa only [dec, unwrapDelim, Ty.align] using body L' hf
      | delimited x =>
        simp only [HasLen] at h
        obtain ⟨k, hk, rfl⟩ := h
        simp only [modeOk, Bool.and_eq_true, decide_eq_true_eq] at hw
        have hwS : (Ty.struct fs .sealed).wf = true := by simp [Ty.wf, hw.1, modeOk]
        have hz := dec_zeros (.struct fs .sealed) hwS
        intro o _
        refine ⟨natBits headerBits k ++ zeros (8 * k), dflt (.struct fs .sealed), by simp, fun junk => ?_⟩
        rw [dec_struct_delim]
        exact unwrapDelim_consumes hz x k (by omega) o junk
  | .union fs m, L, hw, h => by
      simp only [Ty.wf, Bool.and_eq_true, decide_eq_true_eq] at hw
      have body : ∀ L', VariantLen fs L' → Consumes (fun q =>
            let (b, r1) := q.read (tagBits fs.length)
            let tag := bitsNat b
            do let (v, r') ← decVariant fs tag r1
               pure (.var tag v, r'.alignTo 8)) 8
            (tagBits fs.length + L' + padLen (tagBits fs.length + L') 8) := by
        intro L' hf o ho
        have h8 := tagBits_mod8 fs.length
        obtain ⟨tag, b, v, htag, hl, hd⟩ := decVariant_consumes fs L' hw.1.1.1.1 hf (o + tagBits fs.length) (by omega)
        refine ⟨natBits (tagBits fs.length) tag ++ (b ++ zeros (padLen (tagBits fs.length + L') 8)), .var tag v,
          by simp [hl]; omega, fun junk => ?_⟩
        simp only [List.append_assoc]
        rw [read_append' o (tagBits fs.length) (natBits (tagBits fs.length) tag) _ (by simp)]
        have hlt : tag < 2^(tagBits fs.length) :=
          Nat.lt_of_lt_of_le htag (le_pow_tagBits fs.length hw.1.2)
        have hbn : bitsNat (natBits (tagBits fs.length) tag) = tag := bitsNat_natBits _ _ hlt
        simp only [hbn, bind_ok]
        refine ⟨_, hd (zeros (padLen (tagBits fs.length + L') 8) ++ junk), ?_⟩
        have hp : padLen (o + tagBits fs.length + L') 8 = padLen (tagBits fs.length + L') 8 := by
          rw [Nat.add_assoc]; exact padLen_add_of_mod8 _ 8 (Or.inr rfl) ho
        simp only [pure, Except.pure]
        rw [← hp, alignTo_zeros, hp]
        simp only [Nat.add_assoc]
      cases m with
      | sealed =>
        simp only [HasLen] at h
        obtain ⟨L', hf, rfl⟩ := h
        simpa only [dec, unwrapDelim, Ty.align] using body L' hf
      | delimited x =>
        simp only [HasLen] at h
        obtain ⟨k, hk, rfl⟩ := h
        simp only [modeOk, Bool.and_eq_true, decide_eq_true_eq] at hw
        have hwS : (Ty.union fs .sealed).wf = true := by
          simp [Ty.wf, hw.1.1.1.1, hw.1.1.1.2, hw.1.1.2, hw.1.2, modeOk]
        have hz := dec_zeros (.union fs .sealed) hwS
        intro o _
        refine ⟨natBits headerBits k ++ zeros (8 * k), dflt (.union fs .sealed), by simp, fun junk => ?_⟩
        rw [dec_union_delim]
        exact unwrapDelim_consumes hz x k (by omega) o junk
theorem decFields_consumes : ∀ (ts : List Ty) (L acc : Nat), wfFields ts = true → FieldsLen ts acc L →
    ∀ o, o % 8 = 0 → ∃ (b : List Bool) (vs : List Val), acc + b.length = L ∧
      ∀ junk, decFields ts ⟨o + acc, b ++ junk⟩ = .ok (vs, ⟨o + L, junk⟩)
  | [], L, acc, _, h, o, _ => by
      simp only [FieldsLen] at h; subst h
      exact ⟨[], [], rfl, fun junk => by simp [decFields]⟩
  | t :: ts, L, acc, hw, h, o, ho => by
      simp only [wfFields, Bool.and_eq_true] at hw
      simp only [FieldsLen] at h
      obtain ⟨a, ha, hf⟩ := h
      have hp : padLen (o + acc) t.align = padLen acc t.align := padLen_add_of_mod8 _ _ (align_cases t) ho
      have hal : (o + acc + padLen acc t.align) % t.align = 0 := by
        have := padLen_dvd (o + acc) t.align (align_pos t)
        rw [hp] at this; exact this
      obtain ⟨b1, v, hl1, h1⟩ := dec_consumes t a hw.1.1 ha (o + acc + padLen acc t.align) hal
      obtain ⟨b2, vs, hl2, h2⟩ := decFields_consumes ts L (acc + padLen acc t.align + a) hw.2 hf o ho
      refine ⟨zeros (padLen acc t.align) ++ (b1 ++ b2), v :: vs, by simp [hl1]; omega, fun junk => ?_⟩
      simp only [decFields, List.append_assoc, bind_ok]
      rw [← hp, alignTo_zeros, hp]
      refine ⟨(v, _), h1 (b2 ++ junk), (vs, _), ?_, rfl⟩
      have e1 : o + acc + padLen acc t.align + a = o + (acc + padLen acc t.align + a) := by omega
      rw [e1]
      exact h2 junk
theorem decVariant_consumes : ∀ (ts : List Ty) (L : Nat), wfFields ts = true → VariantLen ts L →
    ∀ o, o % 8 = 0 → ∃ (tag : Nat) (b : List Bool) (v : Val), tag < ts.length ∧ b.length = L ∧
      ∀ junk, decVariant ts tag ⟨o, b ++ junk⟩ = .ok (v, ⟨o + L, junk⟩)
  | [], L, _, h, _, _ => by simp [VariantLen] at h
  | t :: ts, L, hw, h, o, ho => by
      simp only [wfFields, Bool.and_eq_true] at hw
      simp only [VariantLen] at h
      rcases h with h | h
      · obtain ⟨b, v, hl, hd⟩ := dec_consumes t L hw.1.1 h o (mod_align_zero t ho)
        exact ⟨0, b, v, by simp, hl, fun junk => by simpa only [decVariant] using hd junk⟩
      · obtain ⟨tag, b, v, htag, hl, hd⟩ := decVariant_consumes ts L hw.2 h o ho
        exact ⟨tag + 1, b, v, by simp; omega, hl, fun junk => by simpa only [decVariant] using hd junk⟩
end

end Wire
