import Proofs.ExprParse
/-!
  Precedence is independent of redundant parentheses.

  `Paren k e ts`: the token list `ts` is an admissible rendering of the tree `e` in a position where the grammar demands
  level `k`: the parentheses the precedence table requires are present (an operator node is printed bare only where its
  level is at least the demanded one, exactly as `toksAt` does), and any sub-expression -- compound or atomic -- may
  additionally be wrapped in any number of redundant pairs of parentheses (`Paren.wrap`).

  Main result `paren_roundtrip`: every such token list is parsed back to `e` by the PEG.  The minimal printer `toks` and
  the fully parenthesising printer `toksFull` are two members of the family.
-/
set_option linter.unusedSimpArgs false
set_option linter.unusedVariables false
namespace Ex

mutual
inductive Paren : Nat → Expr → List Tok → Prop
  | lit (k : Nat) (l : Lit) : Paren k (.lit l) [.lit l]
  | ident (k : Nat) (n : String) : Paren k (.ident n) [.id n]
  | setNil (k : Nat) : Paren k (.setLit []) [.lb, .rb]
  | setCons (k : Nat) (e : Expr) (es : List Expr) (ts tcs : List Tok) :
      Paren 0 e ts → ParenC es tcs → Paren k (.setLit (e :: es)) (.lb :: (ts ++ tcs ++ [.rb]))
  | un (k : Nat) (op : UnOp) (x : Expr) (ts : List Tok) :
      k ≤ op.level → Paren op.operandLevel x ts → Paren k (.un op x) (.sym op.sym :: ts)
  | bin (k : Nat) (op : BinOp) (l r : Expr) (tl tr : List Tok) :
      k ≤ op.level → Paren op.leftLevel l tl → Paren op.rightLevel r tr →
      Paren k (.bin op l r) (tl ++ .sym op.sym :: tr)
  | attr (k : Nat) (x : Expr) (n : String) (ts : List Tok) :
      k ≤ 8 → Paren 8 x ts → Paren k (.attr x n) (ts ++ [.dot, .id n])
  /-- a redundant (or required) pair of parentheses around anything; inside, nothing is demanded -/
  | wrap (k : Nat) (e : Expr) (ts : List Tok) : Paren 0 e ts → Paren k e (.lp :: (ts ++ [.rp]))
/-- `, e₁ , e₂ …`: the tail of an expression list -/
inductive ParenC : List Expr → List Tok → Prop
  | nil : ParenC [] []
  | cons (e : Expr) (es : List Expr) (ts tcs : List Tok) :
      Paren 0 e ts → ParenC es tcs → ParenC (e :: es) (.comma :: (ts ++ tcs))
end

/-! ### what is carried through the induction -/

/-- first token: not a prefix operator of a level below the demanded one -/
def HeadOk (k : Nat) (ts : List Tok) : Prop :=
  ∃ t tl, ts = t :: tl ∧ (2 ≤ k → t ≠ .sym .bang) ∧ (7 ≤ k → t ≠ .sym .plus ∧ t ≠ .sym .minus)

structure PT (k : Nat) (e : Expr) (ts : List Tok) : Prop where
  head : HeadOk k ts
  main : k ≤ 8 → ∀ rest f, stops k rest → 100 * ts.length + 30 ≤ f → parse f k (ts ++ rest) = some (e, rest)
  spine : isChain k → ∀ rest f, stops (k+1) rest → 100 * ts.length + 40 ≤ f →
    ∃ f', f ≤ f' + 100 * ts.length + 40 ∧ 1 ≤ f' ∧ parse f k (ts ++ rest) = chainLoop f' k e rest
  aspine : k = 8 → ∀ rest f, 100 * ts.length + 40 ≤ f →
    ∃ f', f ≤ f' + 100 * ts.length + 40 ∧ 1 ≤ f' ∧ parse f 8 (ts ++ rest) = attrLoop f' e rest

/-- behaviour of a bare (not parenthesised) rendering at the expression's own level -/
structure POwn (e : Expr) (ts : List Tok) : Prop where
  head : HeadOk e.level ts
  own : ∀ rest f, stops e.level rest → 100 * ts.length ≤ f → parse f e.level (ts ++ rest) = some (e, rest)
  spine : isChain e.level → ∀ rest f, stops (e.level + 1) rest → 100 * ts.length ≤ f →
    ∃ f', f ≤ f' + 100 * ts.length ∧ 1 ≤ f' ∧ parse f e.level (ts ++ rest) = chainLoop f' e.level e rest
  aspine : e.level = 8 → ∀ rest f, 100 * ts.length ≤ f →
    ∃ f', f ≤ f' + 100 * ts.length ∧ 1 ≤ f' ∧ parse f 8 (ts ++ rest) = attrLoop f' e rest

theorem HeadOk.len {k : Nat} {ts : List Tok} (h : HeadOk k ts) : 1 ≤ ts.length := by
  obtain ⟨t, tl, rfl, _⟩ := h; simp

theorem pMainA (e : Expr) (ts : List Tok) (h : POwn e ts) (k : Nat) (hk : k ≤ e.level) (rest : List Tok) (f : Nat)
    (hs : stops k rest) (hf : 100 * ts.length + 9 ≤ f) : parse f k (ts ++ rest) = some (e, rest) := by
  have hl := Expr.level_le e
  have hc := h.head.len
  have h0 := h.own rest (f - (e.level - k)) (stops_mono hs hk) (by omega)
  obtain ⟨t, tl, htl, hb, hpm⟩ := h.head
  have hh : headFree k e.level (ts ++ rest) := by
    rw [htl]
    exact ⟨fun h1 h2 => hb (by omega), fun h1 h2 => hpm (by omega)⟩
  have := climb (e.level - k) (f - (e.level - k)) k e.level _ e rest (by omega) hl (by omega) h0 hh hs
  rwa [Nat.sub_add_cancel (by omega)] at this

theorem PT_of_own (e : Expr) (ts : List Tok) (h : POwn e ts) (k : Nat) (hkl : k ≤ e.level) : PT k e ts := by
  have hl := Expr.level_le e
  have hc := h.head.len
  refine ⟨?_, ?_, ?_, ?_⟩
  · obtain ⟨t, tl, htl, hb, hpm⟩ := h.head
    exact ⟨t, tl, htl, fun h2 => hb (by omega), fun h7 => hpm (by omega)⟩
  · intro hk rest f hs hf
    exact pMainA e ts h k hkl rest f hs (by omega)
  · intro hk rest f hs hf
    by_cases hkl' : e.level = k
    · subst hkl'
      obtain ⟨f', h1, h2, h3⟩ := h.spine hk rest f hs (by omega)
      exact ⟨f', by omega, h2, h3⟩
    · obtain ⟨f0, rfl⟩ : ∃ f0, f = f0 + 1 := ⟨f - 1, by omega⟩
      refine ⟨f0, by omega, by omega, ?_⟩
      rw [parse_chain _ _ _ hk, pMainA e ts h (k+1) (by omega) rest f0 hs (by omega)]
  · intro hk rest f hf
    subst hk
    obtain ⟨f0, rfl⟩ : ∃ f0, f = f0 + 1 := ⟨f - 1, by omega⟩
    by_cases h8 : e.level = 8
    · obtain ⟨f', h1, h2, h3⟩ := h.aspine h8 rest (f0 + 1) (by omega)
      exact ⟨f', by omega, h2, h3⟩
    · refine ⟨f0, by omega, by omega, ?_⟩
      have h9 : e.level = 9 := by omega
      rw [parse_l8]
      have := h.own rest f0 (by rw [h9]; exact stops_9 rest) (by omega)
      rw [h9] at this
      rw [this]

theorem pParenBase (e : Expr) (ts : List Tok) (h : PT 0 e ts) (rest : List Tok) (f : Nat)
    (hf : 100 * ts.length + 40 ≤ f) : parse f 9 (.lp :: (ts ++ [.rp]) ++ rest) = some (e, rest) := by
  obtain ⟨f1, rfl⟩ : ∃ f1, f = f1 + 1 := ⟨f - 1, by omega⟩
  rw [parse_l9]
  have : parse f1 0 (ts ++ .rp :: rest) = some (e, .rp :: rest) :=
    h.main (Nat.zero_le _) _ f1 (by simp [stops, binLevel]) (by omega)
  simp only [List.cons_append, List.append_assoc, List.singleton_append, List.nil_append, this]

theorem PT_wrap (e : Expr) (ts : List Tok) (h : PT 0 e ts) (k : Nat) : PT k e (.lp :: (ts ++ [.rp])) := by
  have hlen : (Tok.lp :: (ts ++ [Tok.rp])).length = ts.length + 2 := by simp
  have hmain : ∀ k, k ≤ 8 → ∀ rest f, stops k rest → 100 * ts.length + 60 ≤ f →
      parse f k (.lp :: (ts ++ [.rp]) ++ rest) = some (e, rest) := by
    intro k hk rest f hs hf
    have h0 := pParenBase e ts h rest (f - (9 - k)) (by omega)
    have hh : headFree k 9 (.lp :: (ts ++ [.rp]) ++ rest) := ⟨fun _ _ => by simp, fun _ _ => by simp⟩
    have := climb (9 - k) (f - (9 - k)) k 9 _ e rest (by omega) (Nat.le_refl _) (by omega) h0 hh hs
    rwa [Nat.sub_add_cancel (by omega)] at this
  refine ⟨⟨.lp, ts ++ [.rp], rfl, fun _ => by simp, fun _ => by simp⟩, ?_, ?_, ?_⟩
  · intro hk rest f hs hf
    exact hmain k hk rest f hs (by omega)
  · intro hk rest f hs hf
    have hk8 : k + 1 ≤ 8 := by rcases hk with rfl | rfl | rfl | rfl | rfl <;> omega
    obtain ⟨f0, rfl⟩ : ∃ f0, f = f0 + 1 := ⟨f - 1, by omega⟩
    refine ⟨f0, by omega, by omega, ?_⟩
    rw [parse_chain _ _ _ hk, hmain (k+1) hk8 rest f0 hs (by omega)]
  · intro hk rest f hf
    obtain ⟨f0, rfl⟩ : ∃ f0, f = f0 + 1 := ⟨f - 1, by omega⟩
    refine ⟨f0, by omega, by omega, ?_⟩
    rw [parse_l8, pParenBase e ts h rest f0 (by omega)]

/-! ### the constructors -/

theorem pown_lit (l : Lit) : POwn (.lit l) [.lit l] := by
  refine ⟨⟨_, _, rfl, fun _ => by simp, fun _ => by simp⟩, ?_, fun h => absurd h not_isChain_9,
    fun h => by simp [Expr.level] at h⟩
  intro rest f _ hf
  obtain ⟨f1, rfl⟩ : ∃ f1, f = f1 + 1 := ⟨f - 1, by simp at hf; omega⟩
  simp only [Expr.level, List.singleton_append]
  rw [parse_l9]

theorem pown_ident (n : String) : POwn (.ident n) [.id n] := by
  refine ⟨⟨_, _, rfl, fun _ => by simp, fun _ => by simp⟩, ?_, fun h => absurd h not_isChain_9,
    fun h => by simp [Expr.level] at h⟩
  intro rest f _ hf
  obtain ⟨f1, rfl⟩ : ∃ f1, f = f1 + 1 := ⟨f - 1, by simp at hf; omega⟩
  simp only [Expr.level, List.singleton_append]
  rw [parse_l9]

theorem pown_not (x : Expr) (ts : List Tok) (hx : PT 1 x ts) : POwn (.un .not x) (.sym .bang :: ts) := by
  refine ⟨⟨_, _, rfl, fun h => by simp [Expr.level, UnOp.level] at h, fun h => by simp [Expr.level, UnOp.level] at h⟩,
    ?_, fun h => absurd h not_isChain_1, fun h => by simp [Expr.level, UnOp.level] at h⟩
  intro rest f hs hf
  simp only [List.length_cons] at hf
  obtain ⟨f1, rfl⟩ : ∃ f1, f = f1 + 1 := ⟨f - 1, by omega⟩
  simp only [Expr.level, UnOp.level] at hs ⊢
  have hx1 := hx.main (by omega) rest f1 hs (by omega)
  rw [List.cons_append, parse_l1]
  simp only [hx1]

theorem pown_pos (x : Expr) (ts : List Tok) (hx : PT 7 x ts) : POwn (.un .pos x) (.sym .plus :: ts) := by
  refine ⟨⟨_, _, rfl, fun _ => by simp, fun h => by simp [Expr.level, UnOp.level] at h⟩,
    ?_, fun h => absurd h not_isChain_6, fun h => by simp [Expr.level, UnOp.level] at h⟩
  intro rest f hs hf
  simp only [List.length_cons] at hf
  obtain ⟨f1, rfl⟩ : ∃ f1, f = f1 + 1 := ⟨f - 1, by omega⟩
  simp only [Expr.level, UnOp.level] at hs ⊢
  have hx1 := hx.main (by omega) rest f1 (stops_mono hs (by omega)) (by omega)
  rw [List.cons_append, parse_l6]
  simp only [hx1]

theorem pown_neg (x : Expr) (ts : List Tok) (hx : PT 7 x ts) : POwn (.un .neg x) (.sym .minus :: ts) := by
  refine ⟨⟨_, _, rfl, fun _ => by simp, fun h => by simp [Expr.level, UnOp.level] at h⟩,
    ?_, fun h => absurd h not_isChain_6, fun h => by simp [Expr.level, UnOp.level] at h⟩
  intro rest f hs hf
  simp only [List.length_cons] at hf
  obtain ⟨f1, rfl⟩ : ∃ f1, f = f1 + 1 := ⟨f - 1, by omega⟩
  simp only [Expr.level, UnOp.level] at hs ⊢
  have hx1 := hx.main (by omega) rest f1 (stops_mono hs (by omega)) (by omega)
  rw [List.cons_append, parse_l6]
  simp only [hx1]

theorem headOk_append {k k' : Nat} {tl : List Tok} (h : HeadOk k' tl) (tr : List Tok)
    (h2 : 2 ≤ k → 2 ≤ k') (h7 : 7 ≤ k → 7 ≤ k') : HeadOk k (tl ++ tr) := by
  obtain ⟨t, tl', rfl, hb, hpm⟩ := h
  exact ⟨t, tl' ++ tr, rfl, fun h => hb (h2 h), fun h => hpm (h7 h)⟩

theorem pown_chain (op : BinOp) (hop : op ≠ .pow) (l r : Expr) (tl tr : List Tok)
    (hl : PT op.leftLevel l tl) (hr : PT op.rightLevel r tr) : POwn (.bin op l r) (tl ++ .sym op.sym :: tr) := by
  have hch := isChain_level op hop
  have hL7 := BinOp.level_le op
  have hL5 : op.level ≤ 5 := by rcases hch with h | h | h | h | h <;> omega
  have hleft : op.leftLevel = op.level := by cases op <;> first | rfl | exact absurd rfl hop
  have hright : op.rightLevel = op.level + 1 := by cases op <;> first | rfl | exact absurd rfl hop
  rw [hleft] at hl; rw [hright] at hr
  have hlen : (tl ++ .sym op.sym :: tr).length = tl.length + tr.length + 1 := by simp; omega
  have htoks : ∀ rest, (tl ++ .sym op.sym :: tr) ++ rest = tl ++ (.sym op.sym :: (tr ++ rest)) := by
    intro rest; simp
  have hsp : ∀ rest f, stops (op.level + 1) rest → 100 * (tl ++ .sym op.sym :: tr).length ≤ f →
      ∃ f', f ≤ f' + 100 * (tl ++ .sym op.sym :: tr).length ∧ 1 ≤ f' ∧
        parse f op.level ((tl ++ .sym op.sym :: tr) ++ rest) = chainLoop f' op.level (.bin op l r) rest := by
    intro rest f hs hf
    rw [hlen] at hf ⊢
    have hs' : stops (op.level + 1) (.sym op.sym :: (tr ++ rest)) := by
      simp only [stops, binLevel_sym]; omega
    obtain ⟨f1, h1, h2, h3⟩ := hl.spine hch _ f hs' (by omega)
    obtain ⟨f2, rfl⟩ : ∃ f2, f1 = f2 + 1 := ⟨f1 - 1, by omega⟩
    have hr1 := hr.main (by omega) rest f2 hs (by omega)
    refine ⟨f2, by omega, by omega, ?_⟩
    rw [htoks, h3, chainLoop_eq]
    simp only [chainOp_sym op hop, hr1]
  refine ⟨?_, ?_, fun _ => ?_, fun h => by simp [Expr.level] at h; omega⟩
  · exact headOk_append hl.head _ (fun h => by simpa [Expr.level] using h) (fun h => by simp [Expr.level] at h; omega)
  · intro rest f hs hf
    simp only [Expr.level] at hs ⊢
    obtain ⟨f', h1, h2, h3⟩ := hsp rest f (stops_mono hs (by omega)) hf
    obtain ⟨f3, rfl⟩ : ∃ f3, f' = f3 + 1 := ⟨f' - 1, by omega⟩
    rw [h3, chainLoop_stops _ _ _ _ hs]
  · simpa [Expr.level] using hsp

theorem pown_pow (l r : Expr) (tl tr : List Tok) (hl : PT 8 l tl) (hr : PT 6 r tr) :
    POwn (.bin .pow l r) (tl ++ .sym .starstar :: tr) := by
  have hlen : (tl ++ Tok.sym .starstar :: tr).length = tl.length + tr.length + 1 := by simp; omega
  refine ⟨?_, ?_, fun h => absurd h not_isChain_7, fun h => by simp [Expr.level, BinOp.level] at h⟩
  · exact headOk_append hl.head _ (fun _ => by omega) (fun _ => by omega)
  intro rest f hs hf
  rw [hlen] at hf
  simp only [Expr.level, BinOp.level] at hs ⊢
  obtain ⟨f1, rfl⟩ : ∃ f1, f = f1 + 1 := ⟨f - 1, by omega⟩
  have htoks : (tl ++ .sym .starstar :: tr) ++ rest = tl ++ (.sym .starstar :: (tr ++ rest)) := by simp
  have h1 := hl.main (by omega) (.sym .starstar :: (tr ++ rest)) f1 (by simp [stops, binLevel]) (by omega)
  have h2 := hr.main (by omega) rest f1 (stops_7_6 hs) (by omega)
  rw [htoks, parse_l7, h1]
  simp only [h2]

theorem pown_attr (x : Expr) (n : String) (ts : List Tok) (hx : PT 8 x ts) : POwn (.attr x n) (ts ++ [.dot, .id n]) := by
  have hlen : (ts ++ [Tok.dot, Tok.id n]).length = ts.length + 2 := by simp
  have hsp : ∀ rest f, 100 * (ts ++ [Tok.dot, Tok.id n]).length ≤ f →
      ∃ f', f ≤ f' + 100 * (ts ++ [Tok.dot, Tok.id n]).length ∧ 1 ≤ f' ∧
        parse f 8 ((ts ++ [.dot, .id n]) ++ rest) = attrLoop f' (.attr x n) rest := by
    intro rest f hf
    rw [hlen] at hf ⊢
    obtain ⟨f1, h1, h2, h3⟩ := hx.aspine rfl (.dot :: .id n :: rest) f (by omega)
    obtain ⟨f2, rfl⟩ : ∃ f2, f1 = f2 + 1 := ⟨f1 - 1, by omega⟩
    refine ⟨f2, by omega, by omega, ?_⟩
    have : (ts ++ [.dot, .id n]) ++ rest = ts ++ (.dot :: .id n :: rest) := by simp
    rw [this, h3, attrLoop_eq]
  refine ⟨?_, ?_, fun h => absurd h not_isChain_8, fun _ => hsp⟩
  · exact headOk_append hx.head _ (fun _ => by omega) (fun _ => by omega)
  intro rest f hs hf
  simp only [Expr.level] at hs ⊢
  obtain ⟨f', h1, h2, h3⟩ := hsp rest f hf
  obtain ⟨f3, rfl⟩ : ∃ f3, f' = f3 + 1 := ⟨f' - 1, by omega⟩
  rw [h3, attrLoop_stops _ _ _ hs]

/-! ### expression lists -/

/-- the list loop consumes `, e₁ , e₂ …` up to the closing brace -/
def PC (es : List Expr) (tcs : List Tok) : Prop :=
  (∀ rest, stops 0 (tcs ++ .rb :: rest)) ∧
  ∀ (acc : List Expr) (rest : List Tok) (f : Nat), 100 * tcs.length + 1 ≤ f →
    listLoop f acc (tcs ++ .rb :: rest) = (acc ++ es, .rb :: rest)

theorem PC_nil : PC [] [] := by
  refine ⟨fun rest => by simp [stops, binLevel], ?_⟩
  intro acc rest f hf
  obtain ⟨f1, rfl⟩ : ∃ f1, f = f1 + 1 := ⟨f - 1, by omega⟩
  simp only [List.nil_append, List.append_nil]
  rw [listLoop_eq]

theorem PC_cons (e : Expr) (es : List Expr) (ts tcs : List Tok) (he : PT 0 e ts) (hes : PC es tcs) :
    PC (e :: es) (.comma :: (ts ++ tcs)) := by
  refine ⟨fun rest => by simp [stops, binLevel], ?_⟩
  intro acc rest f hf
  simp only [List.length_cons, List.length_append] at hf
  obtain ⟨f1, rfl⟩ : ∃ f1, f = f1 + 1 := ⟨f - 1, by omega⟩
  have h1 := he.main (Nat.zero_le _) (tcs ++ .rb :: rest) f1 (hes.1 rest) (by omega)
  have : (Tok.comma :: (ts ++ tcs)) ++ .rb :: rest = .comma :: (ts ++ (tcs ++ .rb :: rest)) := by simp
  rw [this, listLoop_eq]
  simp only [h1]
  rw [hes.2 (acc ++ [e]) rest f1 (by omega)]
  simp

theorem pown_setNil : POwn (.setLit []) [.lb, .rb] := by
  refine ⟨⟨_, _, rfl, fun _ => by simp, fun _ => by simp⟩, ?_, fun h => absurd h not_isChain_9,
    fun h => by simp [Expr.level] at h⟩
  intro rest f _ hf
  simp only [List.length_cons, List.length_nil] at hf
  obtain ⟨f1, rfl⟩ : ∃ f1, f = f1 + 1 := ⟨f - 1, by omega⟩
  obtain ⟨f2, rfl⟩ : ∃ f2, f1 = f2 + 1 := ⟨f1 - 1, by omega⟩
  simp only [Expr.level, List.cons_append, List.nil_append]
  rw [parse_l9]
  simp only [parseList_eq, parse_rb_none f2 0 (by omega)]

theorem pown_setCons (e : Expr) (es : List Expr) (ts tcs : List Tok) (he : PT 0 e ts) (hes : PC es tcs) :
    POwn (.setLit (e :: es)) (.lb :: (ts ++ tcs ++ [.rb])) := by
  refine ⟨⟨_, _, rfl, fun _ => by simp, fun _ => by simp⟩, ?_, fun h => absurd h not_isChain_9,
    fun h => by simp [Expr.level] at h⟩
  intro rest f _ hf
  simp only [List.length_cons, List.length_append, List.length_nil] at hf
  obtain ⟨f1, rfl⟩ : ∃ f1, f = f1 + 1 := ⟨f - 1, by omega⟩
  obtain ⟨f2, rfl⟩ : ∃ f2, f1 = f2 + 1 := ⟨f1 - 1, by omega⟩
  have : (Tok.lb :: (ts ++ tcs ++ [.rb])) ++ rest = .lb :: (ts ++ (tcs ++ .rb :: rest)) := by simp
  simp only [Expr.level]
  rw [this, parse_l9]
  have h1 := he.main (Nat.zero_le _) (tcs ++ .rb :: rest) f2 (hes.1 rest) (by omega)
  simp only [parseList_eq, h1, hes.2 [e] rest f2 (by omega), List.singleton_append]

/-! ### all admissible renderings -/

/-- atoms are admissible wherever they stand -/
theorem PT_atom (e : Expr) (ts : List Tok) (h : POwn e ts) (hl : e.level = 9) (k : Nat) : PT k e ts := by
  by_cases hk : k ≤ 9
  · exact PT_of_own e ts h k (by omega)
  · obtain ⟨t, tl, htl, hb, hpm⟩ := h.head
    refine ⟨⟨t, tl, htl, fun _ => hb (by omega), fun _ => hpm (by omega)⟩, fun h8 => by omega, fun hc => ?_, fun h8 => by omega⟩
    unfold isChain at hc; omega

theorem Paren.pt {k : Nat} {e : Expr} {ts : List Tok} (h : Paren k e ts) : PT k e ts := by
  refine Paren.rec (motive_1 := fun k e ts _ => PT k e ts) (motive_2 := fun es tcs _ => PC es tcs)
    ?lit ?ident ?setNil ?setCons ?un ?bin ?attr ?wrap ?nil ?cons h
  case lit => intro k l; exact PT_atom _ _ (pown_lit l) rfl k
  case ident => intro k n; exact PT_atom _ _ (pown_ident n) rfl k
  case setNil => intro k; exact PT_atom _ _ pown_setNil rfl k
  case setCons => intro k e es ts tcs _ _ he hes; exact PT_atom _ _ (pown_setCons e es ts tcs he hes) rfl k
  case un =>
    intro k op x ts hk _ hx
    cases op
    · exact PT_of_own _ _ (pown_pos x ts hx) k hk
    · exact PT_of_own _ _ (pown_neg x ts hx) k hk
    · exact PT_of_own _ _ (pown_not x ts hx) k hk
  case bin =>
    intro k op l r tl tr hk _ _ hl hr
    by_cases h : op = .pow
    · subst h; exact PT_of_own _ _ (pown_pow l r tl tr hl hr) k hk
    · exact PT_of_own _ _ (pown_chain op h l r tl tr hl hr) k hk
  case attr => intro k x n ts hk _ hx; exact PT_of_own _ _ (pown_attr x n ts hx) k hk
  case wrap => intro k e ts _ h; exact PT_wrap e ts h k
  case nil => exact PC_nil
  case cons => intro e es ts tcs _ _ he hes; exact PC_cons e es ts tcs he hes

/-- **Precedence is independent of redundant parentheses**: every admissible rendering parses back to the tree. -/
theorem paren_roundtrip {e : Expr} {ts : List Tok} (h : Paren 0 e ts) : parseTokens ts = some e := by
  have h1 := h.pt.main (Nat.zero_le _) [] (fuelFor ts) trivial (by simp only [fuelFor]; omega)
  simp only [List.append_nil] at h1
  simp only [parseTokens, h1]

/-! ### the two printers of the model are members of the family -/

theorem UnOp.operandLevel_le (op : UnOp) : op.operandLevel ≤ 8 := by cases op <;> simp [UnOp.operandLevel]
theorem BinOp.leftLevel_le (op : BinOp) : op.leftLevel ≤ 8 := by cases op <;> simp [BinOp.leftLevel, BinOp.level]
theorem BinOp.rightLevel_le (op : BinOp) : op.rightLevel ≤ 8 := by cases op <;> simp [BinOp.rightLevel, BinOp.level]

mutual
theorem paren_toksAt (k : Nat) (hk : k ≤ 8) : (e : Expr) → Paren k e (toksAt k e)
  | .lit l => .lit k l
  | .ident n => .ident k n
  | .setLit [] => .setNil k
  | .setLit (e :: es) => by
      have h1 := paren_toksAt 0 (Nat.zero_le _) e
      have h2 := parenC_commaToks es
      have := Paren.setCons k e es _ _ h1 h2
      simpa [toksAt, toksList_cons] using this
  | .un op x => by
      have hx := paren_toksAt op.operandLevel op.operandLevel_le x
      by_cases h : op.level < k
      · have := Paren.wrap k _ _ (Paren.un 0 op x _ (Nat.zero_le _) hx)
        simpa [toksAt, h] using this
      · have := Paren.un k op x _ (by omega) hx
        simpa [toksAt, h] using this
  | .bin op l r => by
      have hl := paren_toksAt op.leftLevel op.leftLevel_le l
      have hr := paren_toksAt op.rightLevel op.rightLevel_le r
      by_cases h : op.level < k
      · have := Paren.wrap k _ _ (Paren.bin 0 op l r _ _ (Nat.zero_le _) hl hr)
        simpa [toksAt, h] using this
      · have := Paren.bin k op l r _ _ (by omega) hl hr
        simpa [toksAt, h] using this
  | .attr x n => by
      have hx := paren_toksAt 8 (Nat.le_refl _) x
      have := Paren.attr k x n _ hk hx
      simpa [toksAt] using this
theorem parenC_commaToks : (es : List Expr) → ParenC es (commaToks es)
  | [] => .nil
  | e :: es => by
      have := ParenC.cons e es _ _ (paren_toksAt 0 (Nat.zero_le _) e) (parenC_commaToks es)
      simpa [commaToks] using this
end

/-- the minimal printer -/
theorem paren_toks (e : Expr) : Paren 0 e (toks e) := paren_toksAt 0 (Nat.zero_le _) e

/-- `, e₁ , e₂ …` of the fully parenthesising printer -/
def commaFull : List Expr → List Tok
  | [] => []
  | e :: es => .comma :: (toksFull e ++ commaFull es)

theorem toksFullList_cons (e : Expr) (es : List Expr) : toksFullList (e :: es) = toksFull e ++ commaFull es := by
  induction es generalizing e with
  | nil => simp [toksFullList, commaFull]
  | cons e' es ih => simp [toksFullList, commaFull, ih e']

mutual
theorem paren_toksFull (k : Nat) : (e : Expr) → Paren k e (toksFull e)
  | .lit l => .lit k l
  | .ident n => .ident k n
  | .setLit [] => .setNil k
  | .setLit (e :: es) => by
      have := Paren.setCons k e es _ _ (paren_toksFull 0 e) (parenC_commaFull es)
      simpa [toksFull, toksFullList_cons] using this
  | .un op x => by
      have := Paren.wrap k _ _ (Paren.un 0 op x _ (Nat.zero_le _) (paren_toksFull op.operandLevel x))
      simpa [toksFull] using this
  | .bin op l r => by
      have := Paren.wrap k _ _ (Paren.bin 0 op l r _ _ (Nat.zero_le _) (paren_toksFull op.leftLevel l)
        (paren_toksFull op.rightLevel r))
      simpa [toksFull] using this
  | .attr x n => by
      have := Paren.wrap k _ _ (Paren.attr 0 x n _ (Nat.zero_le _) (paren_toksFull 8 x))
      simpa [toksFull] using this
theorem parenC_commaFull : (es : List Expr) → ParenC es (commaFull es)
  | [] => .nil
  | e :: es => by
      have := ParenC.cons e es _ _ (paren_toksFull 0 e) (parenC_commaFull es)
      simpa [commaFull] using this
end

/-- The fully parenthesising printer is inverted by the PEG. -/
theorem roundtrip_full (e : Expr) : parseTokens (toksFull e) = some e := paren_roundtrip (paren_toksFull 0 e)

/-! ### closure of the family under wrapping -/

/-- `n` pairs of parentheses around a token list -/
def wrapN : Nat → List Tok → List Tok
  | 0, ts => ts
  | n+1, ts => .lp :: (wrapN n ts ++ [.rp])

theorem Paren.weaken {k : Nat} {e : Expr} {ts : List Tok} (h : Paren k e ts) : Paren 0 e ts := by
  cases h with
  | lit k l => exact .lit 0 l
  | ident k n => exact .ident 0 n
  | setNil k => exact .setNil 0
  | setCons k e es ts tcs h1 h2 => exact .setCons 0 e es ts tcs h1 h2
  | un k op x ts hk hx => exact .un 0 op x ts (Nat.zero_le _) hx
  | bin k op l r tl tr hk hl hr => exact .bin 0 op l r tl tr (Nat.zero_le _) hl hr
  | attr k x n ts hk hx => exact .attr 0 x n ts (Nat.zero_le _) hx
  | wrap k e ts h => exact .wrap 0 e ts h

/-- any admissible rendering may be wrapped in any number of further pairs, and then stands in any position -/
theorem Paren.wrapN {k : Nat} {e : Expr} {ts : List Tok} (h : Paren k e ts) (n : Nat) (j : Nat) :
    Paren j e (Ex.wrapN (n+1) ts) := by
  induction n generalizing j with
  | zero => exact Paren.wrap j e _ h.weaken
  | succ n ih => exact Paren.wrap j e _ (ih 0)

/-- no token list is an admissible rendering of two different trees -/
theorem paren_unique {e e' : Expr} {ts : List Tok} (h : Paren 0 e ts) (h' : Paren 0 e' ts) : e = e' := by
  have h1 := paren_roundtrip h
  rw [paren_roundtrip h'] at h1
  exact (Option.some.inj h1).symm

end Ex
